"""C01 – a log call reaches exactly the handlers its level, filter and activation select (DESIGN §4 C01).

Three views of every generated history are compared op by op:
  * the implementation: a fresh `Logger(Core(), ...)`, callable sinks recording (handler id, seq), log calls
    issued by exec-compiled code in a namespace whose `__name__` is the module name (absent for None);
  * the DIRECT ORACLE `SpecOracle` below: an executable Python re-statement of the history spec S (registered
    handlers in registration order, "the last relevant enable/disable wins", closest-parent rule), which
    shares nothing with the Lean model;
  * the Lean model (`lean/drivers/C01.lean`, one line per history), characterised by
    `C01.dispatch_refines_spec`.
"""
import builtins
import json
import os

from harness import core
from harness.core import enc

PROP = "C01"
LEAN_TARGETS = ["LoguruModel.Props.C01"]
AUDIT_FILE = "LoguruModel/Audit/C01.lean"
DRIVER = "C01"
RULE = ("operation histories (add/remove/remove()/configure/level/enable/disable/log, ~8 % malformed calls) over the "
        "module-name alphabet {'', None, a, ab, a.b, a.bc, a.b.c, 'a.', a..b, .a, b, '.', 'a.b.', a.b.c.d, non-ASCII}, "
        "thresholds and log levels around the level numbers (ints, bools, names, the named methods, level= omitted), "
        "filters none/''/name/dict/callable (callables returning any truthy/falsy value), every in-process sink kind add() "
        "dispatches on (callable, stream, logging.Handler, callable object, object with write() and __call__), non-sinks and "
        "unknown keywords, ~12 % of the sinks with a stop()/close() that raises (fault inside remove/remove()/configure), "
        "~30 % of the handlers on a non-default emit path (colorize=True, markup or function format, catch=True), levels "
        "created / updated at run time with or without colour or icon and used by NAME (incl. the empty name), calls issued "
        "through loggers derived by bind()/opt()/patch(), and log calls OVERLAPPED by a complete enable()/disable() run from "
        "inside the lock-free reader (right after it fetched the rules / at its first access to the core); every op's "
        "observable (returned id, error kind, ordered list of receiving handler ids, lazy evaluation counts) is compared "
        "between implementation, Python spec oracle and Lean model.  non-trivial = the history contains a delivering log "
        "and an enable/disable issued after a log from a module that call affects; distinct by the whole history")
TRUSTED = [
    "user callables (filters) are oracles: a fixed table-free family k -> predicate(level no, module) on both sides",
    "the Lean spec reads argument kinds (mkFilter/mkThreshold) and levelDecision by hand; the model interprets the "
    "regenerated if/elif chains of add() and is proved equal; the Python oracle restates validation independently",
    "an overlapped call is produced in ONE thread: the core's class is swapped for a subclass whose attribute read runs "
    "the complete enable()/disable() (value fetched first) - the same interleaving as parking the reader thread there; "
    "the stream `threads` produces the same interleavings with two real threads and compares",
    "the sink labels use the count of attempted add() calls (re-read from core.handlers_count only after a configure() "
    "that raised)",
]
ASSUMPTIONS = ["no LOGURU_*_NO environment overrides of the default level numbers",
               "one thread; the only interleaving is a complete enable()/disable() inside a log call (C02 covers the rest)",
               "in-process sinks, enqueue=False"]

NAMES = ["", None, "a", "ab", "a.b", "a.bc", "a.b.c", "a.", "a..b", ".a", "b", ".", "a.b.", "a.b.c.d", "\u00e4.\u00f6"]
DEFAULT_LEVELS = {"TRACE": 5, "DEBUG": 10, "INFO": 20, "SUCCESS": 25, "WARNING": 30, "ERROR": 40, "CRITICAL": 50}
LEVEL_NAMES = list(DEFAULT_LEVELS) + ["NEW", "N2", ""]          # "" is a legal level name
RUNTIME_LEVELS = ["NEW", "N2", "NEW", "N2", ""]
NUMS = [0, 4, 5, 6, 9, 10, 11, 15, 19, 20, 21, 24, 25, 26, 29, 30, 31, 39, 40, 41, 49, 50, 51, 60]


# ----------------------------------------------------------------------------- callable filters (user code)
def oracle_filter(k, no, name):
    """callable filter number k – mirrored by `orc` in lean/drivers/C01.lean"""
    h = 7 if name is None else sum(ord(c) for c in name)
    return (k + no + h) % 3 != 0


# ----------------------------------------------------------------------------- op encoding
# ops are JSON-able lists:
#   ["add", level, filter]            level: ["n", name] | ["i", int] | ["bad"]
#                                     filter: ["none"] | ["s", str] | ["d", [[key, val], ...]] | ["c", k] | ["builtin"] | ["bad"]
#                                       key: ["N"] | ["s", str] | ["B"];  val: ["F"] | ["T"] | ["n", name] | ["i", int] | ["B"]
#   ["rm", int] ["rmall"] ["rmbad"]
#   ["level", name, no, other]        no: ["none"] | ["i", int] | ["bad"]
#   ["levelbad"] ["en", mod] ["dis", mod] ["enbad"] ["disbad"]      mod: None | str
#   ["log", level, mod, lazy]
#   ["cfg", reset(bool), [sub-ops: level / en / dis / add]]
#   ["logd", level, mod, lazy, at, name, status]   a log call overlapped by one complete enable(name) (status True) /
#                                     disable(name) issued from inside the reader: at "rules" = right after `_log`
#                                     fetched core.activation_list / activation_none on a cache miss, at "early" =
#                                     at its first access to the core; if the reader never gets there the change
#                                     runs right after the call
def l_level(l):
    # ["m", NAME]: the named method (logger.info(...)) = the level by name;  ["b", bool]: a bool IS an int in Python
    return {"n": lambda: "n:" + enc(l[1]), "m": lambda: "n:" + enc(l[1]), "i": lambda: "i:%d" % l[1],
            "b": lambda: "i:%d" % int(l[1]), "bad": lambda: "bad", "dflt": lambda: "dflt"}[l[0]]()


def l_mod(m):
    return "N" if m is None else "s:" + enc(m)


def l_filter(f):
    t = f[0]
    if t in ("none", "builtin", "bad"):
        return t
    if t == "s":
        return "s:" + enc(f[1])
    if t == "c":
        return "c:%d" % f[1]
    items = []
    for k, v in f[1]:
        ks = {"N": "N", "B": "B"}.get(k[0]) or "s" + enc(k[1])
        vs = {"F": "F", "T": "T", "B": "B"}.get(v[0]) or (("n" + enc(v[1])) if v[0] == "n" else "i%d" % v[1])
        items.append(ks + "=" + vs)
    return "d:" + ",".join(items)


def l_no(n):
    return {"none": lambda: "none", "i": lambda: "i:%d" % n[1], "b": lambda: "i:%d" % int(n[1]),
            "bad": lambda: "bad"}[n[0]]()


def l_op(op):
    t = op[0]
    if t == "add":
        return "add %s %s %d %d" % (l_level(op[1]), l_filter(op[2]), 1 if stop_fails(op) else 0,
                                    1 if precolorizes(op) else 0)
    if t == "rm":
        return "rm %d" % op[1]
    if t == "addbad":
        return "addbad"
    if t == "via":
        # which derived logger issues the following calls: they all share the core, the model has ONE logger -
        # the line carries a no-op (plain read of a built-in level)
        return "level %s none 0" % enc("INFO")
    if t in ("rmall", "rmbad", "levelbad", "enbad", "disbad"):
        return t
    if t == "level":
        return "level %s %s %d" % (enc(op[1]), l_no(op[2]), 1 if op[3] else 0)
    if t in ("en", "dis"):
        return "%s %s" % (t, l_mod(op[1]))
    if t == "log":
        return "log %s %s %d" % (l_level(op[1]), l_mod(op[2]), 1 if op[3] else 0)
    if t == "logd":
        return "logd %s %s %d %d %s %d" % (l_level(op[1]), l_mod(op[2]), 1 if op[3] else 0,
                                           1 if op[4] == "early" else 0, l_mod(op[5]), 1 if op[6] else 0)
    if t == "cfg":
        return ";".join(["cfg %d" % (1 if op[1] else 0)] + [l_op(s) for s in op[2]])
    raise ValueError(op)


def stop_fails(op):
    """["add", level, filter, True]: the sink object's stop() raises OSError (a fault injected into remove)"""
    return len(op) > 3 and bool(op[3])


def emit_profile(op):
    """["add", level, filter, stop_fails, {"colorize": bool, "fmt": "str"|"markup"|"func", "catch": bool}]: options of
    add() that select the code path of Handler.emit AFTER the threshold/filter gate; the property does not depend
    on them (every admitted message must still arrive exactly once)"""
    prof = {"colorize": False, "fmt": "str", "catch": False}
    if len(op) > 4 and isinstance(op[4], dict):
        prof.update(op[4])
    return prof


def precolorizes(op):
    """the handler keeps one pre-colourised format per level name (colorize=True and a string format)"""
    prof = emit_profile(op)
    return bool(prof["colorize"]) and prof["fmt"] != "func"


FORMATS = {"str": "{message}", "markup": "<level>{level.name: <8}</level> <cyan>{name}</cyan> {level.icon} {message}"}


def line_of(history):
    return "|".join(l_op(op) for op in history)


# ----------------------------------------------------------------------------- implementation runner
class Unhashable(list):
    pass


def py_level(l):
    if l[0] in ("n", "m"):
        return l[1]
    if l[0] == "i":
        return l[1]
    if l[0] == "b":
        return bool(l[1])
    return [None, 2.5, Unhashable([1])][l[1] % 3] if len(l) > 1 else None


def py_filter(f):
    t = f[0]
    if t == "none":
        return None
    if t == "s":
        return f[1]
    if t == "c":
        k = f[1]
        # Handler.emit tests `if not self._filter(record)`: only the TRUTH VALUE of what the callable returns counts
        yes, no = TRUTHY[k % len(TRUTHY)], FALSY[k % len(FALSY)]
        return lambda record, k=k: yes if oracle_filter(k, record["level"].no, record["name"]) else no
    if t == "builtin":
        return builtins.filter
    if t == "bad":
        return 42
    d = {}
    for k, v in f[1]:
        key = None if k[0] == "N" else (k[1] if k[0] == "s" else 42)
        val = {"F": False, "T": True, "B": 2.5}.get(v[0], v[1] if len(v) > 1 else None)
        d[key] = val
    return d


TRUTHY = [True, 1, "x", [0], 2.5, (None,)]
FALSY = [False, 0, "", [], None, 0.0]

CODE_PLAIN = compile("logger.log(lvl, 'm')", "<c01>", "exec")
CODE_LAZY = compile("logger.opt(lazy=True).log(lvl, '{}{k}', t1, k=t2)", "<c01>", "exec")


METHOD_CODE = {}
for _n in DEFAULT_LEVELS:
    METHOD_CODE[(_n, False)] = compile("logger.%s('m')" % _n.lower(), "<c01>", "exec")
    METHOD_CODE[(_n, True)] = compile("logger.opt(lazy=True).%s('{}{k}', t1, k=t2)" % _n.lower(), "<c01>", "exec")


class FailingStopSink:
    """a stream-like sink (write/stop) whose stop() raises: remove() then raises after unregistering"""

    def __init__(self, events, label):
        self.events, self.label = events, label

    def write(self, message):
        self.events.append(self.label)

    def stop(self):
        raise OSError("cannot stop sink %d" % self.label)


RULE_ATTRS = ("activation_list", "activation_none")
_HOOK_CLASSES = {}


def hook_core_class(base):
    """subclass of loguru's Core whose attribute reads can run a callback ONCE: the single-threaded stand-in for
    "another thread runs a complete enable()/disable() while the lock-free reader `_log` is at this point".  The
    value is fetched BEFORE the callback runs (the reader got the old object)."""
    cls = _HOOK_CLASSES.get(base)
    if cls is None:
        class HookCore(base):
            def __getattribute__(self, name):
                d = object.__getattribute__(self, "__dict__")
                hook = d.get("_c01_hook")
                if hook is not None and (hook[0] is None or name in hook[0]):
                    v = object.__getattribute__(self, name)
                    d["_c01_hook"] = None
                    hook[1]()
                    return v
                return object.__getattribute__(self, name)
        cls = _HOOK_CLASSES[base] = HookCore
    return cls


class StreamObj:
    """a stream-like sink: write() only (no stop, no flush)"""

    def __init__(self, events, label):
        self.events, self.label = events, label

    def write(self, message):
        self.events.append(self.label)


class CallableObj:
    """a callable OBJECT that also has a stop() which raises: add() takes it for a callable sink, whose stop is a
    no-op - removing it never fails"""

    def __init__(self, events, label):
        self.events, self.label = events, label

    def __call__(self, message):
        self.events.append(self.label)

    def stop(self):
        raise OSError("never called")


class WriteAndCall(StreamObj):
    """has write() AND is callable: add() tests `write` first - the message must arrive through write(), once"""

    def __call__(self, message):
        self.events.append(("called", self.label))


def std_handler(events, label, failing_close):
    import logging

    class H(logging.Handler):
        def emit(self, record):
            events.append(label)

        def close(self):
            logging.Handler.close(self)
            if failing_close:
                raise OSError("cannot close handler %d" % label)
    h = H()
    h.setLevel(100)          # a standard handler's own level is NOT consulted by Handler.handle()
    return h


SINK_KINDS = ("callable", "stream", "std", "obj", "both")
DERIVED = 6


class HarnessTimeout(RuntimeError):
    pass


class Impl:
    threads = False      # True: an overlapped call is produced by two REAL threads (the reader is parked)

    def __init__(self):
        from loguru._logger import Core, Logger
        self.root = Logger(core=Core(), exception=None, depth=0, record=False, lazy=False, colors=False, raw=False,
                           capture=True, patchers=[], extra={})
        self.lg = self.root
        self.events = []
        self.attempts = 0      # add() calls issued so far = label of the next sink

    def derived(self, k):
        """loggers derived from the root by bind / opt / patch / contextualize-free chains: ONE core behind all"""
        r = self.root
        if k == 1:
            return r.bind(x=1)
        if k == 2:
            return r.opt(colors=False, raw=False)
        if k == 3:
            return r.patch(lambda record: None)
        if k == 4:
            return r.bind(a=1).opt(capture=False).patch(lambda record: record["extra"].update(p=1)).bind(b=2)
        if k == 5:
            return self.lg.bind(again=True)          # derived from whatever is current
        return r

    def _sink(self, failing_stop=False, kind="callable"):
        label = self.attempts
        self.attempts += 1
        ev = self.events
        if kind == "std":
            return std_handler(ev, label, failing_stop)
        if failing_stop:
            return FailingStopSink(ev, label)
        if kind == "stream":
            return StreamObj(ev, label)
        if kind == "obj":
            return CallableObj(ev, label)
        if kind == "both":
            return WriteAndCall(ev, label)
        return lambda m: ev.append(label)

    def _add_kwargs(self, op):
        prof = emit_profile(op)
        fmt = FORMATS.get(prof["fmt"]) or (lambda record: "{message}\n")
        kw = dict(sink=self._sink(stop_fails(op), prof.get("sink", "callable")), level=py_level(op[1]),
                  filter=py_filter(op[2]), format=fmt, colorize=bool(prof["colorize"]), catch=bool(prof["catch"]))
        if op[1][0] == "dflt":
            del kw["level"]                     # add(sink) without level=: the documented default "DEBUG"
            if op[2][0] == "none":
                del kw["filter"]                # ... and without filter=: no filter
        return kw

    def do(self, op):
        try:
            return self._do(op)
        except HarnessTimeout:
            raise
        except Exception as e:  # noqa
            return "err " + core.err_kind(e)

    def _overlap_with_threads(self, op, core_, base, change, fired):
        """the same interleaving with two real threads: the reader thread runs the log call and PARKS at the yield
        point; this thread then runs the complete enable()/disable() and lets the reader go on"""
        import threading
        parked, resume, result = threading.Event(), threading.Event(), []

        def park():
            lk = getattr(core_, "lock", None)
            if lk is not None and hasattr(lk, "acquire"):
                if not lk.acquire(blocking=False):
                    return                      # the reader holds the core lock here: nobody can overlap
                lk.release()
            parked.set()
            if not resume.wait(10):
                raise HarnessTimeout("reader was not resumed")

        def reader():
            try:
                result.append(self._do(["log", op[1], op[2], op[3]]))
            except HarnessTimeout:
                result.append("timeout")
            except Exception as e:  # noqa
                result.append("err " + core.err_kind(e))
            finally:
                parked.set()

        core_.__dict__["_c01_hook"] = (None if op[4] == "early" else RULE_ATTRS, park)
        core_.__class__ = hook_core_class(base)
        th = threading.Thread(target=reader, name="c01-reader", daemon=True)
        try:
            th.start()
            if not parked.wait(10):
                raise HarnessTimeout("reader neither parked nor finished")
            change(inside=False)                # the complete enable()/disable(), by THIS thread (already done if the
            resume.set()                        # reader finished without parking - then it simply runs after the call)
            th.join(10)
            if th.is_alive() or not result or result[0] == "timeout":
                raise HarnessTimeout("overlapped log call did not finish")
        finally:
            resume.set()
            core_.__class__ = base
            core_.__dict__.pop("_c01_hook", None)
        return result[0]

    def _do(self, op):
        lg, t = self.lg, op[0]
        if t == "add":
            return "id %d" % lg.add(**self._add_kwargs(op))
        if t == "addbad":
            # no sink / an unknown keyword: TypeError whatever the other arguments are (they are malformed too)
            self.attempts += 1
            if op[1] == "sink":
                lg.add(42, level="NOPE", filter=builtins.filter)
            else:
                lg.add(lambda m: None, level=-5, filter={"a": "NOPE"}, rotation="1 day")
            return "ok"
        if t == "via":
            self.lg = self.derived(op[1]); return "ok"
        if t == "rm":
            lg.remove(op[1]); return "ok"
        if t == "rmall":
            lg.remove(); return "ok"
        if t == "rmbad":
            lg.remove("0"); return "ok"
        if t == "level":
            kw = {}
            if op[2][0] == "i":
                kw["no"] = op[2][1]
            elif op[2][0] == "b":
                kw["no"] = bool(op[2][1])
            elif op[2][0] == "bad":
                kw["no"] = "15"
            if op[3] == "icon":
                kw["icon"] = "@"
            elif op[3]:
                kw["color"] = "<red>"
            lg.level(op[1], **kw); return "ok"
        if t == "levelbad":
            lg.level(3, no=3); return "ok"
        if t == "en":
            lg.enable(op[1]); return "ok"
        if t == "dis":
            lg.disable(op[1]); return "ok"
        if t == "enbad":
            lg.enable(42); return "ok"
        if t == "disbad":
            lg.disable(4.2); return "ok"
        if t == "logd":
            core_ = lg._core
            base = type(core_)
            fired = []

            def change(inside=True):
                if inside:
                    # a reader that HOLDS the core lock at this point cannot be overlapped here by a writer: the
                    # change then runs after the call (never block: the lock is not re-entrant)
                    lk = getattr(core_, "lock", None)
                    if lk is not None and hasattr(lk, "acquire"):
                        if not lk.acquire(blocking=False):
                            return
                        lk.release()
                fired.append(1)
                (lg.enable if op[6] else lg.disable)(op[5])
            if self.threads:
                return self._overlap_with_threads(op, core_, base, change, fired)
            core_.__dict__["_c01_hook"] = (None if op[4] == "early" else RULE_ATTRS, change)
            core_.__class__ = hook_core_class(base)
            try:
                return self._do(["log", op[1], op[2], op[3]])
            finally:
                core_.__class__ = base
                core_.__dict__.pop("_c01_hook", None)
                if not fired:
                    change(inside=False)
        if t == "log":
            del self.events[:]
            cnt = [0, 0]

            def t1():
                cnt[0] += 1
                return "x"

            def t2():
                cnt[1] += 1
                return "y"
            ns = {"logger": lg, "lvl": py_level(op[1]), "t1": t1, "t2": t2}
            if op[2] is not None:
                ns["__name__"] = op[2]
            if op[1][0] == "m":
                exec(METHOD_CODE[(op[1][1], bool(op[3]))], ns)
            else:
                exec(CODE_LAZY if op[3] else CODE_PLAIN, ns)
            lz = str(cnt[0]) if cnt[0] == cnt[1] else "%d/%d" % tuple(cnt)
            return " ".join(["->"] + [str(i) for i in self.events]) + " lazy=" + lz
        if t == "cfg":
            kw = {}
            subs = op[2]
            lv = [s for s in subs if s[0] == "level"]
            ac = [s for s in subs if s[0] in ("en", "dis")]
            ad = [s for s in subs if s[0] == "add"]
            if op[1]:
                kw["handlers"] = [self._add_kwargs(s) for s in ad]
            levels = []
            for s in lv:
                d = {"name": s[1]}
                if s[2][0] == "i":
                    d["no"] = s[2][1]
                elif s[2][0] == "b":
                    d["no"] = bool(s[2][1])
                elif s[2][0] == "bad":
                    d["no"] = "15"
                if s[3] == "icon":
                    d["icon"] = "@"
                elif s[3]:
                    d["color"] = "<red>"
                levels.append(d)
            kw["levels"] = levels
            kw["activation"] = [(s[1], s[0] == "en") for s in ac]
            try:
                ids = lg.configure(**kw)
            except Exception:
                self.attempts = lg._core.handlers_count   # labels only (see TRUSTED)
                raise
            return " ".join(["ids"] + [str(i) for i in ids])
        raise ValueError(op)


def run_impl(history):
    im = Impl()
    return [im.do(op) for op in history]


def run_impl_threads(history):
    im = Impl()
    im.threads = True
    return [im.do(op) for op in history]


# ----------------------------------------------------------------------------- direct oracle: the history spec S
class SpecErr(Exception):
    def __init__(self, kind):
        self.kind = kind


def is_parent_or_self(p, m):
    """p names m or one of its parent packages; '' is the parent of everything; None only relates to None"""
    if p is None or m is None:
        return p is None and m is None
    return p == "" or m == p or m.startswith(p + ".")


class SpecOracle:
    def __init__(self):
        self.levels = dict(DEFAULT_LEVELS)
        self.next_id = 0
        self.regs = []           # (id, threshold, filter) in registration order
        self.calls = []          # (name, status), oldest first

    # -- what the property says
    def enabled(self, m):
        for p, status in reversed(self.calls):
            if is_parent_or_self(p, m):
                return status
        return True

    @staticmethod
    def accepts(f, no, m):
        t = f[0]
        if t == "none":
            return True
        if t == "notnone":
            return m is not None
        if t == "name":
            return m is not None and (m == f[1] or m.startswith(f[1] + "."))
        if t == "callable":
            return oracle_filter(f[1], no, m)
        table = f[1]          # closest parent: the longest key naming m or one of its parent packages decides
        cands = [k for k in table if is_parent_or_self(k, m)]
        if not cands:
            return True
        v = table[max(cands, key=lambda k: len(k or ""))]
        return False if v is False else no >= v

    def level_no(self, l):
        if l[0] == "bad":
            raise SpecErr("TypeError")
        if l[0] == "b":
            return int(l[1])
        if l[0] == "dflt":
            return self.levels["DEBUG"]          # documented default threshold of add()
        if l[0] in ("n", "m"):
            if l[1] not in self.levels:
                raise SpecErr("ValueError")
            return self.levels[l[1]]
        if l[1] < 0:
            raise SpecErr("ValueError")
        return l[1]

    def mk_filter(self, f):
        t = f[0]
        if t == "none":
            return ("none",)
        if t == "s":
            return ("notnone",) if f[1] == "" else ("name", f[1])
        if t == "c":
            return ("callable", f[1])
        if t == "builtin":
            raise SpecErr("ValueError")
        if t == "bad":
            raise SpecErr("TypeError")
        table = {}
        for k, v in f[1]:
            if k[0] == "B":
                raise SpecErr("TypeError")
            key = None if k[0] == "N" else k[1]
            if v[0] == "F":
                val = False
            elif v[0] == "T":
                val = 0
            elif v[0] == "n":
                if v[1] not in self.levels:
                    raise SpecErr("ValueError")
                val = self.levels[v[1]]
            elif v[0] == "i":
                val = v[1]
            else:
                raise SpecErr("TypeError")
            if val is not False and val < 0:
                raise SpecErr("ValueError")
            table[key] = val
        return ("table", table)

    def do(self, op):
        try:
            return self._do(op)
        except SpecErr as e:
            return "err " + e.kind

    def _add(self, op):
        hid = self.next_id
        self.next_id += 1           # an id is consumed by every call, successful or not
        f = self.mk_filter(op[2])
        if op[1][0] == "bad":
            raise SpecErr("TypeError")
        thr = self.level_no(op[1]) if op[1][0] in ("n", "b", "dflt") else op[1][1]
        if thr < 0:
            raise SpecErr("ValueError")
        self.regs.append((hid, thr, f, stop_fails(op)))
        return hid

    def _remove_all(self):
        """handlers go in registration order; the first sink whose stop() raises ends the call"""
        while self.regs:
            h = self.regs.pop(0)
            if h[3]:
                raise SpecErr("OSError")

    def _level(self, name, no, other):
        if no[0] == "none" and not other:
            if name not in self.levels:
                raise SpecErr("ValueError")
            return
        if name not in self.levels:
            if no[0] == "none":
                raise SpecErr("ValueError")
            if no[0] == "bad":
                raise SpecErr("TypeError")
            if int(no[1]) < 0:
                raise SpecErr("ValueError")
            self.levels[name] = int(no[1])
        elif no[0] != "none":
            raise SpecErr("ValueError")      # the severity of an existing level cannot change

    def _do(self, op):
        t = op[0]
        if t == "add":
            return "id %d" % self._add(op)
        if t == "addbad":
            self.next_id += 1
            raise SpecErr("TypeError")
        if t == "via":
            return "ok"              # bind()/opt()/patch() give another handle on the SAME logger
        if t == "rm":
            hit = [h for h in self.regs if h[0] == op[1]]
            if not hit:
                raise SpecErr("ValueError")
            self.regs = [h for h in self.regs if h[0] != op[1]]      # unregistered whatever stop() does
            if hit[0][3]:
                raise SpecErr("OSError")
            return "ok"
        if t == "rmall":
            self._remove_all()
            return "ok"
        if t in ("rmbad", "levelbad", "enbad", "disbad"):
            raise SpecErr("TypeError")
        if t == "level":
            self._level(op[1], op[2], op[3])
            return "ok"
        if t in ("en", "dis"):
            self.calls.append((op[1], t == "en"))
            return "ok"
        if t == "logd":
            # an overlapped call may follow either activation state; at the two fixed yield points the reader has
            # (rules) already fetched the old rules / (early) not looked at anything yet.  Every LATER call must
            # follow the completed change.
            if op[4] == "early":
                self.calls.append((op[5], bool(op[6])))
                return self._do(["log", op[1], op[2], op[3]])
            try:
                return self._do(["log", op[1], op[2], op[3]])
            finally:
                self.calls.append((op[5], bool(op[6])))
        if t == "log":
            if not self.regs:
                return "-> lazy=0"          # nothing registered: the call is a no-op (even with a bad level)
            no = self.level_no(op[1])
            m = op[2]
            if not self.enabled(m) or not any(thr <= no for _, thr, _, _ in self.regs):
                return "-> lazy=0"
            ids = [hid for hid, thr, f, _ in self.regs if thr <= no and self.accepts(f, no, m)]
            return " ".join(["->"] + [str(i) for i in ids]) + " lazy=%d" % (1 if op[3] else 0)
        if t == "cfg":
            subs = op[2]
            if op[1]:
                self._remove_all()
            for s in subs:
                if s[0] == "level":
                    self._level(s[1], s[2], s[3])
            for s in subs:
                if s[0] in ("en", "dis"):
                    self.calls.append((s[1], s[0] == "en"))
            ids = []
            if op[1]:
                for s in subs:
                    if s[0] == "add":
                        ids.append(self._add(s))
            return " ".join(["ids"] + [str(i) for i in ids])
        raise ValueError(op)


def run_oracle(history):
    o = SpecOracle()
    return [o.do(op) for op in history]


# ----------------------------------------------------------------------------- generators
def g_mod(rng, focus):
    return rng.choice(focus) if rng.chance(80) else rng.choice(NAMES)


def g_level_arg(rng, malformed=False):
    if malformed:
        k = rng.below(3)
        if k == 0:
            return ["n", rng.choice(["NOPE", "info", ""])]
        if k == 1:
            return ["i", -rng.range(1, 3)]
        return ["bad", rng.below(3)]
    if rng.chance(55):
        return ["n", rng.choice(LEVEL_NAMES[:7] if rng.chance(65) else RUNTIME_LEVELS + ["INFO"])]
    if rng.chance(4):
        return ["b", rng.chance(50)]          # True / False are ints
    return ["i", rng.choice(NUMS)]


def g_filter(rng, focus, malformed=False):
    if malformed:
        k = rng.below(5)
        if k == 0:
            return ["builtin"]
        if k == 1:
            return ["bad"]
        bad = [[["B"], ["i", 10]], [["s", "a"], ["B"]], [["s", "a"], ["n", "NOPE"]], [["s", "a"], ["i", -1]]][rng.below(4)]
        items = [[["s", "b"], ["i", 10]], bad] if rng.chance(50) else [bad, [["N"], ["F"]]]
        return ["d", items]
    k = rng.below(10)
    if k < 3:
        return ["none"]
    if k < 5:
        m = g_mod(rng, focus)
        return ["s", m if m is not None else ""]
    if k < 8:
        keys = []
        for _ in range(rng.range(0, 4)):
            m = g_mod(rng, focus)
            if m not in keys:
                keys.append(m)
        items = []
        for m in keys:
            v = rng.below(10)
            val = ["F"] if v < 3 else ["T"] if v < 4 else ["n", rng.choice(LEVEL_NAMES[:7])] if v < 6 else ["i", rng.choice(NUMS)]
            items.append([["N"] if m is None else ["s", m], val])
        return ["d", items]
    return ["c", rng.below(6)]


def g_add(rng, focus, malformed=False):
    if malformed:
        if rng.chance(50):
            return ["add", g_level_arg(rng, True), g_filter(rng, focus, rng.chance(30))]
        return ["add", g_level_arg(rng), g_filter(rng, focus, True)]
    lvl = g_level_arg(rng)
    if rng.chance(35):
        lvl = ["i", rng.choice([0, 5, 10])]       # low thresholds so that most logs deliver
    elif rng.chance(8):
        lvl = ["dflt"]                            # level= omitted
    op = ["add", lvl, g_filter(rng, focus)]
    stop = rng.chance(12)                          # sink whose stop() raises
    if rng.chance(30):                             # a non-default emit path: colours, markup, format function, catch
        op += [stop, {"colorize": rng.chance(65), "fmt": rng.choice(["str", "markup", "markup", "func"]),
                      "catch": rng.chance(50)}]
        if rng.chance(40):                         # every kind of sink add() dispatches on (in-process ones)
            op[4]["sink"] = rng.choice(["stream", "std", "both"] if stop else SINK_KINDS)
    elif stop:
        op.append(True)
    return op


def g_levelop(rng, malformed=False):
    if malformed:
        k = rng.below(5)
        return [["levelbad"], ["level", "NOPE", ["none"], False], ["level", "INFO", ["i", 21], False],
                ["level", "N3", ["bad"], False], ["level", "N4", ["i", -5], True]][k]
    k = rng.below(5)
    if k == 0:
        return ["level", rng.choice(RUNTIME_LEVELS), ["b", rng.chance(50)] if rng.chance(6) else ["i", rng.choice(NUMS)],
                rng.chance(30)]
    if k == 1:
        return ["level", rng.choice(LEVEL_NAMES[:7]), ["none"], rng.choice([True, "icon"])]
    if k == 2:
        return ["level", rng.choice(LEVEL_NAMES), ["none"], rng.choice([False, True, "icon"])]
    if k == 3:
        return ["level", rng.choice(RUNTIME_LEVELS), ["i", rng.choice(NUMS)], "icon" if rng.chance(40) else False]
    return ["level", rng.choice(RUNTIME_LEVELS), ["i", rng.choice(NUMS)], False]      # created without a colour


def gen_history(rng):
    n = rng.range(8, 40)
    focus = []
    pool = list(NAMES)
    rng.shuffle(pool)
    focus = pool[:rng.range(2, 5)]
    if rng.chance(60):       # a family of related names makes parent/child interplay likely
        focus = rng.choice([["a", "a.b", "a.b.c"], ["a", "ab", "a.b", "a.bc"], ["", "a", None], ["a.", "a..b", "a"],
                            [".a", "", "a", "b"], ["a.b", "a.bc", "a.b.c", ""], ["a.b", "a.b.", "a.b.c.d", "."],
                            ["\u00e4.\u00f6", "\u00e4", "a", None]])
    h = []
    for _ in range(rng.range(1, 3)):
        h.append(g_add(rng, focus))
    nadds = len(h)
    for _ in range(n):
        r = rng.below(100)
        if r < 40:
            bad = rng.chance(4)
            lv = g_level_arg(rng, bad)
            if lv[0] == "n" and lv[1] in DEFAULT_LEVELS and rng.chance(30):
                lv = ["m", lv[1]]            # through the named method
            if rng.chance(12):       # overlapped by a complete enable/disable of a related name
                h.append(["logd", lv, g_mod(rng, focus), rng.chance(50),
                          "rules" if rng.chance(75) else "early", g_mod(rng, focus), rng.chance(50)])
            else:
                h.append(["log", lv, g_mod(rng, focus), rng.chance(50)])
        elif r < 64:
            h.append([rng.choice(["en", "dis"]), g_mod(rng, focus)])
        elif r < 76:
            h.append(g_add(rng, focus, rng.chance(15)))
            nadds += 1
        elif r < 83:
            h.append(["rm", rng.range(0, max(nadds, 1)) if rng.chance(85) else rng.choice([-1, 99, True, False])])   # bools are ints
        elif r < 85:
            h.append(["rmall"])
        elif r < 91:
            h.append(g_levelop(rng, rng.chance(25)))
        elif r < 95:
            subs = []
            for _ in range(rng.range(0, 2)):
                subs.append(g_levelop(rng, rng.chance(15)))
            subs = [s for s in subs if s[0] == "level"]
            for _ in range(rng.range(0, 3)):
                subs.append([rng.choice(["en", "dis"]), g_mod(rng, focus)])
            reset = rng.chance(60)
            if reset:
                for _ in range(rng.range(0, 3)):
                    subs.append(g_add(rng, focus, rng.chance(12)))
                    nadds += 1
            h.append(["cfg", reset, subs])
        elif r < 97:
            h.append(["via", rng.below(DERIVED)])
        elif r < 98:
            h.append(["addbad", rng.choice(["sink", "kwarg"])])
            nadds += 1
        else:
            h.append([rng.choice(["rmbad", "enbad", "disbad", "levelbad"])])
    return h


# ----------------------------------------------------------------------------- judging
def classify(history, outs):
    """(non-trivial?, stats) from the oracle's trace"""
    delivering = False
    logged = []         # modules that logged so far
    flip_after = False
    for op, o in zip(history, outs):
        if op[0] in ("log", "logd"):
            if o.startswith("-> ") and not o.startswith("-> lazy"):
                delivering = True
            if not o.startswith("err"):
                logged.append(op[2])
        if op[0] in ("en", "dis", "logd"):
            nm = op[5] if op[0] == "logd" else op[1]
            if any(is_parent_or_self(nm, m) for m in logged):
                flip_after = True
    return delivering and flip_after


def first_diff(a, b):
    for i, (x, y) in enumerate(zip(a, b)):
        if x != y:
            return i
    return None


def shrink(history, bad):
    """greedy op removal while `bad(history)` stays true"""
    cur = list(history)
    budget = 400
    changed = True
    while changed and budget > 0:
        changed = False
        i = len(cur) - 1
        while i >= 0 and budget > 0:
            cand = cur[:i] + cur[i + 1:]
            budget -= 1
            if cand and bad(cand):
                cur = cand
                changed = True
            i -= 1
    return cur


def impl_vs_oracle_bad(h):
    try:
        return run_impl(h) != run_oracle(h)
    except Exception:  # noqa
        return False


def only_error_kinds_differ(a, b):
    return all(x == y or (x.startswith("err") and y.startswith("err")) for x, y in zip(a, b))


def report_oracle(ctx, history, got, exp):
    small = shrink(history, impl_vs_oracle_bad)
    g, e = run_impl(small), run_oracle(small)
    i = first_diff(g, e)
    kind = "correspondence" if only_error_kinds_differ(g, e) else "oracle"
    ctx.violation("history of %d ops: op %d %s -> implementation %r, property says %r"
                  % (len(small), i, json.dumps(small[i]), g[i], e[i]),
                  {"stream": "oracle", "history": small, "op_index": i, "expected": e, "observed": g}, kind=kind)


def check_histories(ctx, drv, histories, tag, with_model=True):
    lines = []
    impls = []
    for h in histories:
        got = run_impl(h)
        exp = run_oracle(h)
        nt = classify(h, exp)
        ctx.case((tag, line_of(h)), nontrivial=nt)
        for op, o in zip(h, exp):
            ctx.stat("op:" + op[0])
            if op[0] == "add" and stop_fails(op):
                ctx.stat("fault:sink_stop_raises")
            if op[0] == "add" and len(op) > 4:
                pr = emit_profile(op)
                ctx.stat("emit:colorize=%d,fmt=%s,catch=%d" % (pr["colorize"], pr["fmt"], pr["catch"]))
                ctx.stat("sink:" + pr.get("sink", "callable"))
            if op[0] in ("log", "logd") and op[1][0] in ("m", "b"):
                ctx.stat("log:via_method" if op[1][0] == "m" else "log:bool_level")
            if op[0] == "log" and op[1][0] == "n" and op[1][1] in RUNTIME_LEVELS and not o.startswith("err"):
                ctx.stat("log:by_name_of_runtime_level")
            if o.startswith("err"):
                ctx.stat("result:" + o.replace(" ", ":"))
            elif op[0] in ("log", "logd"):
                if op[0] == "logd":
                    ctx.stat("overlap:" + op[4])
                ctx.stat("log:delivers" if not o.startswith("-> lazy") else "log:nothing")
                if op[3]:
                    ctx.stat("lazy:evaluated" if o.endswith("lazy=1") else "lazy:skipped")
        if got != exp:
            ctx.stat("oracle_disagreements")
            if ctx.stats.get("oracle_disagreements", 0) <= 3:
                report_oracle(ctx, h, got, exp)
        impls.append(got)
        lines.append(line_of(h))
    if not with_model or getattr(ctx, "_c01_no_driver", False) or not lines:
        return
    try:
        outs = drv.run(lines)
    except core.DriverError as e:
        # the model no longer builds (a generated kernel is absent or a proof broke): the tie is reported as
        # broken, and the direct oracle above keeps judging the implementation on every history
        ctx._c01_no_driver = True
        ctx.broke("driver:" + DRIVER, str(e))
        return
    for h, got, o in zip(histories, impls, outs):
        ctx.traces_validated += 1
        model = o.split("|")
        if model != got:
            ctx.stat("model_disagreements")
            if ctx.stats.get("model_disagreements", 0) <= 3:
                i = first_diff(got, model)
                ctx.broke("correspondence Dispatch.run", "history=%s op %s impl=%r model=%r"
                          % (line_of(h), i, got[i] if i is not None else got, model[i] if i is not None else model))

                def bad(c):
                    try:
                        return run_impl(c) != drv.run([line_of(c)])[0].split("|")
                    except Exception:  # noqa
                        return False
                small = h
                if len(h) <= 60:
                    small = shrink(h, bad) if ctx.stats.get("model_disagreements", 0) <= 1 else h
                g = run_impl(small)
                m = drv.run([line_of(small)])[0].split("|")
                i = first_diff(g, m)
                if i is None:
                    continue
                ctx.violation("implementation and Lean model (= spec by dispatch_refines_spec) disagree: op %d %s -> "
                              "implementation %r, model %r" % (i, json.dumps(small[i]), g[i], m[i]),
                              {"stream": "model", "history": small, "op_index": i, "expected": m, "observed": g},
                              kind="correspondence")


def load_corpus():
    d = os.path.join(core.VERIF, "corpus", PROP)
    out = []
    try:
        for f in sorted(os.listdir(d)):
            if f.endswith(".json"):
                out.append((f, json.load(open(os.path.join(d, f)))["history"]))
    except OSError:
        pass
    return out


def exhaustive_histories(names, length):
    base = [["add", ["i", 0], ["none"]]]
    alphabet = []
    for m in names:
        alphabet += [["en", m], ["dis", m], ["log", ["n", "INFO"], m, True]]

    def rec(prefix, k):
        if k == 0:
            yield base + prefix
            return
        for a in alphabet:
            yield from rec(prefix + [a], k - 1)
    for k in range(1, length + 1):
        yield from rec([], k)


def overlap_histories(names, prefix_len):
    """every history add(0) + <= prefix_len ops from {enable, disable, log} + one overlapped first/cached log + one
    later log, over `names`"""
    base = [["add", ["i", 0], ["none"]]]
    alphabet = []
    for m in names:
        alphabet += [["en", m], ["dis", m], ["log", ["n", "INFO"], m, False]]

    def rec(prefix, k):
        if k == 0:
            yield prefix
            return
        for a in alphabet:
            yield from rec(prefix + [a], k - 1)
    for k in range(0, prefix_len + 1):
        for pre in rec([], k):
            for m in names:
                for at in ("rules", "early"):
                    for p in names:
                        for st in (False, True):
                            for m2 in names:
                                yield base + pre + [["logd", ["n", "INFO"], m, True, at, p, st],
                                                    ["log", ["n", "INFO"], m2, True]]


class fast_sysconfig:
    """`Logger.add` builds an ExceptionFormatter, whose `_get_lib_dirs` calls the (pure, slow) stdlib function
    `sysconfig.get_path` 36 times: 5 ms per add().  Memoise the STDLIB function while the check runs."""

    def __enter__(self):
        import functools
        import sysconfig
        self.mod, self.orig = sysconfig, sysconfig.get_path
        sysconfig.get_path = functools.lru_cache(maxsize=None)(sysconfig.get_path)

    def __exit__(self, *a):
        self.mod.get_path = self.orig


def run(ctx):
    with fast_sysconfig():
        _run(ctx)


def _run(ctx):
    rng = ctx.rng
    drv = core.Driver(DRIVER)
    boost = 4 if getattr(ctx, "search_boost", False) else 1

    # ---- stream 0: corpus
    corpus = load_corpus()
    check_histories(ctx, drv, [h for _, h in corpus], "corpus")
    ctx.stat("corpus_histories", len(corpus))

    # ---- stream 1: random histories
    n = ctx.n(4000, 100000) * boost
    batch = []
    for i in range(n):
        h = gen_history(rng)
        batch.append(h)
        if i < 2:
            ctx.sample({"history": line_of(h), "implementation": run_impl(h)})
        if len(batch) >= 5000:
            check_histories(ctx, drv, batch, "random")
            batch = []
    check_histories(ctx, drv, batch, "random")

    # ---- stream 2: exhaustive short activation histories
    if ctx.quick:
        names, length = ["a", "a.b", "ab", ""], 3
    else:
        names, length = ["a", "a.b", "a.bc", "", None, "a.b.c"], 4
    ex = list(exhaustive_histories(names, length))
    for i in range(0, len(ex), 20000):
        check_histories(ctx, drv, ex[i:i + 20000], "exhaustive")
    ctx.stat("exhaustive_histories", len(ex))
    ctx.exhaustive = True

    # ---- stream 3: exhaustive overlapped calls (a complete enable/disable inside the reader)
    if ctx.quick:
        onames, plen = ["a", "a.b", "ab", None], 1
    else:
        onames, plen = ["a", "a.b", "", None], 2
    ov = list(overlap_histories(onames, plen))
    for i in range(0, len(ov), 20000):
        check_histories(ctx, drv, ov[i:i + 20000], "overlap")
    ctx.stat("overlap_histories", len(ov))

    # ---- stream 4: the same interleavings with two REAL threads (reader parked at the yield point) - cross-checks
    # the single-thread production of overlapped calls used everywhere else
    nthr = ctx.n(60, 1500) * boost
    th_hist = [h for h in (gen_history(rng) for _ in range(nthr * 3)) if any(op[0] == "logd" for op in h)][:nthr]
    th_hist += ov[:: max(1, len(ov) // ctx.n(100, 1000))]
    for h in th_hist:
        got, exp = run_impl_threads(h), run_oracle(h)
        ctx.case(("threads", line_of(h)), nontrivial=classify(h, exp))
        ctx.stat("overlap_with_real_threads")
        if got != exp:
            i = first_diff(got, exp)
            same = run_impl(h) == got
            ctx.violation("overlapped call produced with two real threads: op %d %s -> implementation %r, property says %r"
                          "%s" % (i, json.dumps(h[i]), got[i], exp[i],
                                  "" if same else " (the single-thread production of the same interleaving gives %r)" % (run_impl(h)[i],)),
                          {"stream": "threads", "history": h, "op_index": i, "expected": exp, "observed": got},
                          kind="oracle")
            break
    ctx.note("overlap: every history 'add(0)' + up to %d ops from {enable, disable, log} + a log overlapped (at the "
             "rules read / at the first core access) by enable/disable + a later log, over %r" % (plen, onames))
    ctx.note("exhaustive: every history 'add(0)' + up to %d ops from {enable, disable, log INFO lazy} x %r"
             % (length, names))
    if ctx.broken:
        seen, uniq = set(), []
        for b in ctx.broken:
            if b["name"] not in seen:
                seen.add(b["name"])
                uniq.append(b)
        ctx.broken[:] = uniq


def replay(ctx, rep):
    r = rep.get("replay") or {}
    h = r.get("history")
    core.extract()      # the model must be the one generated from the tree under test
    if "history" not in r:
        print("nothing to replay: " + rep.get("what", ""))
        return 0
    got = run_impl_threads(h) if r.get("stream") == "threads" else run_impl(h)
    exp = run_oracle(h)
    try:
        model = core.Driver(DRIVER).run([line_of(h)])[0].split("|")
    except core.DriverError:
        print("(the Lean model does not build against this tree: implementation vs property only)")
        model = list(exp)
    print("history (%d ops):" % len(h))
    for i, op in enumerate(h):
        mark = "  <-- differs" if got[i] != exp[i] or got[i] != model[i] else ""
        print("  %2d %-60s impl: %-22s spec: %-22s model: %s%s" % (i, json.dumps(op), got[i], exp[i], model[i], mark))
    bad = got != exp or got != model
    print("REPRODUCED" if bad else "not reproduced")
    return 1 if bad else 0
