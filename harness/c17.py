"""C17 – records identify the calling frame (honouring depth) and the calling thread/process
(DESIGN §4 C17).

The harness generates Python SOURCE for call chains (functions, methods, lambdas, generators,
coroutines, decorators, closures, C-level callbacks, exec'd / eval'd module code) spread over
modules with arbitrary `__name__` (or none) and arbitrary file names, compiles it with
`compile(src, filename, "exec")` and therefore KNOWS the (name, file, function, line) of every frame
on the stack when the innermost frame logs: the tags are the oracle (model-independent).  Every
chain is swept over all depths 0 … stack+3 with all logging methods and entry points.  The same
cases are sent to the Lean model (`drivers/C17.lean`) whose frame counts come from the generated
tables (tie G); the two answers are compared (tie C).
"""
import functools
import json
import multiprocessing
import os
import shutil
import subprocess
import tempfile
import select
import signal
import sys
import threading
import time
import datetime as pydt

from harness import core
from harness.core import enc as _enc

enc = functools.lru_cache(maxsize=100000)(_enc)

PROP = "C17"
LEAN_TARGETS = ["LoguruModel.Props.C17"]
AUDIT_FILE = "LoguruModel/Audit/C17.lean"
DRIVER = "C17"
RULE = ("one case = (generated call chain, leaf/entry point, logging method, derivation of the logger, depth, "
        "thread kind); chains of 1-10 links over functions, methods, lambdas, generators, coroutines, decorators, "
        "closures, C callbacks, exec/eval module code in modules with arbitrary __name__/file names; every chain "
        "is swept over depths 0..stack+3; the expected record is read from the tags the harness compiled into the "
        "source; non-trivial = depth >= 1 or a catch entry point or a module without __name__; distinct by "
        "(chain id, leaf, method, via, depth)")
TRUSTED = [
    "sys._getframe itself and CPython's frame objects (f_back, f_lineno, co_name) are the ground truth both the "
    "implementation and the oracle read",
    "Frames/Base.lean basename/stem model posixpath.basename/splitext (own correspondence stream against os.path)",
    "wall-clock monotonicity: `elapsed never decreases` is proved conditional on a monotone clock and checked "
    "only while time.time() itself is observed to be monotone",
]
ASSUMPTIONS = ["CPython 3.12 line attribution (a `with` block's __exit__ runs on the `with` line)",
               "POSIX paths", "interpreter has sys._getframe (the fallback is probed separately)"]

MISSING = "<<missing>>"
METHODS = ["trace", "debug", "info", "success", "warning", "error", "critical", "exception", "log"]

# Classifier keys of the three defects this check found (known_findings.json F22/F23/F24, all FIXED in
# /repo): a reappearance is a plain violation; the key only names it in the replay file.
KEY_ASYNC_WITH = "C17-async-with-catch-frame"
KEY_ASYNC_FOR = "C17-asyncgen-anext-frame"
KEY_FALLBACK = "C17-fallback-getframe-beyond-stack"
KEY_OVERFLOW = "C17-depth-exceeds-c-int"        # F30, fixed by 3f4f1c9: a reappearance is a plain violation
# findings reported to the integrator but not yet listed in known_findings.json (reported through ctx.note only)
PENDING_FINDINGS = []

# depths around the limits of the C int / C long `sys._getframe` converts its argument to
BOUNDARY_DEPTHS = [2**31 - 4, 2**31 - 3, 2**31 - 2, 2**31 - 1, 2**31, 2**32 - 2, 2**32, 2**63 - 3, 2**63 - 2, 2**63, 2**64,
                   10**30]


class _Depth(int):
    """an int subclass (legal wherever an int is)"""


def wrap_depth(depth, dkind):
    """the same depth as another legal integer type: bool, IntEnum member, int subclass"""
    if dkind == "bool" and depth in (0, 1):
        return bool(depth)
    if dkind == "enum" and 0 <= depth < 64:
        import enum
        return enum.IntEnum("D", {"V%d" % depth: depth})["V%d" % depth]
    if dkind == "subclass":
        return _Depth(depth)
    return depth


def report(ctx, what, replay, key=None, kind="oracle"):
    if key in PENDING_FINDINGS and not any(f.get("key") == key for f in getattr(ctx, "findings", [])):
        ctx.note("pending finding %s: %s" % (key, what[:300]))
        ctx.stat("pending_finding_hits:" + key)
        return False
    return ctx.violation(what, replay, key=key, kind=kind)


# ----------------------------------------------------------------------------- expected values
def spec_basename(path):
    return path.rsplit("/", 1)[-1]


def spec_stem(name):
    """file name without its extension: cut at the last dot unless only dots precede it"""
    i = name.rfind(".")
    if i <= 0 or name[:i].strip(".") == "":
        return name
    return name[:i]


PLACEHOLDER = (None, "<unknown>", "<unknown>", 0)      # (name, file, function, line)


def expected_fields(tag):
    name, file, func, line = tag
    base = spec_basename(file)
    return {"name": None if name is MISSING else name, "function": func, "line": line, "path": file,
            "file": base, "module": spec_stem(base)}


def observed_fields(rec):
    return {"name": rec["name"], "function": rec["function"], "line": rec["line"], "path": rec["file"].path,
            "file": rec["file"].name, "module": rec["module"]}


def frame_tag(fr):
    g = fr.f_globals
    return (g["__name__"] if "__name__" in g else MISSING, fr.f_code.co_filename, fr.f_code.co_name, fr.f_lineno)


def probe(*_a, **_k):
    """stands in for the logging call: the stack as seen from the frame that calls it"""
    out = []
    fr = sys._getframe(1)
    while fr is not None:
        out.append(frame_tag(fr))
        fr = fr.f_back
    return out


class ProbeCM:
    """stands in for `logger.catch()` as a context manager: the stack as seen from the frame containing the block"""
    walks = []

    def __enter__(self):
        return None

    def __exit__(self, t, v, tb):
        out = []
        fr = sys._getframe(1)
        while fr is not None:
            out.append(frame_tag(fr))
            fr = fr.f_back
        ProbeCM.walks.append(out)
        return True


# ----------------------------------------------------------------------------- chain generator
IDENTS = ["f", "g", "run", "handler", "_p", "Ünï", "名前", "info", "_log", "catch_wrapper", "log", "λ", "wrapper",
          "main", "x1", "get_frame", "exception", "opt", "asend", "inner", "emit"]
MODNAMES = ["__main__", "a", "a.b", "a.b.c", "pkg.mod", "", ".", "a..b", "with space", "é.ü", "loguru", "loguru._logger",
            "None", "<unknown>", "builtins", "x" * 40, "a.b.", "0", "名前.モジュール", "m\tn"]
FILES = ["x.py", "/abs/dir/mod.py", "<string>", "", "dir/.hidden", "a.b.c.py", "noext", "trailing.", "..", "dir/",
         "C:\\win\\path.py", "é.py", "<frozen x>", "...", ".bashrc.py", "a/b.c/d", "/", "//x//y.tar.gz", ".x", "x.",
         "..a", "a..", "<unknown>", "rel/./p.pyc", " spaced name .py", "名前.py", ".", "a.b/", "_logger.py",
         "/repo/loguru/_logger.py"]
LINK_KINDS = ["func", "func", "lambda", "method", "classmethod", "staticmethod", "callobj", "gen", "deco", "closure",
              "viamap", "viasorted", "coro", "prop", "execmod", "evalstr", "genexpr"]
PLAIN_LEAVES = ["plain", "plain", "lambda", "exc", "method", "modlevel", "classbody", "gen", "comp", "genexpr", "evalstr"]
CATCH_LEAVES = ["with", "with_nested", "deco_func", "deco_func_paren", "deco_gen", "deco_coro", "deco_agen", "async_with",
                "deco_agen_for", "deco_gen_split", "deco_coro_split"]


class Mod:
    def __init__(self, name, file):
        self.name, self.file, self.lines, self.g = name, file, [], None
        self.sub = []        # (varname, source, file, name) code objects to compile separately

    def add(self, text):
        """append source lines; returns the 1-based number of the first appended line"""
        first = len(self.lines) + 1
        self.lines.extend(text.split("\n"))
        return first

    def build(self):
        g = {"__name__": "tmp" if self.name is MISSING else self.name}
        if self.name is None:
            g["__name__"] = "tmp"
        code = compile("\n".join(self.lines) + "\n", self.file, "exec")
        exec(code, g)
        if self.name is MISSING:
            del g["__name__"]
        elif self.name is None:
            g["__name__"] = None
        self.g = g
        return g


class Chain:
    """links (outermost first) + one leaf module offering every leaf variant"""

    def __init__(self, rng, nlinks=None):
        self.rng = rng
        self.mods = []
        self.used = set()
        self.links = []          # (mod, callable name, [tags outer->inner])
        n = nlinks if nlinks is not None else rng.range(1, 10)
        cur = self.new_mod()
        for i in range(n):
            if rng.chance(35):
                cur = self.new_mod()
            self.add_link(cur, rng.choice(LINK_KINDS))
        self.leafmod = cur if rng.chance(40) else self.new_mod()
        self.leaves = {}
        self.add_leaves(self.leafmod)
        for m in self.mods:
            m.build()
        for m in self.mods:
            for var, src, file, name in m.sub:
                m.g[var + "_CODE"] = compile(src, file, "exec")
                gg = {}
                if name is not MISSING:
                    gg["__name__"] = name
                m.g[var + "_G"] = gg
        self.kinds = [k for _, _, _, k in self.links]

    # -- helpers
    def new_mod(self):
        r = self.rng
        k = r.below(100)
        name = MISSING if k < 25 else (None if k < 30 else r.choice(MODNAMES))
        m = Mod(name, r.choice(FILES))
        self.mods.append(m)
        return m

    def ident(self, mod):
        r = self.rng
        for _ in range(4):
            c = r.choice(IDENTS)
            if (id(mod), c) not in self.used and r.chance(50):
                break
        else:
            c = r.choice(IDENTS)
        if (id(mod), c) in self.used:
            c = "%s_%d" % (c, len(self.used))
        self.used.add((id(mod), c))
        return c

    def tag(self, mod, func, line):
        return (mod.name, mod.file, func, line)

    def submod(self):
        r = self.rng
        k = r.below(100)
        name = MISSING if k < 30 else (None if k < 35 else r.choice(MODNAMES))
        return name, r.choice(FILES)

    # -- links: each defines a callable NAME(k) in its module that calls k() from a known line
    def add_link(self, mod, kind):
        n = self.ident(mod)
        t = self.tag
        if kind == "func":
            l = mod.add("def %s(k):\n    return k()" % n)
            tags = [t(mod, n, l + 1)]
        elif kind == "lambda":
            l = mod.add("%s = lambda k: k()" % n)
            tags = [t(mod, "<lambda>", l)]
        elif kind in ("method", "classmethod", "staticmethod"):
            deco = {"method": "", "classmethod": "    @classmethod\n", "staticmethod": "    @staticmethod\n"}[kind]
            selfarg = {"method": "self, ", "classmethod": "cls, ", "staticmethod": ""}[kind]
            l = mod.add("class %s_C:\n%s    def %s(%sk):\n        return k()\n%s = %s_C().%s"
                        % (n, deco, n, selfarg, n, n, n))
            tags = [t(mod, n, l + (3 if deco else 2))]
        elif kind == "callobj":
            l = mod.add("class %s_C:\n    def __call__(self, k):\n        return k()\n%s = %s_C()" % (n, n, n))
            tags = [t(mod, "__call__", l + 2)]
        elif kind == "gen":
            l = mod.add("def %s_g(k):\n    yield k()\ndef %s(k):\n    return next(%s_g(k))" % (n, n, n))
            tags = [t(mod, n, l + 3), t(mod, n + "_g", l + 1)]
        elif kind == "deco":
            l = mod.add("def %s_d(fn):\n    def %s_w(*a):\n        return fn(*a)\n    return %s_w\n@%s_d\ndef %s(k):\n    return k()"
                        % (n, n, n, n, n))
            tags = [t(mod, n + "_w", l + 2), t(mod, n, l + 6)]
        elif kind == "closure":
            l = mod.add("def %s(k):\n    def %s_i():\n        return k()\n    return %s_i()" % (n, n, n))
            tags = [t(mod, n, l + 3), t(mod, n + "_i", l + 2)]
        elif kind == "viamap":
            l = mod.add("def %s(k):\n    return list(map(lambda f: f(), [k]))[0]" % n)
            tags = [t(mod, n, l + 1), t(mod, "<lambda>", l + 1)]
        elif kind == "viasorted":
            l = mod.add("def %s(k):\n    box = []\n    sorted([k], key=lambda f: box.append(f()))\n    return box[0]" % n)
            tags = [t(mod, n, l + 2), t(mod, "<lambda>", l + 2)]
        elif kind == "coro":
            l = mod.add("async def %s_c(k):\n    return k()\ndef %s(k):\n    try:\n        %s_c(k).send(None)\n"
                        "    except StopIteration as e:\n        return e.value" % (n, n, n))
            tags = [t(mod, n, l + 4), t(mod, n + "_c", l + 1)]
        elif kind == "prop":
            l = mod.add("class %s_P:\n    def __init__(self, k):\n        self.k = k\n    @property\n    def %s_p(self):\n"
                        "        return self.k()\ndef %s(k):\n    return %s_P(k).%s_p" % (n, n, n, n, n))
            tags = [t(mod, n, l + 7), t(mod, n + "_p", l + 5)]
        elif kind == "execmod":
            sname, sfile = self.submod()
            l = mod.add("def %s(k):\n    g = dict(%s_G)\n    g['K'] = k\n    exec(%s_CODE, g)\n    return g['R']" % (n, n, n))
            mod.sub.append((n, "\n\nR = K()\n", sfile, sname))
            tags = [t(mod, n, l + 3), (sname, sfile, "<module>", 3)]
        elif kind == "evalstr":
            l = mod.add("def %s(k):\n    return eval('k()', {'k': k})" % n)
            tags = [t(mod, n, l + 1), (MISSING, "<string>", "<module>", 1)]
        elif kind == "genexpr":
            l = mod.add("def %s(k):\n    return next(k() for _ in (0,))" % n)
            tags = [t(mod, n, l + 1), t(mod, "<genexpr>", l + 1)]
        else:
            raise AssertionError(kind)
        self.links.append((mod, n, tags, kind))

    # -- leaves
    def add_leaves(self, mod):
        t = self.tag
        n = self.ident(mod)
        L = self.leaves      # variant -> (callable name, tags outer->inner)
        l = mod.add("def %s():\n    return CALL(MSG)" % n)
        L["plain"] = (n, [t(mod, n, l + 1)])
        l = mod.add("%s_l = lambda: CALL(MSG)" % n)
        L["lambda"] = (n + "_l", [t(mod, "<lambda>", l)])
        l = mod.add("def %s_e():\n    try:\n        raise KeyError('inner')\n    except KeyError:\n        return CALL(MSG)" % n)
        L["exc"] = (n + "_e", [t(mod, n + "_e", l + 4)])
        l = mod.add("class %s_C:\n    def %s_m(self):\n        return CALL(MSG)\n%s_m = %s_C().%s_m" % (n, n, n, n, n))
        L["method"] = (n + "_m", [t(mod, n + "_m", l + 2)])
        sname, sfile = self.submod()
        l = mod.add("def %s_x():\n    g = dict(%s_x_G)\n    g['CALL'] = CALL\n    g['MSG'] = MSG\n    exec(%s_x_CODE, g)\n    return g['R']"
                    % (n, n, n))
        mod.sub.append((n + "_x", "# leaf\nR = CALL(MSG)\n", sfile, sname))
        L["modlevel"] = (n + "_x", [t(mod, n + "_x", l + 4), (sname, sfile, "<module>", 2)])
        if isinstance(mod.name, str):
            l = mod.add("def %s_k():\n    class %s_K:\n        R = CALL(MSG)\n    return %s_K.R" % (n, n, n))
            L["classbody"] = (n + "_k", [t(mod, n + "_k", l + 1), t(mod, n + "_K", l + 2)])
        l = mod.add("def %s_g():\n    yield CALL(MSG)\ndef %s_gd():\n    return next(%s_g())" % (n, n, n))
        L["gen"] = (n + "_gd", [t(mod, n + "_gd", l + 3), t(mod, n + "_g", l + 1)])
        l = mod.add("def %s_cp():\n    return [CALL(MSG) for _ in (1,)][0]" % n)
        L["comp"] = (n + "_cp", [t(mod, n + "_cp", l + 1)])
        l = mod.add("def %s_ge():\n    return next(CALL(MSG) for _ in (1,))" % n)
        L["genexpr"] = (n + "_ge", [t(mod, n + "_ge", l + 1), t(mod, "<genexpr>", l + 1)])
        l = mod.add("def %s_ev():\n    return eval('C(M)', {'C': CALL, 'M': MSG})" % n)
        L["evalstr"] = (n + "_ev", [t(mod, n + "_ev", l + 1), (MISSING, "<string>", "<module>", 1)])
        # ---- catch(): the record must identify the frame containing the block / the caller of the decorated function
        l = mod.add("def %s_w():\n    with CM():\n        raise ValueError('boom')" % n)
        L["with"] = (n + "_w", [t(mod, n + "_w", l + 1)])
        l = mod.add("def %s_r():\n    raise ValueError('boom')\ndef %s_wn():\n    x = 1\n    with CM():\n        x = 2\n        %s_r()\n    return x"
                    % (n, n, n))
        L["with_nested"] = (n + "_wn", [t(mod, n + "_wn", l + 4)])
        L["deco_func"] = ("DEC_F", [])            # the decorated function is called by the last link itself
        L["deco_func_paren"] = ("DEC_FP", [])
        l = mod.add("def %s_graw():\n    yield 1\n    raise ValueError('boom')\ndef %s_gdrv():\n    return list(DEC_G())" % (n, n))
        L["deco_gen"] = (n + "_gdrv", [t(mod, n + "_gdrv", l + 4)])
        l = mod.add("async def %s_craw():\n    raise ValueError('boom')\ndef %s_cdrv():\n    c = DEC_C()\n    try:\n        c.send(None)\n"
                    "    except StopIteration:\n        pass" % (n, n))
        L["deco_coro"] = (n + "_cdrv", [t(mod, n + "_cdrv", l + 5)])
        l = mod.add("async def %s_araw():\n    yield 1\n    raise ValueError('boom')\ndef %s_adrv():\n    a = DEC_A()\n    try:\n"
                    "        a.asend(None).send(None)\n    except StopIteration:\n        pass\n    try:\n        a.asend(None).send(None)\n"
                    "    except (StopIteration, StopAsyncIteration):\n        pass" % (n, n))
        L["deco_agen"] = (n + "_adrv", [t(mod, n + "_adrv", l + 10)])
        # ---- the shapes of the former findings F23 / F24 (async with, async for over a decorated async generator)
        l = mod.add("async def %s_aw():\n    async with CM():\n        raise ValueError('boom')\ndef %s_awd():\n    c = %s_aw()\n    try:\n"
                    "        c.send(None)\n    except StopIteration:\n        pass" % (n, n, n))
        L["async_with"] = (n + "_awd", [t(mod, n + "_awd", l + 6), t(mod, n + "_aw", l + 1)])
        l = mod.add("async def %s_af():\n    async for _ in DEC_A():\n        pass\ndef %s_afd():\n    c = %s_af()\n    try:\n"
                    "        c.send(None)\n    except StopIteration:\n        pass" % (n, n, n))
        L["deco_agen_for"] = (n + "_afd", [t(mod, n + "_afd", l + 6), t(mod, n + "_af", l + 1)])
        # ---- created in one frame, driven to the exception in another one (and after a first, harmless resumption): the
        # record names the frame that RESUMED the generator / coroutine when it failed, not the one that called the wrapper
        l = mod.add("def %s_gmk():\n    return DEC_G()\ndef %s_gsd():\n    g = %s_gmk()\n    next(g)\n    return next(g, None)" % (n, n, n))
        L["deco_gen_split"] = (n + "_gsd", [t(mod, n + "_gsd", l + 5)])
        l = mod.add("def %s_cmk():\n    return DEC_C()\ndef %s_csd():\n    c = %s_cmk()\n    try:\n        c.send(None)\n"
                    "    except StopIteration:\n        pass" % (n, n, n))
        L["deco_coro_split"] = (n + "_csd", [t(mod, n + "_csd", l + 5)])
        self.raw = {"DEC_F": n + "_r", "DEC_FP": n + "_r", "DEC_G": n + "_graw", "DEC_C": n + "_craw", "DEC_A": n + "_araw"}

    def tags_for(self, leaf):
        """expected user stack, innermost first, when leaf variant `leaf` logs"""
        out = []
        for _, _, tags, _ in self.links:
            out.extend(tags)
        out.extend(self.leaves[leaf][1])
        out.reverse()
        return out

    def thunk(self, leaf):
        k = self.leafmod.g[self.leaves[leaf][0]]
        for mod, name, _, _ in reversed(self.links):
            k = functools.partial(mod.g[name], k)
        return k


# ----------------------------------------------------------------------------- loggers / entry points
VIAS = ["direct", "bind", "patch", "opt_bind", "bind_opt", "patch_opt", "opt_patch", "opt_opt", "opt_flags",
        "opt_then_default", "bind_patch_opt", "opt_any", "opt_any", "opt_any_bind", "seq", "seq", "seq"]


def gen_seq(rng, depth):
    """a derivation HISTORY from the root logger: any mixture of bind / patch / opt(depth=k) / opt(); most histories make
    `depth` the effective one (last opt), some end in opt() (reset to the default) or contain no opt at all"""
    def noise(n, with_opt):
        out = []
        for _ in range(n):
            r = rng.below(100)
            if r < 35:
                out.append(["b"])
            elif r < 70:
                out.append(["p"])
            elif with_opt and r < 90:
                out.append(["o", rng.choice([0, 1, 2, depth + 1, depth + 7, 50])])
            elif with_opt:
                out.append(["o", None])
            else:
                out.append(["b"])
        return out
    r = rng.below(100)
    if r < 8:
        return noise(rng.range(0, 4), False)                          # no opt at all: depth 0
    if r < 16:
        return noise(rng.range(0, 3), True) + [["o", depth], ["o", None]] + noise(rng.range(0, 2), False)   # reset
    return noise(rng.range(0, 4), True) + [["o", depth]] + noise(rng.range(0, 3), False)


def seq_depth(seq):
    """documented semantics: bind/patch keep the options, every opt() call sets depth anew (default 0)"""
    d = 0
    for op in seq:
        if op[0] == "o":
            d = 0 if op[1] is None else op[1]
    return d


def seq_token(seq):
    return ".".join("od" if (op[0] == "o" and op[1] is None) else ("o%d" % op[1] if op[0] == "o" else op[0])
                    for op in seq) or "-"


def opt_keywords(logger):
    """every keyword of the public opt() signature except depth, in signature order (read from the implementation, so
    deprecated spellings such as ansi= and options added later are part of the alphabet)"""
    import inspect
    return [p.name for p in inspect.signature(logger.opt).parameters.values()
            if p.kind is p.KEYWORD_ONLY and p.name != "depth"]


def opt_any(logger, depth, flags):
    """opt(depth=depth, <every other keyword set or left out according to the bits of flags>); two bits per keyword:
    00/01 = left out, 10 = False-like, 11 = True-like; warnings of deprecated spellings are filtered"""
    import warnings
    kw = {}
    for i, name in enumerate(opt_keywords(logger)):
        b = (flags >> (2 * i)) & 3
        if b >= 2:
            kw[name] = (b == 3) if name != "exception" else (True if b == 3 else None)
    with warnings.catch_warnings():
        warnings.simplefilter("ignore")
        return logger.opt(depth=depth, **kw), kw


def _noop_patcher(record):
    record["extra"]["patched"] = True


def derive(logger, via, depth, rng_flags, seq=None, dkind=None):
    """returns (logger, effective depth per the documented semantics: bind/patch keep the options,
    each opt() call resets every option it is not given)"""
    if via == "seq":
        lg = logger
        for k, op in enumerate(seq):
            if op[0] == "b":
                lg = lg.bind(**{"k%d" % k: k})
            elif op[0] == "p":
                lg = lg.patch(_noop_patcher)
            elif op[1] is None:
                lg = lg.opt()
            else:
                lg = lg.opt(depth=op[1])
        return lg, seq_depth(seq)
    depth = wrap_depth(depth, dkind)
    if via == "direct":
        if depth == 0:
            return logger, 0
        return logger.opt(depth=depth), depth
    if via == "bind":
        return logger.opt(depth=depth).bind(k=1), depth
    if via == "patch":
        return logger.opt(depth=depth).patch(_noop_patcher), depth
    if via == "opt_bind":
        return logger.opt(depth=depth).bind(a=1).bind(b=2), depth
    if via == "bind_opt":
        return logger.bind(a=1).opt(depth=depth), depth
    if via == "patch_opt":
        return logger.patch(_noop_patcher).opt(depth=depth), depth
    if via == "opt_patch":
        return logger.opt(depth=depth).patch(_noop_patcher).patch(_noop_patcher), depth
    if via == "opt_opt":
        return logger.opt(depth=depth + 3).opt(depth=depth), depth
    if via == "opt_flags":
        rec, lazy, colors, raw, capture = [bool(rng_flags >> i & 1) for i in range(5)]
        return logger.opt(depth=depth, record=rec, lazy=lazy, colors=colors, raw=raw, capture=capture), depth
    if via == "opt_any":
        return opt_any(logger, depth, rng_flags)[0], depth
    if via == "opt_any_bind":
        return opt_any(logger.bind(a=1), depth, rng_flags)[0].bind(b=2), depth
    if via == "opt_then_default":
        return logger.opt(depth=depth).opt(), 0
    if via == "bind_patch_opt":
        return logger.bind(a=1).patch(_noop_patcher).opt(depth=depth).bind(c=3), depth
    raise AssertionError(via)


def method_callable(lg, method, rng_flags):
    if method == "log":
        lvl = ["INFO", 25, "TRACE", 0, "CRITICAL", 7][rng_flags % 6]
        return functools.partial(lg.log, lvl)
    return getattr(lg, method)


class Sink:
    def __init__(self):
        self.records = []

    def __call__(self, message):
        self.records.append(message.record)


class Env:
    """the logger under test with one collecting sink"""

    def __init__(self):
        import loguru
        self.logger = loguru.logger
        self.logger.remove()
        self.sink = Sink()
        self.hid = self.logger.add(self.sink, format="{message}", level=0, colorize=False, catch=False,
                                   backtrace=False, diagnose=False)
        import loguru._logger as lm
        self.lm = lm
        self.libfile = lm.__file__

    def start_time(self):
        """the instant `elapsed` is measured from: the module constant when it is still called start_time, otherwise
        the instant the first record implies (every later record must imply the same one)"""
        st = getattr(self.lm, "start_time", None)
        if st is not None:
            return st
        if getattr(self, "_start", None) is None:
            self.logger.info("start-probe")
            rec = self.sink.records.pop()
            self._start = rec["time"] - rec["elapsed"]
            if not (self._start <= rec["time"]):
                raise RuntimeError("C17 harness: cannot infer the start instant")
        return self._start

    def close(self):
        try:
            self.logger.remove(self.hid)
        except ValueError:
            pass


def _invoke(k):
    """the single call site through which every chain is entered (so outer frames are stable)"""
    tid = (threading.get_ident(), threading.current_thread().name, multiprocessing.current_process().name)
    t0 = time.time()
    err = None
    try:
        res = k()
    except BaseException as e:  # noqa: BLE001 - recorded, judged by the caller
        res, err = None, e
    return res, err, tid, t0, time.time()


def _sweep(jobs, prepare, sink):
    """each job's outcome and the records it produced"""
    out = []
    th, pr = threading.current_thread(), multiprocessing.current_process()
    tname0, pname0 = th.name, pr.name
    try:
        for job in jobs:
            k = prepare(job)
            rn = job.get("rename")
            if rn:                      # the calling thread / process is renamed between two logging calls
                if rn[0] == "thread":
                    th.name = rn[1]
                else:
                    pr.name = rn[1]
            r0 = len(sink.records)
            o = _invoke(k)
            out.append((o, sink.records[r0:]))
            del sink.records[r0:]
    finally:
        th.name, pr.name = tname0, pname0
    return out


def run_jobs(jobs, prepare, in_thread, foreign, sink):
    """run the jobs sequentially, in this thread or in a worker thread; hang -> RuntimeError"""
    if not in_thread:
        return _sweep(jobs, prepare, sink)
    box = {}

    def target():
        try:
            box["out"] = _sweep(jobs, prepare, sink)
        except BaseException as e:  # noqa: BLE001
            box["err"] = e
        finally:
            done.set()

    done = threading.Event()
    if foreign:
        import _thread
        _thread.start_new_thread(target, ())
    else:
        th = threading.Thread(target=target, name="c17-worker")
        th.start()
    if not done.wait(60):
        raise RuntimeError("C17 worker thread did not finish within 60 s")
    if not foreign:
        th.join(10)
    if "err" in box:
        raise box["err"]
    return box["out"]


# ----------------------------------------------------------------------------- one chain
SHAPE_OF = {"with": "with", "with_nested": "with", "deco_func": "function", "deco_func_paren": "function",
            "deco_gen": "generator", "deco_coro": "coroutine", "deco_agen": "asyncgen.asend",
            "async_with": "async with", "deco_agen_for": "asyncgen.__anext__", "deco_gen_split": "generator",
            "deco_coro_split": "coroutine"}
FINDING_KEY = {"async_with": KEY_ASYNC_WITH, "deco_agen_for": KEY_ASYNC_FOR}


ACTOR_NAMES = ["job-alpha", "job-beta", "", "MainThread", "MainProcess", "with space", "Ünï-名前", "x" * 60, "Thread-1",
               "{process}", "worker/1", "c17-worker"]


def rng_from_state(state):
    r = core.Rng(0)
    r.s = state
    return r


def make_jobs(chain, rng, ctx, full_sweep, total_hint):
    """jobs of one chain: every depth 0..stack+3 once (random leaf/method/via), plus extra random cases"""
    jobs = []
    leaves_plain = [l for l in PLAIN_LEAVES if l in chain.leaves]
    if full_sweep == "product":
        # every method x derivation x plain leaf, every catch leaf x derivation; depths: 0, 1, just beyond the stack
        for d in (0, 1, total_hint + 2):
            for via in sorted(set(VIAS)):
                for leaf in sorted(set(leaves_plain)):
                    for m in METHODS:
                        jobs.append({"leaf": leaf, "method": m, "via": via, "depth": d, "flags": rng.below(1 << 16), "reraise": False})
                for leaf in CATCH_LEAVES:
                    for rr in (False, True):
                        jobs.append({"leaf": leaf, "method": "info", "via": via, "depth": d, "flags": rng.below(1 << 16), "reraise": rr})
        for d in BOUNDARY_DEPTHS:
            for leaf in ["plain"] + CATCH_LEAVES:
                for via in ("direct", "bind_patch_opt", "seq"):
                    jobs.append({"leaf": leaf, "method": rng.choice(METHODS), "via": via, "depth": d,
                                 "flags": rng.below(1 << 16), "reraise": False})
        for j in jobs:
            if j["via"] == "seq":
                j["seq"] = gen_seq(rng, j["depth"])
        return jobs
    depths = list(range(0, total_hint + 4)) if full_sweep else [rng.range(0, total_hint + 3) for _ in range(6)]
    for d in depths:
        r = rng.below(100)
        if r < 60:
            leaf = rng.choice(leaves_plain)
        else:
            leaf = rng.choice(CATCH_LEAVES)
        rn = None
        if rng.chance(12):
            rn = [rng.choice(["thread", "thread", "process"]), rng.choice(ACTOR_NAMES)]
        jobs.append({"leaf": leaf, "method": rng.choice(METHODS), "via": rng.choice(VIAS), "depth": d,
                     "flags": rng.below(1 << 16), "reraise": rng.chance(15), "rename": rn})
        if jobs[-1]["via"] == "seq":
            jobs[-1]["seq"] = gen_seq(rng, d)
            ctx.stat("seq_len:%d" % min(len(jobs[-1]["seq"]), 8))
        elif rng.chance(10):
            jobs[-1]["dkind"] = rng.choice(["bool", "enum", "subclass"])
            ctx.stat("dkind:" + jobs[-1]["dkind"])
    if full_sweep:
        # depths at the limits of the C integer types sys._getframe converts to: the frame does not exist -> placeholders
        for _ in range(2):
            d = rng.choice(BOUNDARY_DEPTHS)
            leaf = rng.choice(leaves_plain) if rng.chance(50) else rng.choice(CATCH_LEAVES)
            via = rng.choice(VIAS)
            if via == "opt_then_default":
                via = "direct"
            jobs.append({"leaf": leaf, "method": rng.choice(METHODS), "via": via, "depth": d,
                         "flags": rng.below(1 << 16), "reraise": False, "rename": None})
            if via == "seq":
                jobs[-1]["seq"] = gen_seq(rng, d)
            ctx.stat("depth:boundary")
    return jobs


def run_chain(ctx, env, chain_state, nlinks, in_thread, foreign, full_sweep, lines, pending_cmp, only_jobs=None,
              verbose=False):
    """build the chain from its PRNG state, sweep it, judge every record by the tags; returns #bad"""
    rng = rng_from_state(chain_state)
    chain = Chain(rng, nlinks)
    logger = env.logger
    leafg = chain.leafmod.g
    submods = [chain.leafmod.g[v + "_G"] for v, _, _, _ in chain.leafmod.sub]

    def prepare(job):
        if job.get("probe"):
            leafg["CALL"], leafg["MSG"], leafg["CM"] = probe, "probe", ProbeCM
            return chain.thunk(job["leaf"])
        lg, eff = derive(logger, job["via"], job["depth"], job["flags"], job.get("seq"), job.get("dkind"))
        job["eff"] = int(eff)
        leaf = job["leaf"]
        if leaf in PLAIN_LEAVES:
            leafg["CALL"] = method_callable(lg, job["method"], job["flags"])
            leafg["MSG"] = "m"
        else:
            kw = {"reraise": True} if job["reraise"] else {}
            leafg["CM"] = functools.partial(lg.catch, **kw) if kw or job["flags"] & 1 else lg.catch
            raw = chain.raw
            leafg["DEC_F"] = lg.catch(leafg[raw["DEC_F"]]) if not kw else lg.catch(**kw)(leafg[raw["DEC_F"]])
            leafg["DEC_FP"] = lg.catch(ValueError, message="caught {record[function]}", **kw)(leafg[raw["DEC_FP"]])
            leafg["DEC_G"] = lg.catch(**kw)(leafg[raw["DEC_G"]])
            leafg["DEC_C"] = lg.catch(**kw)(leafg[raw["DEC_C"]])
            leafg["DEC_A"] = lg.catch(**kw)(leafg[raw["DEC_A"]])
        return chain.thunk(leaf)

    # phase 0 = probe runs (the real stack as CPython reports it, for every leaf the probe can stand
    # in for); phase 1 = the logging calls.  ONE call site for both, so that the harness' own frames
    # (which are part of the stack a large depth reaches) have the same line numbers in both.
    probe_leaves = [l for l in PLAIN_LEAVES if l in chain.leaves and l != "plain"]
    probe_leaves = ["plain"] + sorted(set(probe_leaves)) + ["with", "with_nested"]
    todo = [{"leaf": l, "probe": True} for l in probe_leaves]
    walk = outer = jobs = recs_by_job = None
    for phase in (0, 1):
        del ProbeCM.walks[:]
        outs = run_jobs(todo, prepare, in_thread, foreign, env.sink)
        if phase == 1:
            recs_by_job = outs
            break
        cmwalks = list(ProbeCM.walks)
        for l, ((w, err, _tid, _t0, _t1), _recs) in zip(probe_leaves, outs):
            if l.startswith("with"):
                w = cmwalks.pop(0)
            if err is not None:
                raise RuntimeError("C17 harness: probe run of leaf %s failed: %r" % (l, err))
            tags = chain.tags_for(l)
            if w[:len(tags)] != tags:
                raise RuntimeError("C17 harness self-check: generated tags differ from the real stack (leaf %s)\n"
                                   " tags=%r\n walk=%r\n kinds=%r" % (l, tags, w[:len(tags)], chain.kinds))
            if l == "plain":
                walk = w
                outer = w[len(tags):]
            elif w[len(tags):] != outer:
                raise RuntimeError("C17 harness self-check: outer frames differ between leaves (%s)" % l)
        jobs = make_jobs(chain, rng, ctx, full_sweep, len(walk)) if only_jobs is None else [dict(j) for j in only_jobs]
        todo = jobs
    bad = 0

    start_us = to_us(env.start_time())
    JK = ("leaf", "method", "via", "depth", "flags", "reraise", "rename", "seq", "dkind")
    for ji, (job, (o, rs)) in enumerate(zip(jobs, recs_by_job)):
        res, err, (tid, tname, pname), t0, t1 = o
        leaf, d = job["leaf"], job["eff"]
        E = chain.tags_for(leaf) + outer
        exp_tag = E[d] if d < len(E) else PLACEHOLDER
        exp = expected_fields(exp_tag)
        is_catch = leaf not in PLAIN_LEAVES
        key = (chain_state, leaf, job["method"], job["via"], job["depth"], in_thread)
        ctx.case(key, nontrivial=(d >= 1 or is_catch or exp["name"] is None))
        ctx.stat("leaf:" + leaf)
        ctx.stat("via:" + job["via"])
        if not is_catch:
            ctx.stat("method:" + job["method"])
        ctx.stat("expect:" + ("placeholder" if d >= len(E) else ("outer-frame" if d >= len(E) - len(outer) else
                                                                   ("noname" if exp["name"] is None else "chain-frame"))))
        ctx.stat("thread:" + ("foreign" if foreign else "worker" if in_thread else "main"))
        replay = {"stream": "chain", "chain_state": chain_state, "nlinks": nlinks, "in_thread": in_thread, "foreign": foreign,
                  "job": {k: job.get(k) for k in JK}}
        fkey = FINDING_KEY.get(leaf)
        if isinstance(err, OverflowError):
            fkey = KEY_OVERFLOW
        what = None
        if err is not None and not (is_catch and job["reraise"] and isinstance(err, ValueError) and str(err) == "boom"):
            what = "logging call raised %r instead of producing a record" % (err,)
            obs = {"error": repr(err)}
        elif len(rs) != 1:
            what = "%d records instead of one" % len(rs)
            obs = {"records": len(rs)}
        else:
            rec = rs[0]
            obs = observed_fields(rec)
            if obs != exp:
                what = "record names %r, expected %r" % (obs, exp)
            elif rec["thread"].id != tid:
                what = "record thread id %r, calling thread %r" % (rec["thread"].id, tid)
            elif rec["process"].id != os.getpid():
                what = "record process id %r, calling process %r" % (rec["process"].id, os.getpid())
            elif rec["thread"].name != tname:
                what = "record thread name %r, the calling thread is named %r at the time of the call" % (rec["thread"].name, tname)
            elif rec["process"].name != pname:
                what = "record process name %r, the calling process is named %r at the time of the call" % (rec["process"].name, pname)
            else:
                what = judge_time(rec, t0, t1, env)
            if verbose:
                print("  expected:", exp)
                print("  observed:", obs, "thread", rec["thread"].id, "process", rec["process"].id)
        if what is not None:
            bad += 1
            full = "%s via %s.%s depth=%d (%s thread, chain %s): %s" % (
                leaf, job["via"], job["method"] if not is_catch else "catch", job["depth"],
                "worker" if in_thread else "main", "->".join(chain.kinds), what)
            replay["expected"], replay["observed"] = exp, obs
            # the calls made before this one in the same thread (a stale cache needs the whole sequence)
            replay["jobs_before"] = [{k: j.get(k) for k in JK} for j in jobs[max(0, ji - 40):ji]]
            report(ctx, full, replay, key=fkey)
            if verbose:
                print("  " + full)
        # ---- the same case for the Lean model
        # (in the exhaustive product the model sees three of the derivations: its answer does not depend on the others –
        # the interpreted driver costs about 1 ms per line)
        if len(rs) == 1 and lines is not None and getattr(rs[0]["time"], "tzinfo", None) is not None \
                and hasattr(rs[0]["elapsed"], "days") \
                and (full_sweep != "product" or job["via"] in ("direct", "seq", "bind_patch_opt")):
            rec = rs[0]
            kind = "c" if is_catch else "m"
            nm = SHAPE_OF[leaf] if is_catch else job["method"]
            if job["via"] == "seq":     # the model computes the options from the derivation history itself
                toks = ["s", kind, enc(nm), seq_token(job["seq"]), str(tid), str(os.getpid()), str(to_us(rec["time"])), str(start_us)]
            else:
                toks = [kind, enc(nm), str(d), str(tid), str(os.getpid()), str(to_us(rec["time"])), str(start_us)]
            if d >= len(E):
                # beyond the stack the model only needs the NUMBER of frames (a model that wrongly selected one of them
                # would still answer something else than the placeholder record)
                toks += ["!", "-", "-", "0"] * min(len(E), 64)
            else:
                for (gname, file, func, line) in E[:d + 2]:   # the model only needs the frames up to the selected one
                    toks += ["!" if gname is MISSING else "~" if gname is None else enc(gname) if isinstance(gname, str) else "~",
                             enc(file), enc(func), str(line)]
            o = obs
            impl = "ok %s s:%s i:%d s:%s s:%s s:%s i:%d i:%d i:%d i:%d" % (
                "n" if o["name"] is None else "s:" + enc(o["name"]), enc(o["function"]), o["line"], enc(o["module"]),
                enc(o["file"]), enc(o["path"]), rec["thread"].id, rec["process"].id, to_us(rec["time"]),
                td_us(rec["elapsed"]))
            lines.append(" ".join(toks))
            pending_cmp.append((impl, replay, fkey, what is not None))
    return bad


def to_us(dt):
    d = dt - pydt.datetime(1970, 1, 1, tzinfo=pydt.timezone.utc)
    return (d.days * 86400 + d.seconds) * 10**6 + d.microseconds


def td_us(td):
    return (td.days * 86400 + td.seconds) * 10**6 + td.microseconds


_last = {"elapsed": None, "t1": None}


def judge_time(rec, t0, t1, env):
    """time is aware local time inside the bracket measured around the call; elapsed = time - start_time and
    never decreases from one call to the next (as long as time.time() itself did not step back)"""
    tm = rec["time"]
    if tm.tzinfo is None or tm.utcoffset() is None:
        return "record time is naive: %r" % (tm,)
    ts = tm.timestamp()
    if not (t0 - 0.002 <= ts <= t1 + 0.002):
        return "record time %r outside the call's wall-clock bracket [%r, %r]" % (ts, t0, t1)
    local = pydt.datetime.fromtimestamp(ts).astimezone()
    if tm.utcoffset() != local.utcoffset():
        return "record time offset %r is not the local offset %r" % (tm.utcoffset(), local.utcoffset())
    if rec["elapsed"] != tm - env.start_time():
        return "elapsed %r is not time - start_time = %r" % (rec["elapsed"], tm - env.start_time())
    prev, prev_t1 = _last["elapsed"], _last["t1"]
    _last["elapsed"], _last["t1"] = rec["elapsed"], t1
    if prev is not None and prev_t1 is not None and prev_t1 <= t0 and rec["elapsed"] < prev:
        return "elapsed decreased from %r to %r while the wall clock went forward" % (prev, rec["elapsed"])
    return None


# ----------------------------------------------------------------------------- other streams
def stream_paths(ctx, lines, cmp_paths):
    """Py-semantics stream: Frames.basename/stem (Lean) and spec_basename/spec_stem (oracle) vs os.path"""
    rng = ctx.rng.fork("paths")
    alphabet = ["a", "b", ".", ".", "/", "é", "py", " ", "..", "x.y", "-"]
    cases = list(FILES)
    for _ in range(ctx.n(300, 5000)):
        cases.append("".join(rng.choice(alphabet) for _ in range(rng.range(0, 7))))
    for p in cases:
        base = os.path.basename(p)
        stem_ = os.path.splitext(base)[0]
        if (spec_basename(p), spec_stem(spec_basename(p))) != (base, stem_):
            raise RuntimeError("C17 harness: spec_basename/spec_stem disagree with os.path on %r" % (p,))
        lines.append("path " + enc(p))
        cmp_paths.append((p, "ok %s %s" % (enc(base), enc(stem_))))
        ctx.case(("path", p))
    ctx.stat("path_cases", len(cases))


def stream_timezone(ctx, env):
    """`time` is local aware time: change TZ (POSIX strings, no tzdata needed) and compare the offset"""
    if not hasattr(time, "tzset"):
        return
    old = os.environ.get("TZ")
    try:
        for tz, off in (("UTC0", 0), ("EST5", -5 * 3600), ("XYZ-5:30", 5 * 3600 + 1800), ("ABC+3:15", -(3 * 3600 + 900)),
                        ("LMT-0:09:21", 9 * 60 + 21), ("AAA-14", 14 * 3600), ("BBB+12", -12 * 3600)):
            os.environ["TZ"] = tz
            time.tzset()
            t0 = time.time()
            env.logger.info("tz")
            t1 = time.time()
            rec = env.sink.records.pop()
            ctx.case(("tz", tz), nontrivial=True)
            ctx.stat("tz_cases")
            got = rec["time"].utcoffset()
            what = None
            if rec["time"].tzinfo is None or got is None:
                what = "record time is naive under TZ=%s" % tz
            elif got != pydt.timedelta(seconds=off):
                what = "record time offset %r under TZ=%s, expected %r" % (got, tz, pydt.timedelta(seconds=off))
            elif not (t0 - 0.002 <= rec["time"].timestamp() <= t1 + 0.002):
                what = "record time outside the call bracket under TZ=%s" % tz
            elif (rec["time"].replace(tzinfo=None) - pydt.datetime.fromtimestamp(rec["time"].timestamp())).total_seconds() != 0:
                what = "record wall time is not local time under TZ=%s" % tz
            if what:
                report(ctx, what, {"stream": "timezone", "tz": tz, "expected_offset_s": off, "observed": str(got)})
    finally:
        if old is None:
            os.environ.pop("TZ", None)
        else:
            os.environ["TZ"] = old
        time.tzset()
    _last["elapsed"] = None


def stream_fork(ctx, env, n):
    """a forked child logs: the process id of the record is the child's"""
    if not hasattr(os, "fork"):
        return
    for i in range(n):
        r, w = os.pipe()
        pid = os.fork()
        if pid == 0:
            code = 1
            try:
                os.close(r)
                env.logger.info("child")
                rec = env.sink.records[-1]
                os.write(w, ("%d %d %d %d" % (rec["process"].id, os.getpid(), rec["thread"].id, threading.get_ident())).encode())
                code = 0
            finally:
                os._exit(code)
        os.close(w)
        ready, _, _ = select.select([r], [], [], 30)
        data = os.read(r, 200).decode() if ready else ""
        os.close(r)
        if not ready:
            try:
                os.kill(pid, signal.SIGKILL)
            except OSError:
                pass
        os.waitpid(pid, 0)
        if not ready or not data:
            raise RuntimeError("C17 harness: forked child did not answer")
        rp, cp, rt, ct = [int(x) for x in data.split()]
        ctx.case(("fork", i), nontrivial=True)
        ctx.stat("fork_cases")
        if rp != cp or cp != pid or rt != ct:
            report(ctx, "forked child: record process id %d / thread id %d, child pid %d / thread %d" % (rp, rt, cp, ct),
                   {"stream": "fork", "expected": {"pid": cp, "tid": ct}, "observed": {"pid": rp, "tid": rt}})


def stream_fallback(ctx, env):
    """loguru's pure-Python get_frame_fallback (used when sys._getframe is missing) must agree with
    sys._getframe inside the stack and raise ValueError beyond it (finding F22, fixed)."""
    import loguru._get_frame as gf
    fb = getattr(gf, "get_frame_fallback", None)
    if fb is None:
        return

    def both(n):
        """the two frame getters called from the same frame: compare the frame OBJECTS"""
        try:
            a = sys._getframe(n)
        except ValueError:
            a = "ValueError"
        try:
            b = fb(n)
        except ValueError:
            b = "ValueError"
        except Exception as e:  # noqa: BLE001
            b = type(e).__name__
        same = (a is b) or (isinstance(a, str) and a == b)
        show = lambda x: x if isinstance(x, str) or x is None else "frame %s" % x.f_code.co_name  # noqa: E731
        return same, show(a), show(b)

    depth_here = len(probe())
    for n in range(0, depth_here + 4):
        same, a, b = both(n)
        ctx.case(("fallback", n), nontrivial=True)
        ctx.stat("fallback_cases")
        if not same:
            key = KEY_FALLBACK if a == "ValueError" else None
            report(ctx, "get_frame_fallback(%d) gives %r, sys._getframe(%d) gives %r" % (n, b, n, a),
                   {"stream": "fallback", "n": n, "stack": depth_here, "expected": a, "observed": b}, key=key)
    # end to end: the logger running on the fallback
    # (the logger reaches get_frame through a module global of loguru._logger or through the _get_frame module:
    # every binding of the selected function is swapped, whatever it is called)
    sel = getattr(gf, "get_frame", None)
    swapped = []
    for mod in (env.lm, gf):
        for nm, val in list(vars(mod).items()):
            if val is sel and callable(val) and val is not fb:
                swapped.append((mod, nm, val))
                setattr(mod, nm, fb)
    if not swapped:
        ctx.stat("fallback_e2e_skipped")
        return
    try:
        def here():
            return env.logger.opt(depth=1).info("fb")
        line = here.__code__.co_firstlineno + 5
        here()
        rec = env.sink.records.pop()
        ctx.case(("fallback", "e2e"), nontrivial=True)
        if (rec["function"], rec["name"]) != ("stream_fallback", __name__):
            report(ctx, "with get_frame_fallback depth=1 names %r" % ((rec["function"], rec["name"]),),
                   {"stream": "fallback-e2e", "expected": ["stream_fallback", __name__], "observed": [rec["function"], rec["name"]]})
        del line
        try:
            env.logger.opt(depth=depth_here + 5).info("fb-beyond")
            rec = env.sink.records.pop()
            ok = rec["function"] == "<unknown>" and rec["name"] is None
            err = None
        except Exception as e:  # noqa: BLE001
            ok, err = False, e
        ctx.case(("fallback", "e2e-beyond"), nontrivial=True)
        if not ok:
            report(ctx, "with get_frame_fallback a depth beyond the stack %s" % (
                "raises %r" % (err,) if err is not None else "does not give placeholders"),
                {"stream": "fallback-e2e", "expected": "placeholders", "observed": repr(err)},
                key=KEY_FALLBACK)
    finally:
        for mod, nm, val in swapped:
            setattr(mod, nm, val)


WITNESS_SRC = """
async def block():
    async with LOG.catch():
        raise ValueError('boom')
def drive_block():
    c = block()
    try:
        c.send(None)
    except StopIteration:
        pass
async def agen_raw():
    yield 1
    raise ValueError('boom')
async def loop():
    async for _ in DEC():
        pass
def drive_loop():
    c = loop()
    try:
        c.send(None)
    except StopIteration:
        pass
"""


def stream_witnesses(ctx, env, only=None):
    """regression witnesses of findings F23 / F24 (Props/C17 async_with_witness, asyncgen_anext_witness) as literal
    programs; run from corpus/C17 (entries with "stream": "witness"); a failure is a plain violation"""
    g = {"__name__": "app", "LOG": env.logger}
    exec(compile(WITNESS_SRC, "app.py", "exec"), g)
    g["DEC"] = env.logger.catch(g["agen_raw"])
    for fn, exp, key in (("drive_block", ("app", "block", 3), KEY_ASYNC_WITH),
                         ("drive_loop", ("app", "loop", 15), KEY_ASYNC_FOR)):
        if only is not None and fn != only:
            continue
        n0 = len(env.sink.records)
        g[fn]()
        recs = env.sink.records[n0:]
        del env.sink.records[n0:]
        ctx.case(("witness", fn), nontrivial=True)
        obs = [(r["name"], r["function"], r["line"]) for r in recs]
        if obs != [exp]:
            report(ctx, "witness %s: record names %r, expected %r" % (fn, obs, exp),
                   {"stream": "witness", "program": fn, "expected": list(exp), "observed": [list(o) for o in obs]}, key=key)


# ----------------------------------------------------------------------------- identity streams
# "thread and process fields identify the calling thread and process" AT THE TIME OF THE CALL: sequences of logging
# calls per actor (main thread, threading.Thread, raw _thread thread, nested threads, multiprocessing children started
# with fork / spawn / forkserver) with the thread / process RENAMED between calls.  The same op interpreter runs
# in-process and inside real multiprocessing children (there through a generated program, see MP_PROGRAM).
IDENT_FORMAT = "{process}|{process.id}|{process.name}|{thread}|{thread.id}|{thread.name}|{message}"


def gen_ops(rng, depth=0):
    ops = []
    for _ in range(rng.range(2, 7)):
        r = rng.below(100)
        if r < 50:
            ops.append(["log", rng.choice(METHODS)])
        elif r < 70:
            ops.append(["rename_thread", rng.choice(ACTOR_NAMES)])
        elif r < 85:
            ops.append(["rename_process", rng.choice(ACTOR_NAMES)])
        elif depth < 2 and r < 95:
            ops.append(["thread", rng.choice(["threading", "threading", "_thread"]), rng.choice(ACTOR_NAMES + [None]),
                        gen_ops(rng, depth + 1)])
        elif depth < 2 and hasattr(os, "fork"):
            # a raw os.fork() from the current thread (after whatever this thread has logged so far): the child goes on
            # logging; anything remembered per thread / per process object / per logger in the parent is stale there
            ops.append(["fork", gen_ops(rng, 2)])
    ops.append(["log", rng.choice(METHODS)])
    return ops


def run_ops(lg, ops, out, path="0"):
    """interpret ops in the CURRENT thread; every log appends an observation: what the record says next to what
    the interpreter reads for the calling thread / process immediately before the call"""
    for i, op in enumerate(ops):
        kind = op[0]
        if kind == "log":
            act = [os.getpid(), multiprocessing.current_process().name, threading.get_ident(), threading.current_thread().name]
            box = []
            hid = lg.add(lambda m: box.append((m.record, str(m))), format=IDENT_FORMAT, level=0, colorize=False, catch=False,
                         backtrace=False, diagnose=False)
            err = None
            try:
                msg = "m%s.%d" % (path, i)
                if op[1] == "log":
                    lg.log("INFO", msg)
                elif op[1] == "exception":
                    lg.opt(exception=None).error(msg)
                else:
                    getattr(lg, op[1])(msg)
            except Exception as e:  # noqa: BLE001
                err = repr(e)
            finally:
                lg.remove(hid)
            o = {"at": "%s.%d" % (path, i), "act": act, "err": err, "n": len(box)}
            if box:
                rec, text = box[0]
                o["rec"] = [rec["process"].id, rec["process"].name, rec["thread"].id, rec["thread"].name]
                o["fmt"] = text.rstrip("\n")
                o["fmt_exp"] = "%s|%s|%s|%s|%s|%s|%s" % (act[0], act[0], act[1], act[2], act[2], act[3], msg)
            out.append(o)
        elif kind == "rename_thread":
            threading.current_thread().name = op[1]
        elif kind == "rename_process":
            multiprocessing.current_process().name = op[1]
        elif kind == "fork":
            p_ = "%s.%d" % (path, i)
            r_, w_ = os.pipe()
            pid = os.fork()
            if pid == 0:
                code = 1
                try:
                    os.close(r_)
                    sub = []
                    try:
                        run_ops(lg, op[1], sub, p_ + "f")
                    except BaseException as e:  # noqa: BLE001
                        sub.append({"at": p_, "crash": repr(e)})
                    data = json.dumps(sub).encode()
                    while data:
                        n_ = os.write(w_, data)
                        data = data[n_:]
                    code = 0
                finally:
                    os._exit(code)
            os.close(w_)
            chunks = []
            deadline = time.time() + 60
            while True:
                ready, _, _ = select.select([r_], [], [], max(0.0, deadline - time.time()))
                if not ready:
                    break
                b = os.read(r_, 65536)
                if not b:
                    break
                chunks.append(b)
            os.close(r_)
            try:
                if time.time() >= deadline:
                    os.kill(pid, signal.SIGKILL)
            except OSError:
                pass
            os.waitpid(pid, 0)
            try:
                out.extend(json.loads(b"".join(chunks).decode()))
            except ValueError:
                out.append({"at": p_, "crash": "forked child gave no answer"})
        elif kind == "thread":
            done = threading.Event()
            sub = []

            def body(op=op, sub=sub, done=done, p="%s.%d" % (path, i)):
                try:
                    run_ops(lg, op[3], sub, p)
                except BaseException as e:  # noqa: BLE001
                    sub.append({"at": p, "crash": repr(e)})
                finally:
                    done.set()
            if op[1] == "_thread":
                import _thread
                _thread.start_new_thread(body, ())
            else:
                th = threading.Thread(target=body, **({"name": op[2]} if op[2] is not None else {}))
                th.start()
            if not done.wait(30):
                out.append({"at": "%s.%d" % (path, i), "crash": "nested thread did not finish within 30 s"})
            elif op[1] != "_thread":
                th.join(10)
            out.extend(sub)


def judge_ops(ctx, obs, replay, where):
    bad = 0
    for o in obs:
        ctx.case(("identity", where, json.dumps(replay.get("scenario", replay), sort_keys=True, default=str)[:400], o.get("at")), nontrivial=True)
        ctx.stat("identity_logs:" + where)
        what = None
        if "crash" in o:
            raise RuntimeError("C17 harness: identity scenario crashed: %r" % (o,))
        if o["err"] is not None:
            what = "logging call raised %s" % o["err"]
        elif o["n"] != 1:
            what = "%d records instead of one" % o["n"]
        elif o["rec"] != o["act"]:
            what = "record (process.id, process.name, thread.id, thread.name) = %r, the calling process/thread at the time of " \
                   "the call is %r" % (tuple(o["rec"]), tuple(o["act"]))
        elif o["fmt"] != o["fmt_exp"]:
            what = "'%s' rendered %r, expected %r" % (IDENT_FORMAT, o["fmt"], o["fmt_exp"])
        if what:
            bad += 1
            report(ctx, "%s, call %s: %s" % (where, o["at"], what), dict(replay, at=o["at"], expected=o["act"], observed=o.get("rec")))
    return bad


def run_identity_inproc(env, scenario):
    """actor: main thread / threading.Thread / _thread; names restored afterwards"""
    th, pr = threading.current_thread(), multiprocessing.current_process()
    tname0, pname0 = th.name, pr.name
    out = []
    try:
        if scenario["actor"] == "main":
            run_ops(env.logger, scenario["ops"], out)
        else:
            run_ops(env.logger, [["thread", scenario["actor"], scenario.get("tname"), scenario["ops"]]], out)
    finally:
        th.name, pr.name = tname0, pname0
    return out


def stream_identity(ctx, env):
    rng = ctx.rng.fork("identity")
    for i in range(ctx.n(40, 800)):
        sc = {"actor": rng.choice(["main", "threading", "threading", "_thread"]), "tname": rng.choice(ACTOR_NAMES + [None]),
              "ops": gen_ops(rng)}
        obs = run_identity_inproc(env, sc)
        ctx.stat("identity_scenarios")
        judge_ops(ctx, obs, {"stream": "identity", "scenario": sc}, "in-process " + sc["actor"])
        if len(ctx.violations) >= 25:
            break


MP_PROGRAM = """# generated by harness/c17.py: a program whose MAIN MODULE imports loguru (as applications do) and starts
# real multiprocessing children; spawn / forkserver children re-import this module before they run
import sys
sys.path[:0] = [%(repo)r, %(verif)r]
import loguru  # noqa: E402,F401
from harness import c17  # noqa: E402

if __name__ == "__main__":
    c17.mp_main(sys.argv[1])
"""


def picklable_sink(message):
    pass


def mp_child(conn, ops, lg):
    """runs inside a multiprocessing child (any start method)"""
    out = []
    try:
        if lg is None:
            import loguru
            lg = loguru.logger
        run_ops(lg, ops, out)
    except BaseException as e:  # noqa: BLE001
        out.append({"at": "child", "crash": repr(e)})
    conn.send(out)
    conn.close()


def mp_main(spec_path):
    """main of the generated program: one child per scenario, answers as JSON on stdout"""
    import loguru
    scenarios = json.load(open(spec_path))
    loguru.logger.remove()
    results = []
    for sc in scenarios:
        mctx = multiprocessing.get_context(sc["ctx"])
        lg = None
        if sc.get("pass_logger"):
            lg = loguru.logger.bind(passed=True)
            if sc["ctx"] == "fork" and sc.get("parent_handler"):
                loguru.logger.add(picklable_sink, format="{message}")
        parent, child = mctx.Pipe(duplex=False)
        kw = {"name": sc["pname"]} if sc.get("pname") is not None else {}
        p = mctx.Process(target=mp_child, args=(child, sc["ops"], lg), **kw)
        p.start()
        child.close()
        if parent.poll(60):
            try:
                results.append(parent.recv())
            except EOFError:
                results.append([{"at": "child", "crash": "child closed the pipe without an answer"}])
        else:
            results.append([{"at": "child", "crash": "no answer within 60 s"}])
        p.join(15)
        if p.is_alive():
            p.kill()
            p.join(5)
        loguru.logger.remove()
    sys.stdout.write("C17-MP-RESULTS " + json.dumps(results) + "\n")
    sys.stdout.flush()


def run_identity_mp(scenarios):
    """execute the scenarios in real multiprocessing children; returns one observation list per scenario"""
    d = tempfile.mkdtemp(prefix="c17mp")
    try:
        prog = os.path.join(d, "c17_mp_prog.py")
        with open(prog, "w", encoding="utf8") as f:
            f.write(MP_PROGRAM % {"repo": core.REPO, "verif": core.VERIF})
        spec = os.path.join(d, "spec.json")
        with open(spec, "w", encoding="utf8") as f:
            json.dump(scenarios, f)
        env = dict(os.environ, PYTHONDONTWRITEBYTECODE="1")
        try:
            p = subprocess.run([sys.executable, prog, spec], cwd=d, env=env, stdout=subprocess.PIPE, stderr=subprocess.PIPE,
                               timeout=90 + 75 * len(scenarios))
        except subprocess.TimeoutExpired:
            raise RuntimeError("C17 harness: multiprocessing program timed out") from None
        for line in p.stdout.decode("utf8", "replace").splitlines():
            if line.startswith("C17-MP-RESULTS "):
                return json.loads(line[len("C17-MP-RESULTS "):])
        raise RuntimeError("C17 harness: multiprocessing program gave no result (rc=%s)\n%s"
                           % (p.returncode, p.stderr.decode("utf8", "replace")[-3000:]))
    finally:
        shutil.rmtree(d, ignore_errors=True)


def gen_mp_scenarios(rng, n):
    methods = [m for m in ("fork", "spawn", "forkserver") if m in multiprocessing.get_all_start_methods()]
    out = []
    for i in range(n):
        out.append({"ctx": methods[i % len(methods)], "pname": rng.choice(ACTOR_NAMES + [None, None]),
                    "pass_logger": rng.chance(50), "parent_handler": rng.chance(50), "ops": gen_ops(rng)})
    return out


def stream_identity_mp(ctx, env):
    rng = ctx.rng.fork("identity-mp")
    scenarios = gen_mp_scenarios(rng, ctx.n(6, 30))
    results = run_identity_mp(scenarios)
    for sc, obs in zip(scenarios, results):
        ctx.stat("mp_children:" + sc["ctx"])
        judge_ops(ctx, obs, {"stream": "identity-mp", "scenario": sc}, "multiprocessing %s child" % sc["ctx"])


# ----------------------------------------------------------------------------- shared Catcher objects
# ONE object returned by `logger.catch(...)` (and the wrappers it decorates) used by several actors whose exits OVERLAP:
# the depth arithmetic of Catcher.__exit__/__aexit__ must be per CALL, not per object.  The overlap is forced through
# the catcher's own `onerror` callback: in mode "threads" actor A is parked inside its exit (in onerror) until actor B,
# another thread, has gone through its own exit on the same object; in mode "nested" A's onerror itself runs B (a
# re-entrant use in the same thread, inside A's exit).  Every record is judged by the tags of ITS actor's chain.
SHARED_LEAVES = ["with", "with_nested", "async_with", "deco_func", "deco_gen", "deco_coro", "deco_agen", "deco_agen_for",
                 "deco_gen_split"]


def run_shared(ctx, env, sc, lines=None, pending_cmp=None, verbose=False):
    """scenario: {"a": {"state", "nlinks", "leaf"}, "b": {...}, "mode", "depth", "same_wrappers"}; returns #bad"""
    chains = {}
    for who in ("a", "b"):
        chains[who] = Chain(rng_from_state(sc[who]["state"]), sc[who]["nlinks"])
    d = sc["depth"]
    lg = env.logger.opt(depth=d) if d else env.logger
    if sc.get("bind"):
        lg = lg.bind(shared=1)
    state = {"level": 0, "errors": []}
    in_window, other_done = threading.Event(), threading.Event()
    parked = {}

    def run_actor(who):
        ch, leaf = chains[who], sc[who]["leaf"]
        r0 = None
        try:
            ch.thunk(leaf)()
        except BaseException as e:  # noqa: BLE001
            state["errors"].append((who, repr(e)))
        return r0

    def hook(_exc):
        if sc["mode"] == "nested":
            state["level"] += 1
            if state["level"] == 1:
                run_actor("b")          # a re-entrant use of the same objects from inside A's exit
            return
        if threading.get_ident() == parked.get("tid"):
            in_window.set()
            if not other_done.wait(20):
                state["errors"].append(("a", "actor B did not finish while A was parked"))

    shared = lg.catch(onerror=hook)
    wrappers = {}
    for who in ("a", "b"):
        ch = chains[who]
        g = ch.leafmod.g
        g["CM"] = lambda: shared
        src = chains["a"] if sc.get("same_wrappers") else ch      # the SAME decorated objects called by both actors
        if who == "a" or not sc.get("same_wrappers"):
            wrappers[who] = {k: shared(src.leafmod.g[src.raw[k]]) for k in ("DEC_F", "DEC_G", "DEC_C", "DEC_A")}
            wrappers[who]["DEC_FP"] = wrappers[who]["DEC_F"]
        else:
            wrappers[who] = wrappers["a"]
        g.update(wrappers[who])
    sink = env.sink
    r0 = len(sink.records)
    tids = {}
    if sc["mode"] == "nested":
        tids["a"] = tids["b"] = threading.get_ident()
        run_actor("a")
    else:
        def ta():
            parked["tid"] = tids["a"] = threading.get_ident()
            try:
                run_actor("a")
            finally:
                in_window.set()

        def tb():
            tids["b"] = threading.get_ident()
            try:
                if not in_window.wait(20):
                    state["errors"].append(("b", "actor A never reached its exit"))
                run_actor("b")
            finally:
                other_done.set()
        tha, thb = threading.Thread(target=ta, name="c17-shared-a"), threading.Thread(target=tb, name="c17-shared-b")
        tha.start(); thb.start()
        tha.join(60); thb.join(60)
        if tha.is_alive() or thb.is_alive():
            other_done.set(); in_window.set()
            raise RuntimeError("C17 harness: shared-catcher scenario did not finish: %r" % (sc,))
    recs = sink.records[r0:]
    del sink.records[r0:]
    bad = 0
    start_us = to_us(env.start_time())
    # attribute records to actors: threads mode by thread id, nested mode by order (A logs before its onerror runs B)
    got = {"a": [], "b": []}
    if sc["mode"] == "nested":
        for i, r in enumerate(recs):
            got["a" if i == 0 else "b"].append(r)
    else:
        for r in recs:
            got["a" if r["thread"].id == tids.get("a") else "b"].append(r)
    for who in ("a", "b"):
        ch, leaf = chains[who], sc[who]["leaf"]
        E = ch.tags_for(leaf)
        exp = expected_fields(E[d] if d < len(E) else PLACEHOLDER)
        ctx.case(("shared", json.dumps(sc, sort_keys=True), who), nontrivial=True)
        ctx.stat("shared:%s:%s:%s" % (sc["mode"], who, leaf))
        what = None
        errs = [e for w_, e in state["errors"] if w_ == who]
        if errs:
            what = "actor raised / hung: %s" % errs[0]
            obs = {"error": errs[0]}
        elif len(got[who]) != 1:
            what = "%d records instead of one" % len(got[who])
            obs = {"records": len(got[who])}
        else:
            rec = got[who][0]
            obs = observed_fields(rec)
            if d >= len(E):
                what = None          # beyond the actor's own chain: the frames below belong to the harness / the other actor
            elif obs != exp:
                what = "record names %r, expected %r" % (obs, exp)
            elif rec["thread"].id != tids[who]:
                what = "record thread id %r, calling thread %r" % (rec["thread"].id, tids[who])
            if verbose:
                print("  actor %s (%s): expected %r\n             observed %r" % (who, leaf, exp, obs))
            if what is None and d < len(E) and lines is not None and getattr(rec["time"], "tzinfo", None) is not None:
                toks = ["c", enc(SHAPE_OF[leaf]), str(d), str(rec["thread"].id), str(os.getpid()), str(to_us(rec["time"])),
                        str(start_us)]
                for (gname, file, func, line) in E[:d + 2]:
                    toks += ["!" if gname is MISSING else "~" if gname is None else enc(gname) if isinstance(gname, str) else "~",
                             enc(file), enc(func), str(line)]
                impl = "ok %s s:%s i:%d s:%s s:%s s:%s i:%d i:%d i:%d i:%d" % (
                    "n" if obs["name"] is None else "s:" + enc(obs["name"]), enc(obs["function"]), obs["line"],
                    enc(obs["module"]), enc(obs["file"]), enc(obs["path"]), rec["thread"].id, rec["process"].id,
                    to_us(rec["time"]), td_us(rec["elapsed"]))
                lines.append(" ".join(toks))
                pending_cmp.append((impl, {"stream": "shared", "scenario": sc, "actor": who}, None, False))
        if what is not None:
            bad += 1
            other = "b" if who == "a" else "a"
            report(ctx, "shared catcher object (%s, depth=%d): actor %s leaves `%s` while actor %s is inside the exit of `%s` on the "
                        "same object: %s" % (sc["mode"], d, who, leaf, other, sc[other]["leaf"], what),
                   {"stream": "shared", "scenario": sc, "actor": who, "expected": exp, "observed": obs})
    return bad


def gen_shared(rng):
    a = {"state": rng.fork("a").s, "nlinks": rng.range(1, 4), "leaf": rng.choice(SHARED_LEAVES)}
    b = {"state": rng.fork("b").s, "nlinks": rng.range(1, 4), "leaf": rng.choice(SHARED_LEAVES)}
    return {"a": a, "b": b, "mode": rng.choice(["threads", "nested", "nested"]), "depth": rng.choice([0, 0, 0, 1, 1, 2]),
            "same_wrappers": rng.chance(60), "bind": rng.chance(20)}


def stream_shared(ctx, env, corr):
    rng = ctx.rng.fork("shared")
    # every ordered pair of exit kinds once in each mode, then random scenarios
    todo = []
    for mode in ("nested", "threads"):
        for la in SHARED_LEAVES:
            for lb in SHARED_LEAVES:
                if mode == "threads" and not ctx.quick or mode == "nested" or rng.chance(25):
                    sc = gen_shared(rng)
                    sc["mode"] = mode
                    sc["a"]["leaf"], sc["b"]["leaf"] = la, lb
                    todo.append(sc)
    for _ in range(ctx.n(30, 800)):
        todo.append(gen_shared(rng))
    for sc in todo:
        run_shared(ctx, env, sc, corr.lines, corr.want)
        ctx.stat("shared_scenarios")
        if len(ctx.violations) >= 25:
            break


CORPUS_DIR = os.path.join(core.VERIF, "corpus", "C17")


def run_corpus(ctx, env, lines, pending_cmp):
    import json
    try:
        names = sorted(os.listdir(CORPUS_DIR))
    except OSError:
        names = []
    for nm in names:
        if not nm.endswith(".json"):
            continue
        c = json.load(open(os.path.join(CORPUS_DIR, nm)))
        ctx.stat("corpus")
        if c.get("stream") == "witness":
            stream_witnesses(ctx, env, only=c["program"])
            continue
        if c.get("stream") == "identity":
            judge_ops(ctx, run_identity_inproc(env, c["scenario"]), {"stream": "identity", "scenario": c["scenario"]},
                      "in-process " + c["scenario"]["actor"])
            continue
        if c.get("stream") == "shared":
            run_shared(ctx, env, c["scenario"], lines, pending_cmp)
            continue
        if c.get("stream") == "identity-mp":
            obs, = run_identity_mp([c["scenario"]])
            judge_ops(ctx, obs, {"stream": "identity-mp", "scenario": c["scenario"]},
                      "multiprocessing %s child" % c["scenario"]["ctx"])
            continue
        run_chain(ctx, env, c["chain_state"], c.get("nlinks"), c.get("in_thread", False), c.get("foreign", False), False,
                  lines, pending_cmp, only_jobs=[dict(c["job"])])


class Corr:
    """correspondence stream: the Lean model on the same cases, in batches.  A batch may run in the BACKGROUND (the
    interpreted driver is a separate process: it works while the harness generates the next cases); results are always
    compared in the main thread, one driver at a time, and no batch is in flight while a stream forks."""

    def __init__(self, ctx):
        self.ctx, self.lines, self.want, self.err, self.ndis = ctx, [], [], None, 0
        self.drv = core.Driver(DRIVER)
        self.thread, self.inflight = None, None

    def _drive(self, lines, box):
        try:
            box["out"] = self.drv.run(lines)
        except core.DriverError as e:      # remembered; the direct oracle keeps its whole budget
            box["err"] = e
        except BaseException as e:  # noqa: BLE001 - re-raised in the main thread
            box["crash"] = e

    def wait(self):
        """finish the batch in flight (if any) and compare it"""
        if self.thread is not None:
            self.thread.join(600)
            if self.thread.is_alive():
                raise RuntimeError("C17 harness: the Lean driver did not answer within 600 s")
            self.thread = None
        if self.inflight is None:
            return
        want, box = self.inflight
        self.inflight = None
        if "crash" in box:
            raise box["crash"]
        if "err" in box:
            if self.err is None:
                self.err = box["err"]
            return
        self._compare(want, box["out"])

    def flush(self, force=False, background=False, threshold=15000):
        if getattr(self.ctx, "no_driver", False):
            del self.lines[:], self.want[:]
            return
        if not self.lines or (len(self.lines) < threshold and not force):
            return
        self.wait()
        lines, want = self.lines[:], self.want[:]
        del self.lines[:], self.want[:]
        if self.err is not None:
            return
        box = {}
        self.inflight = (want, box)
        if background:
            self.thread = threading.Thread(target=self._drive, args=(lines, box), name="c17-driver")
            self.thread.start()
        else:
            self._drive(lines, box)
            self.wait()

    def _compare(self, want, out):
        ctx = self.ctx
        for w, o in zip(want, out):
            ctx.traces_validated += 1
            if w[0] == "path":
                _, p, exp = w
                if o != exp:
                    ctx.broke("correspondence Frames.basename/stem vs os.path", "path=%r os.path=%s model=%s" % (p, exp, o))
                continue
            impl, replay, fkey, already = w
            if o != impl:
                self.ndis += 1
                ctx.stat("disagreements")
                if self.ndis <= 3:
                    # the oracle has judged the implementation's record on its own; a disagreement here means the
                    # model no longer mirrors the code (broken tie), reported as such
                    ctx.broke("correspondence Frames.logViaMethod/logViaCatch",
                              "replay=%r\n impl =%s\n model=%s" % (replay, impl, o))


class _StopReplay(Exception):
    pass


class RerunCtx:
    """ctx of a replay that re-executes the recorded run (same seed, same tier) up to its first violation: needed when
    the failure depends on state the implementation kept from EARLIER calls of the run (a cache across calls, chains,
    streams), which no isolated case can rebuild"""
    no_driver = True

    def __init__(self, seed, quick, findings):
        self.rng, self.quick, self.violations, self.findings, self.broken = core.Rng(seed), quick, [], findings, []
        self.traces_validated, self.search_boost, self.stats = 0, False, {}

    def n(self, q, t):
        return q if self.quick else t

    def violation(self, what, replay, key=None, kind="oracle"):
        if any(f.get("status") == "known" and key is not None and key == f.get("key") for f in self.findings):
            return False
        self.violations.append({"what": what, "replay": replay, "key": key, "kind": kind})
        raise _StopReplay()

    def case(self, *a, **k):
        pass

    stat = sample = note = broke = case


def rerun_until_first_violation(ctx, rep):
    """returns the first violation of the re-executed run (or None)"""
    r2 = RerunCtx(rep.get("seed", 0), rep.get("tier", "quick") == "quick", getattr(ctx, "findings", []))
    try:
        run(r2)
    except _StopReplay:
        pass
    return r2.violations[0] if r2.violations else None


def run(ctx):
    env = Env()
    corr = Corr(ctx)
    _t = [time.time()]

    def phase(name):
        now = time.time()
        ctx.stat("ms:" + name, int((now - _t[0]) * 1000))
        _t[0] = now
    boost = 4 if getattr(ctx, "search_boost", False) else 1
    try:
        run_corpus(ctx, env, corr.lines, corr.want)
        stream_fallback(ctx, env)
        phase("corpus")
        stream_identity(ctx, env)
        phase("identity")
        stream_identity_mp(ctx, env)
        phase("identity_mp")
        stream_shared(ctx, env, corr)
        phase("shared")
        corr.flush(force=True, background=True)       # nothing forks from here to the end of the product sweeps
        nchains = ctx.n(320, 7000) * boost
        for i in range(nchains):
            crng = ctx.rng.fork("chain%d" % i)
            state = crng.s
            r = ctx.rng.below(100)
            in_thread = r < 12
            foreign = r < 3
            run_chain(ctx, env, state, None, in_thread, foreign, True, corr.lines, corr.want)
            ctx.stat("chains")
            if i < 2 and corr.want:
                ctx.sample({"stream": "chain", "chain_state": state, "model_line": corr.lines[-1][:300],
                            "impl": corr.want[-1][0][:300]})
            corr.flush(background=True, threshold=3000)
            if len(ctx.violations) >= 25:
                break
        phase("chains")
        # exhaustive product of entry points on one short chain per thread kind
        for tag, in_thread in (("product-main", False), ("product-worker", True)):
            prng = ctx.rng.fork(tag)
            run_chain(ctx, env, prng.s, 2, in_thread, False, "product", corr.lines, corr.want)
            corr.flush(background=True, threshold=3000)
        corr.wait()                                  # the streams below fork: no driver thread in flight
        phase("product")
        ctx.exhaustive = True
        ctx.note("exhaustive: methods x derivations x leaves x {0, 1, beyond} on one chain in the main and in a worker thread")
        stream_timezone(ctx, env)
        stream_fork(ctx, env, ctx.n(3, 40))
        cmp_paths = []
        stream_paths(ctx, corr.lines, cmp_paths)
        corr.want.extend(("path", p, exp) for p, exp in cmp_paths)
        phase("tz_fork_paths")
        corr.flush(force=True)
        phase("driver_final")
    except BaseException:
        env.close()
        try:
            corr.wait()        # do not leave a driver process behind while unwinding
        except Exception:  # noqa: BLE001
            pass
        raise
    else:
        env.close()
        corr.wait()
    seen, uniq = set(), []
    for b in ctx.broken:
        if b["name"] not in seen:
            seen.add(b["name"])
            uniq.append(b)
    ctx.broken[:] = uniq
    if corr.err is not None:
        raise corr.err


def _replay_isolated(ctx, rep):
    r = rep["replay"]
    env = Env()
    try:
        if r.get("stream") == "chain":
            print("chain_state=%d nlinks=%r job=%r thread=%s" % (r["chain_state"], r.get("nlinks"), r["job"], r.get("in_thread")))
            lines, cmp_ = [], []
            bad = run_chain(ctx, env, r["chain_state"], r.get("nlinks"), r.get("in_thread", False), r.get("foreign", False),
                            False, lines, cmp_, only_jobs=list(r.get("jobs_before", [])) + [dict(r["job"])], verbose=True)
            if lines:
                try:
                    out = core.Driver(DRIVER).run(lines)
                    print("model:         ", out[-1])
                except core.DriverError as e:
                    print("model:          unavailable (%s)" % str(e).splitlines()[0])
                print("implementation:", cmp_[-1][0])
        else:
            before = len(ctx.violations)
            if r["stream"] == "shared":
                print("scenario:", json.dumps(r["scenario"]))
                nb = run_shared(ctx, env, r["scenario"], verbose=True)
                for v in ctx.violations[before:]:
                    print(v["what"])
                print("REPRODUCED" if nb else "not reproduced")
                return 1 if nb else 0
            if r["stream"] in ("identity", "identity-mp"):
                print("scenario:", json.dumps(r["scenario"]))
                obs = run_identity_inproc(env, r["scenario"]) if r["stream"] == "identity" else run_identity_mp([r["scenario"]])[0]
                for o in obs:
                    print("  call %s: calling (pid, process, tid, thread) = %r  record = %r" % (o.get("at"), o.get("act"), o.get("rec")))
                judge_ops(ctx, obs, {"stream": r["stream"], "scenario": r["scenario"]}, r["stream"])
                for v in ctx.violations[before:]:
                    print(v["what"])
                print("REPRODUCED" if len(ctx.violations) > before else "not reproduced")
                return 1 if len(ctx.violations) > before else 0
            {"witness": lambda: stream_witnesses(ctx, env, only=r.get("program")), "timezone": lambda: stream_timezone(ctx, env), "fork": lambda: stream_fork(ctx, env, 3),
             "fallback": lambda: stream_fallback(ctx, env), "fallback-e2e": lambda: stream_fallback(ctx, env)}[r["stream"]]()
            for v in ctx.violations[before:]:
                print(v["what"])
            bad = len(ctx.violations) > before
    finally:
        env.close()
    print("REPRODUCED" if bad else "not reproduced")
    return 1 if bad else 0


def replay(ctx, rep):
    rc = _replay_isolated(ctx, rep)
    if rc or "seed" not in rep:
        return rc
    print("not reproduced in isolation: the failure may depend on state kept from earlier calls of the run;")
    print("re-executing the recorded run (seed %s, tier %s) up to its first violation ..." % (rep.get("seed"), rep.get("tier")))
    v = rerun_until_first_violation(ctx, rep)
    if v is None:
        print("not reproduced")
        return 0
    print(v["what"])
    print("REPRODUCED (by re-executing the run)")
    return 1
