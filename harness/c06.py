"""C06 – markup: same visible text with or without colour; characters styled by their enclosing tags
(DESIGN §4 C06)."""
import functools
import json
import os
import re
import string
import sysconfig

from harness import core
from harness.core import enc, dec

PROP = "C06"
LEAN_TARGETS = ["LoguruModel.Props.C06"]
AUDIT_FILE = "LoguruModel/Audit/C06.lean"
DRIVER = "C06"
RULE = ("scenarios = (handler format, static or dynamic, level named/custom/re-coloured/numeric, message with "
        "markup logged with opt(colors=True), formatted or raw, arguments containing markup) run on a "
        "colorize=True and a colorize=False handler of one logger; plus markup strings fed to AnsiParser "
        "(structured nestings of every documented tag spelling, escapes with 0-5 backslashes, ~10% malformed; "
        "adversarial strings over a tag/backslash/whitespace alphabet).  Non-trivial = at least 2 nested tags or "
        "an escape, and at least one visible character; distinct by the full input")
TRUSTED = [
    "the harness's own reading of the property: TAG_RE (copy of the documented tag syntax), DOC tables typed from "
    "the docstring of Logger.add, a recursive-descent markup reader and an SGR interpreter (all in harness/c06.py)",
    "str.format / string.Formatter of CPython render the non-message fields (oracle and model treat them as given)",
    "Markup/Format.lean models _string.formatter_parser and str.__format__ for the [[fill]align][0][width][.prec][s] "
    "subset; both are validated against CPython by their own correspondence streams",
]
ASSUMPTIONS = [
    "user text, arguments and record values contain no ESC (U+001B)",
    "level colours consist of opening tags only (no visible text, no braces, no closing tags)",
    "digits in <fg N>/<fg r,g,b> are ASCII; letters in <fg name>/<bg NAME> are ASCII (str.isdigit/lower/upper of "
    "non-ASCII characters are not modelled; see design_notes/C06.md observation O2)",
    "<fg #rgb> is read as the code reads it (#rgb -> #rgbrgb); see design_notes/C06.md observation O1",
]

F10_KEY = "F10-message-field-format-spec"

ANSI_RE = re.compile(r"\x1b\[[0-9;]*m")
TAG_RE = re.compile(r"(\\*)(</?(?:[fb]g\s)?[^<>\s]*>)")

# ------------------------------------------------------------------ documented table (docstring of Logger.add)
_COLORS = [("black", "k"), ("red", "r"), ("green", "g"), ("yellow", "y"), ("blue", "e"), ("magenta", "m"),
           ("cyan", "c"), ("white", "w")]
_STYLES = [("bold", "b", 1), ("dim", "d", 2), ("normal", "n", 22), ("italic", "i", 3), ("underline", "u", 4),
           ("strike", "s", 9), ("reverse", "v", 7), ("blink", "l", 5), ("hide", "h", 8)]
DOC = {}
for _i, (_n, _a) in enumerate(_COLORS):
    DOC[_n] = DOC[_a] = str(30 + _i)
    DOC["light-" + _n] = DOC["l" + _a] = str(90 + _i)
    DOC[_n.upper()] = DOC[_a.upper()] = str(40 + _i)
    DOC["LIGHT-" + _n.upper()] = DOC["L" + _a.upper()] = str(100 + _i)
for _n, _a, _c in _STYLES:
    DOC[_n] = DOC[_a] = str(_c)
FG_NAMES = {k: v for k, v in DOC.items() if 30 <= int(v) <= 37 or 90 <= int(v) <= 97}
BG_NAMES = {k: v for k, v in DOC.items() if 40 <= int(v) <= 47 or 100 <= int(v) <= 107}
LEVEL_TAGS = ("level", "lvl")


def _ascii_digits(s):
    return s != "" and all("0" <= c <= "9" for c in s)


def doc_code(tag):
    """SGR parameter string of a documented tag, 'LEVEL', or None (unknown)."""
    if tag in LEVEL_TAGS:
        return "LEVEL"
    if tag in DOC:
        return DOC[tag]
    if tag[:3] in ("fg ", "bg "):
        fg = tag[0] == "f"
        sel = "38" if fg else "48"
        color = tag[3:]
        if fg and color.lower() in FG_NAMES and color.isascii():
            return FG_NAMES[color.lower()]
        if not fg and color.upper() in BG_NAMES and color.isascii():
            return BG_NAMES[color.upper()]
        if _ascii_digits(color) and int(color) <= 255:
            return "%s;5;%s" % (sel, color)
        if re.fullmatch(r"#[0-9a-fA-F]{6}", color):
            return "%s;2;%d;%d;%d" % (sel, int(color[1:3], 16), int(color[3:5], 16), int(color[5:7], 16))
        if re.fullmatch(r"#[0-9a-fA-F]{3}", color):
            h = color[1:] * 2       # observation O1: the code's reading, not the CSS one
            return "%s;2;%d;%d;%d" % (sel, int(h[0:2], 16), int(h[2:4], 16), int(h[4:6], 16))
        parts = color.split(",")
        if len(parts) == 3 and all(_ascii_digits(p) and int(p) <= 255 for p in parts):
            return "%s;2;%s;%s;%s" % (sel, parts[0], parts[1], parts[2])
    return None


class MarkupError(Exception):
    pass


# ------------------------------------------------------------------ the oracle's reading of markup
def lex(text):
    """[('text', s) | ('open', tag) | ('close', tag)] with the escape rule applied"""
    out, pos = [], 0
    for m in TAG_RE.finditer(text):
        if m.start() > pos:
            out.append(("text", text[pos:m.start()]))
        pos = m.end()
        n, markup = len(m.group(1)), m.group(2)
        if n % 2 == 1:
            out.append(("text", "\\" * (n // 2) + markup))
            continue
        if n:
            out.append(("text", "\\" * (n // 2)))
        if markup[1] == "/":
            out.append(("close", markup[2:-1]))
        else:
            out.append(("open", markup[1:-1]))
    if pos < len(text):
        out.append(("text", text[pos:]))
    return out


def read_nodes(toks, i, open_tag, strict=True):
    """recursive descent: nodes = [str | ('field', ...) | (tag, nodes)]"""
    nodes = []
    while i < len(toks):
        k, v = toks[i][0], toks[i][1]
        if k == "open":
            if doc_code(v) is None:
                raise MarkupError("unknown tag <%s>" % v)
            children, i = read_nodes(toks, i + 1, v, strict)
            nodes.append((v, children))
        elif k == "close":
            if open_tag is None:
                raise MarkupError("closing </%s> without opening" % v)
            if v == "" or v == open_tag:
                return nodes, i + 1
            raise MarkupError("closing </%s> inside <%s>" % (v, open_tag))
        else:
            nodes.append(toks[i])
            i += 1
    if open_tag is not None and strict:
        raise MarkupError("<%s> never closed" % open_tag)
    return nodes, i


def flatten(nodes, stack, emit):
    """emit(leaf_token, stack) for every leaf, in order"""
    for nd in nodes:
        if nd[0] in ("text", "field"):
            emit(nd, stack)
        else:
            flatten(nd[1], stack + (nd[0],), emit)


def codes_of(stack, level_codes):
    out = []
    for t in stack:
        c = doc_code(t)
        if c == "LEVEL":
            out.extend(level_codes)
        else:
            out.append(c)
    return tuple(out)


class Echo:
    """a formatting argument whose __format__ shows the format spec it was given: '[' + spec + ']'"""

    def __format__(self, spec):
        return "[" + spec + "]"

    def __repr__(self):
        return "Echo()"


def mat(kwargs):
    """scenario kwargs are JSON; {"__obj__": …} markers stand for objects with their own __format__"""
    import datetime as _dt
    out = {}
    for k, v in (kwargs or {}).items():
        if isinstance(v, dict) and v.get("__obj__") == "echo":
            out[k] = Echo()
        elif isinstance(v, dict) and v.get("__obj__") == "datetime":
            out[k] = _dt.datetime(2020, 1, 2, 3, 4, 5)
        else:
            out[k] = v
    return out


def read_message(msg, args, kwargs):
    """leaf tokens of a coloured message: literal text is markup, formatted values are plain text"""
    toks = []
    if not args and not kwargs:
        return lex(msg)
    auto = 0
    for lit, field, spec, conv in string.Formatter().parse(msg):
        toks.extend(lex(lit))
        if field is not None:
            if field == "":
                field = str(auto)
                auto += 1
            f = "{" + field + ("!" + conv if conv else "") + (":" + spec if spec else "") + "}"
            toks.append(("text", f.format(*args, **kwargs)))
    return toks


def expected_chars(fmt, record, msg_nodes, level_codes, raw, terminator="\n"):
    """[(char, codes)] the property demands, or raises MarkupError"""
    out = []

    def emit_msg(nd, stack):
        for ch in nd[1]:
            out.append((ch, codes_of(stack, level_codes)))

    if raw:
        flatten(msg_nodes, (), emit_msg)
        return out
    toks = []
    for lit, field, spec, conv in string.Formatter().parse(fmt):
        toks.extend(lex(lit))
        if field is not None:
            toks.append(("field", field, spec, conv))
    nodes, _ = read_nodes(toks, 0, None)

    def emit(nd, stack):
        if nd[0] == "text":
            for ch in nd[1]:
                out.append((ch, codes_of(stack, level_codes)))
        else:
            _, field, spec, conv = nd
            if field == "message" and not spec and not conv and msg_nodes is not None:
                flatten(msg_nodes, stack, emit_msg)
            else:
                f = "{" + field + ("!" + conv if conv else "") + (":" + spec if spec else "") + "}"
                for ch in f.format_map(record):
                    out.append((ch, codes_of(stack, level_codes)))

    flatten(nodes, (), emit)
    for ch in terminator:
        out.append((ch, ()))
    return out


def sgr_chars(s):
    """independent SGR interpreter: every visible character with the parameters in force since the last reset"""
    out, state, pos = [], [], 0
    for m in ANSI_RE.finditer(s):
        for ch in s[pos:m.start()]:
            out.append((ch, tuple(state)))
        params = m.group(0)[2:-1]
        if params in ("0", ""):
            state = []
        else:
            state.append(params)
        pos = m.end()
    for ch in s[pos:]:
        out.append((ch, tuple(state)))
    return out


# ------------------------------------------------------------------ generators
TAG_POOL = sorted(DOC) + ["level", "lvl"]
FORM_POOL = ["fg 86", "fg 255", "bg 42", "bg 9", "fg 0", "fg 007", "fg #00005f", "fg #EE1", "bg #AF5FD7", "bg #fff",
             "fg 0,95,0", "bg 72,119,65", "fg 255,255,255", "fg red", "fg RED", "bg red", "bg LIGHT-CYAN",
             "fg light-blue", "fg le", "bg LC", "fg #aBc", "bg 0,0,0"]
BAD_TAGS = ["fg #+1+2+3", "bg #-a-b-c", "fg #\u0663\u0663\u0663", "fg #\uff11\uff12\uff13", "fg #0x10x20x3", "bg #+f+", "fg #1_2", "foo", "", "fg", "bg ", "fg 256", "fg 1,2", "fg 1,2,3,4", "fg #ffff", "fg #gggggg", "fg  red", "bg 300,1,1",
            "Red", "BOLD", "light-RED", "fg bold", "bg b", "fg K", "bg r,g,b", "fg -1", "fg 1.5", "fg ,,", "LEVEL",
            "tag", "b,", "fg #12345", "fg 1,2,", "fg\tred", "fg\xa0red", "bg\n1"]
TEXTS = ["a", "b", "xy", " ", "é", "[0m", ";", "m", "1", "hello world", "Z", "=", "\t", "/", ">", "&", "[31m", "q"]
LEVEL_COLORS = ["<red>", "<bold>", "<red><bold>", "<fg 12><BLUE>", "", "<lk><u><i>", "<bg #112233>", "  <cyan>  ",
                "<light-green><REVERSE>".replace("REVERSE", "v"), "<fg 1,2,3>"]


def gen_text(rng):
    return rng.choice(TEXTS) if not rng.chance(15) else rng.choice(TEXTS) + rng.choice(TEXTS)


HEX_ALPHABET = list("0123456789abcdefABCDEF") + list("0123456789abcdefABCDEF") + list("+-_ gG\u0663\uff13\u0969xX.")


def gen_hex_candidate(rng, spaces=True):
    """<fg #…>/<bg #…> candidates of (mostly) length 3 and 6 over hex digits, signs, underscores, blanks, non-ASCII
    decimal digits, 'x' – only [0-9a-fA-F]{3} and {6} are colours"""
    n = rng.choice([3, 6, 3, 6, 3, 6, 4, 5, 7, 2])
    body = "".join(rng.choice(HEX_ALPHABET) for _ in range(n))
    if not spaces:
        body = body.replace(" ", "+")
    return rng.choice(["fg #", "bg #"]) + body


def gen_tag(rng):
    k = rng.below(10)
    if k < 6:
        return rng.choice(TAG_POOL)
    if k < 9:
        return rng.choice(FORM_POOL)
    return rng.choice(["level", "lvl", "b", "red"])


def gen_markup(rng, depth, leaf, stats, malformed=False, budget=None):
    """markup text; `leaf(rng)` yields leaf text (plain text or a format field).  Returns (string, nesting, escapes)"""
    budget = budget if budget is not None else [rng.range(1, 7)]
    out, nest, esc = [], 0, 0
    n = rng.range(1, 3)
    for _ in range(n):
        if budget[0] <= 0:
            break
        budget[0] -= 1
        k = rng.below(10)
        if k < 4 or depth >= 4:
            out.append(leaf(rng))
        elif k < 8:
            tag = gen_tag(rng)
            inner, n2, e2 = gen_markup(rng, depth + 1, leaf, stats, malformed, budget)
            nb = 0
            if rng.chance(12):
                nb = rng.choice([2, 4])
                esc += 1
            close = "</>" if rng.chance(30) else "</%s>" % tag
            opening = "<%s>" % tag
            if malformed and rng.chance(25):
                mode = rng.below(5)
                stats("malformed")
                if mode == 0:
                    close = ""
                elif mode == 1:
                    opening = ""
                elif mode == 2:
                    opening = "<%s>" % (rng.choice(BAD_TAGS) if not rng.chance(30) else gen_hex_candidate(rng, spaces=False))
                elif mode == 3:
                    close = "</%s>" % rng.choice(TAG_POOL)
                else:
                    close = close + rng.choice(["</>", "</b>"])
            out.append("\\" * nb + opening + inner + close)
            nest = max(nest, 1 + n2)
            esc += e2
        else:
            nb = rng.choice([1, 3, 5, 1])
            tag = rng.choice([gen_tag(rng), "/" + gen_tag(rng), "/", rng.choice(BAD_TAGS)])
            out.append("\\" * nb + "<%s>" % tag)
            esc += 1
    return "".join(out), nest, esc


ADV = ["<", ">", "/", "\\", "\\\\", " ", "\n", "a", "b", "red", "fg ", "bg ", "#", ",", "1", "255", "<b>", "</b>", "</>",
       "<<", ">>", "\xa0", "é", "<fg 1,2,3>", "<bg #fff>", "<red>", "</red>", "<lvl>", "\\<", "<>", "<fg\t", "g ", "f",
       "<level>", "</level>", " ", "x"]


def gen_adversarial(rng):
    return "".join(rng.choice(ADV) for _ in range(rng.range(0, 9)))


# ------------------------------------------------------------------ implementation access
def impl_parse(text):
    from loguru._colorizer import AnsiParser, TokenType
    p = AnsiParser()
    try:
        p.feed(text)
        toks = p.done()
    except Exception as e:  # noqa
        return ("err", core.err_kind(e))
    out = []
    for t, v in toks:
        if t == TokenType.TEXT:
            out.append("T" + enc(v))
        elif t == TokenType.ANSI:
            out.append("A" + enc(v))
        elif t == TokenType.LEVEL:
            out.append("L")
        elif t == TokenType.CLOSING:
            out.append("C" if v == "\033[0m" else "C?" + enc(v))
        else:
            out.append("?%r" % (t,))
    return ("ok", ",".join(out) if out else "_")


LVL_SEQ = "\x1b[777m"


def enc_chars(chars):
    """[(char, (SGR sequence, …))] as the driver's `tree` op prints it"""
    if not chars:
        return "ok _"
    return "ok " + ",".join("%d/%s" % (ord(c), ";".join(enc(x) for x in st)) for c, st in chars)


def impl_tree(text):
    """the implementation's reading of markup: every visible character of colorize(feed+done) with the SGR
    sequences in force (independent interpreter); `err bad` = feed raised, `err unclosed` = strict done raised"""
    from loguru._colorizer import AnsiParser
    p = AnsiParser()
    try:
        p.feed(text)
    except ValueError:
        return "err bad"
    try:
        toks = p.done()
    except ValueError:
        return "err unclosed"
    colored = AnsiParser.colorize(toks, LVL_SEQ)
    return enc_chars([(c, tuple("\x1b[%sm" % x for x in st)) for c, st in sgr_chars(colored)])


def oracle_tree(text):
    """the harness's own recursive-descent reading (DOC table typed from the docstring)"""
    try:
        nodes, _ = read_nodes(lex(text), 0, None)
    except MarkupError:
        return "err"
    exp = []
    flatten(nodes, (), lambda nd, stack: exp.extend((ch, codes_of(stack, ["777"])) for ch in nd[1]))
    return enc_chars([(c, tuple("\x1b[%sm" % x for x in st)) for c, st in exp])


def sgrstr_expect(s):
    """the harness's SGR interpreter (the oracle's instrument) in the driver's syntax"""
    return enc_chars([(c, tuple("\x1b[%sm" % x for x in st)) for c, st in sgr_chars(s)])


def tree_line(text):
    return "tree %s %s" % (enc(LVL_SEQ), enc(text))


def impl_scan(text):
    from loguru._colorizer import AnsiParser
    pos, segs = 0, []
    for m in AnsiParser._regex_tag.finditer(text):
        segs.append("%s,%d,%s" % (enc(text[pos:m.start()]), len(m.group(1)), enc(m.group(2)[1:-1])))
        pos = m.end()
    segs.append(enc(text[pos:]))
    return " ".join(segs)


def impl_code(tag):
    from loguru._colorizer import AnsiParser
    try:
        r = AnsiParser()._get_ansicode(tag)
    except Exception as e:  # noqa
        return "err " + core.err_kind(e)
    return "none" if r is None else "some " + enc(r)


def impl_ansify(text):
    from loguru._colorizer import Colorizer
    try:
        return "ok " + enc(Colorizer.ansify(text))
    except Exception as e:  # noqa
        return "err " + core.err_kind(e)


def new_logger():
    from loguru._logger import Core, Logger
    return Logger(core=Core(), exception=None, depth=0, record=False, lazy=False, colors=False, raw=False,
                  capture=True, patchers=[], extra={})


_patched = [False]


def speedup():
    """Logger.add builds an ExceptionFormatter which calls sysconfig.get_path 36 times (7 ms): memoise the
    stdlib function for this process (pure during a run; nothing of loguru is replaced)."""
    if not _patched[0]:
        sysconfig.get_path = functools.lru_cache(maxsize=None)(sysconfig.get_path)
        _patched[0] = True


def track_level_op(colors, st):
    """the oracle's own record of every level's current colour: `recolor` = level(name, color=…, icon=…) of an
    existing level (color None keeps it), `newlevel` = level(name, no=…, color=…) creating a level at run time
    (color None = the default: no colour)"""
    if st["op"] == "recolor":
        if st.get("color") is not None:
            colors[st["level"]] = st["color"]
    elif st["op"] == "newlevel":
        colors[st["level"]] = st["color"] if st.get("color") is not None else ""


def apply_rewrite(kind, text):
    """the (idempotent) rewriting of record["message"] a scenario's filter / format function / patcher performs"""
    k = kind[0]
    if k == "replace":
        return text.replace(kind[1], kind[2])
    if k == "const":
        return kind[1]
    if k == "same":
        return str(text)
    if k == "append_once":
        return text if text.endswith(kind[1]) else text + kind[1]
    if k == "restore":          # an earlier handler redacts, a later one puts the original text back: identity overall
        return str(text)
    raise ValueError("rewrite kind %r" % (kind,))


def run_scenario(sc):
    """Execute one scenario on the real loguru.  Returns list of step results:
    ('add-error', kind) or per log step ('ok', colored, plain, record) / ('log-error', kind).
    The compared pair (colorize=True / colorize=False, same format, same filter) may be preceded by an
    `upstream` handler, and record["message"] may be rewritten by a patcher, by the upstream handler's filter or
    format function, or by the pair's own filter / format function (sc["rewrite"])."""
    speedup()
    lg = new_logger()
    results = []
    for name, no, color in sc.get("custom_levels", []):
        lg.level(name, no=no, color=color)
    col, pla, up = [], [], []
    fmt = sc["format"]
    rw = sc.get("rewrite") or {}
    where, kind = rw.get("where"), rw.get("kind")

    saved = []

    def rewriting(record):
        if kind[0] == "restore":
            saved.append(record["message"])
            record["message"] = kind[1]
        else:
            record["message"] = apply_rewrite(kind, record["message"])

    def restoring(record):
        if saved:
            record["message"] = saved[-1]
        return True

    def rw_filter(record):
        rewriting(record)
        return True

    if sc["dynamic"]:
        if where == "pair_format":
            def f1(record, _f=fmt):
                rewriting(record)
                return _f
            f2 = f1
        else:
            f1 = (lambda record, _f=fmt: _f)
            f2 = (lambda record, _f=fmt: _f)
    else:
        f1 = f2 = fmt
    pair_kw = {"filter": rw_filter} if where == "pair_filter" else {}
    ups = sc.get("upstream")
    try:
        if ups:
            ukw = {}
            if where == "upstream_filter":
                ukw["filter"] = rw_filter
            if where == "upstream_format":
                def uf(record, _f=ups["format"]):
                    rewriting(record)
                    return _f
                ukw["format"] = uf
            elif ups.get("dynamic"):
                ukw["format"] = (lambda record, _f=ups["format"]: _f)
            else:
                ukw["format"] = ups["format"]
            lg.add(lambda m: up.append(m), colorize=ups.get("colorize", False), catch=False, level=0, **ukw)
            if where == "upstream_filter" and kind[0] == "restore":
                lg.add(lambda m: up.append(m), format="{message}", colorize=ups.get("colorize", False), catch=False,
                       level=0, filter=restoring)
        pair = [(lambda m: col.append(m), f1, True), (lambda m: pla.append(m), f2, False)]
        if sc.get("order") == "plain_first":
            pair.reverse()
        for sink, f, colorize in pair:
            lg.add(sink, format=f, colorize=colorize, catch=False, level=0, **pair_kw)
    except ValueError as e:
        lg.remove()
        return [("add-error", "ValueError")]
    logger_ = lg.patch(rewriting) if where == "patcher" else lg
    try:
        level_errors = []
        for si, st in enumerate(sc["steps"]):
            if st["op"] in ("recolor", "newlevel"):
                try:
                    if st["op"] == "newlevel":
                        lg.level(st["level"], no=st["no"], color=st.get("color"))
                    elif st.get("color") is None and st.get("icon") is None:
                        lg.level(st["level"], color=lg.level(st["level"]).color)   # re-declared unchanged
                    else:
                        lg.level(st["level"], color=st.get("color"), icon=st.get("icon"))
                except Exception as e:  # noqa
                    level_errors.append(("level-error", core.err_kind(e), si))
                continue
            del col[:], pla[:]
            o = logger_.opt(colors=True, raw=st.get("raw", False))
            if "extra" in sc:
                o = o.bind(**sc["extra"])
            try:
                o.log(st["level"], st["message"], *st.get("args", []), **mat(st.get("kwargs", {})))
            except Exception as e:  # noqa
                results.append(("log-error", core.err_kind(e), len(col), len(pla)))
                continue
            if len(col) != 1 or len(pla) != 1:
                results.append(("count", len(col), len(pla)))
                continue
            results.append(("ok", str(col[0]), str(pla[0]), pla[0].record))
        results.extend(level_errors)      # after the per-log-step entries, so that their indexing is unaffected
    finally:
        lg.remove()
    return results


# ------------------------------------------------------------------ scenario generator
# ------------------------------------------------------------------ several handlers, one level table; copies
_MULTI_OUT = []
NONE_KEY = "\x00"          # the model's name for the key None of levels_ansi_codes (numeric levels)


class KeySink:
    """picklable sink: writes (handler key, text) to a process-wide list"""

    def __init__(self, key):
        self.key = key

    def write(self, m):
        _MULTI_OUT.append((self.key, str(m)))


class DynFmt:
    """picklable callable format"""

    def __init__(self, fmt):
        self.fmt = fmt

    def __call__(self, record):
        return self.fmt


MULTI_FORMATS = ["<level>L</level>", "<red>a<level>b</level>c</red>", "x", "<lvl>p</lvl><b>q</b>", "<b><lvl>z</lvl></b>y",
                 "\\<level>k<lvl>v</>", "<fg 12>n</><level>e</level>", "<lvl><lvl>d</lvl>f</lvl>"]
MULTI_NEW = ["NEW1", "NEW2", "NEW3"]


def gen_multi(rng):
    """a history of add / remove / level(new or re-colour) / log, optionally copied (deepcopy or pickle) in the
    middle: afterwards operations go to the copy, and the original is logged again at the end"""
    ops, ids, nid, levels, copied, at_copy = [], [], 0, list(DEFAULT_LEVEL_COLORS), False, []
    n = rng.range(4, 11)
    for i in range(n):
        k = rng.below(100)
        if k < 30 or not ids:
            ops.append(["add", nid, rng.choice(MULTI_FORMATS), rng.chance(75), rng.chance(35)])
            ids.append(nid)
            nid += 1
        elif k < 38 and len(ids) > 1:
            ops.append(["remove", ids.pop(rng.below(len(ids)))])
        elif k < 60:
            fresh = [x for x in MULTI_NEW if x not in levels]
            if fresh and rng.chance(50):
                name = fresh[0]
                levels.append(name)
                ops.append(["newlevel", name, rng.choice(LEVEL_COLORS + [None, None])])
            else:
                ops.append(["recolor", rng.choice(levels), rng.choice(LEVEL_COLORS)])
        elif k < 70 and not copied and i >= 2:
            copied = True
            at_copy = list(levels)
            ops.append(["copy", rng.choice(["deepcopy", "pickle", "pickle", "copy-core"])])
        else:
            ops.append(["log", rng.choice(levels + [33])])
    for name in [rng.choice(levels), rng.choice(levels)]:
        ops.append(["log", name])
        if copied:
            ops.append(["logorig", name if name in at_copy else rng.choice(at_copy)])
    return ops


def run_multi(ops):
    """execute on real loggers; returns per log op [(handler id, text)] (or ('err', kind))"""
    import copy as _copy
    import pickle as _pickle
    speedup()
    lg = new_logger()
    orig = None
    hid = {}            # scenario id -> loguru handler id
    results = []
    for op in ops:
        try:
            if op[0] == "add":
                fmt = op[2] + "\n"
                hid[op[1]] = lg.add(KeySink(op[1]), format=(DynFmt(fmt) if op[4] else op[2]), colorize=op[3], level=0,
                                    catch=False)
            elif op[0] == "remove":
                lg.remove(hid[op[1]])
            elif op[0] == "newlevel":
                if op[2] is None:
                    lg.level(op[1], no=27)
                else:
                    lg.level(op[1], no=27, color=op[2])
            elif op[0] == "recolor":
                lg.level(op[1], color=op[2])
            elif op[0] == "copy":
                orig = lg
                if op[1] == "deepcopy":
                    lg = _copy.deepcopy(lg)
                elif op[1] == "pickle":
                    lg = _pickle.loads(_pickle.dumps(lg))
                else:                                   # a new Logger around a pickled copy of the core
                    from loguru._logger import Logger
                    lg = Logger(core=_pickle.loads(_pickle.dumps(lg._core)), exception=None, depth=0, record=False,
                                lazy=False, colors=False, raw=False, capture=True, patchers=[], extra={})
            elif op[0] in ("log", "logorig"):
                del _MULTI_OUT[:]
                (orig if op[0] == "logorig" else lg).log(op[1], "m")
                results.append(("ok", list(_MULTI_OUT)))
        except Exception as e:  # noqa
            results.append(("err", core.err_kind(e), op[0]))
            if op[0] not in ("log", "logorig"):
                break
    for x in (lg, orig):
        if x is not None:
            try:
                x.remove()
            except Exception:  # noqa
                pass
    return results


def judge_multi(ctx, ops, results, origin):
    """direct oracle: every handler present prints the visible text of its format, styled by the enclosing tags,
    `<level>` = the CURRENT colour of the record's level in the logger that was called (original and copy keep
    separate level tables after the copy); a non-colourising handler prints the plain text"""
    colors = dict(DEFAULT_LEVEL_COLORS)
    colors_orig = None
    handlers = {}
    handlers_orig = None
    ri = 0
    rep = {"stream": "multi", "ops": ops, "origin": origin}
    nbad = 0
    for op in ops:
        if op[0] == "add":
            handlers[op[1]] = (op[2], op[3], op[4])
        elif op[0] == "remove":
            handlers.pop(op[1], None)
        elif op[0] == "newlevel":
            colors[op[1]] = op[2] if op[2] is not None else ""
        elif op[0] == "recolor":
            colors[op[1]] = op[2]
        elif op[0] == "copy":
            colors_orig, handlers_orig = dict(colors), dict(handlers)
        elif op[0] in ("log", "logorig"):
            if ri >= len(results):
                break
            res = results[ri]
            ri += 1
            cols, hs = (colors_orig, handlers_orig) if op[0] == "logorig" else (colors, handlers)
            what = None
            if res[0] != "ok":
                what = "logging at level %r failed with %s although every handler and level is well-formed" % (op[1], res[1])
            else:
                got = dict(res[1])
                if sorted(got) != sorted(hs) or len(res[1]) != len(hs):
                    what = "handlers that printed: %r, handlers present: %r" % (sorted(k for k, _ in res[1]), sorted(hs))
                else:
                    lc = level_codes_of(cols[op[1]]) if isinstance(op[1], str) else []
                    for k, (fmt, colorize, dynamic) in sorted(hs.items()):
                        exp = expected_chars(fmt, {}, None, lc, False)
                        text = "".join(c for c, _ in exp)
                        out = got[k]
                        if not colorize:
                            if out != text:
                                what = "non-colourising handler %d printed %r, expected %r" % (k, out, text)
                        elif ANSI_RE.sub("", out) != text:
                            what = "colourising handler %d: visible text %r, expected %r" % (k, ANSI_RE.sub("", out), text)
                        elif sgr_chars(out) != exp:
                            bad = next(i for i, (a, b) in enumerate(zip(sgr_chars(out), exp)) if a != b)
                            what = ("handler %d (%s format %r) at level %r whose current colour is %r%s: character %d (%r) "
                                    "carries SGR %r, its enclosing tags give %r; output %r"
                                    % (k, "callable" if dynamic else "static", fmt, op[1], cols.get(op[1], ""),
                                       " (original logger after it was copied)" if op[0] == "logorig" else "",
                                       bad, exp[bad][0], sgr_chars(out)[bad][1], exp[bad][1], out))
                        if what:
                            break
            if what:
                nbad += 1
                ctx.violation("handlers sharing one level table: " + what + "; history %r" % (ops,), rep)
                break
    if ri < len(results) and results[ri][0] == "err" and not nbad:
        nbad += 1
        ctx.violation("handlers sharing one level table: operation %r failed with %s on a well-formed history %r"
                      % (results[ri][2], results[ri][1], ops), rep)
    return nbad


def multi_line(ops, results):
    """the driver line for the model and the implementation's answer in the same syntax (None if some op failed)"""
    init = ",".join("%s;%s" % (enc(k), enc(v)) for k, v in list(DEFAULT_LEVEL_COLORS.items()) + [(NONE_KEY, "")])
    parts, outs, ri = [], [], 0
    hs, hs_orig = [], None
    for op in ops:
        if op[0] == "add":
            parts.append("A;%d;%d;%d;%s" % (op[1], 1 if op[3] else 0, 1 if op[4] else 0, enc(op[2] + "\n")))
            hs.append(op[1])
        elif op[0] == "remove":
            parts.append("R;%d" % op[1])
            hs.remove(op[1])
        elif op[0] == "newlevel":
            parts.append("L;%s;%s" % (enc(op[1]), enc(op[2] or "")))
        elif op[0] == "recolor":
            parts.append("L;%s;%s" % (enc(op[1]), enc(op[2])))
        elif op[0] == "copy":
            parts.append("C")
            hs_orig = list(hs)
        else:
            name = op[1] if isinstance(op[1], str) else NONE_KEY
            parts.append(("G;" if op[0] == "log" else "O;") + enc(name))
            if ri >= len(results):
                return None
            res = results[ri]
            ri += 1
            order = hs_orig if op[0] == "logorig" else hs
            if res[0] != "ok":
                return None
            got = dict(res[1])
            if sorted(got) != sorted(order):
                return None
            outs.append("|".join("ok:" + enc(got[k]) for k in order) if order else "_")
    return "multi %s %s" % (init, ",".join(parts)), (",".join(outs) if outs else "_")


FIELDS = ["{level}", "{level.name}", "{extra[k]}", "{extra[k]!r}", "{extra[k]:>6}", "{level.no:04d}", "{extra[m]}",
          "{{", "}}", "{level.name:^9}", "{extra[k]:{extra[w]}}"]
VALUES = ["v", "<red>", "</>", "\\<b>", "a<b>c</b>", "{", "}", "{message}", "<level>x</level>", "é", "", "<fg 1>"]
SPEC_FIELDS = ["{x:<>6}", "{x:><7}", "{x:<<5}", "{x:>>4}", "{x!r:<>9}", "{e:<b>x</b>}", "{e:<>6}", "{e:\\<b>}", "{e:</>}",
               "{e:<red>}", "{e:a<lvl>b</lvl>}", "{t:%Y <b>x</b> %m}", "{t:%H\\<i>%M}", "{e:\\\\<b>}", "{e:<fg #fff>q</>}",
               "{e!s:<>8}", "{e:{x}}", "{e:<b>{x}</b>}", "{e:<unknown>}", "{e:</b>}"]
F10_FIELDS = ["{message:>10}", "{message:.3}", "{message!r}", "{message!s:<8}", "{message:^12}", "{message:5}"]


def gen_scenario(rng, stats):
    sc = {}
    malformed_fmt = rng.chance(7)
    f10 = rng.chance(4)
    nmsg = [0]

    def leaf(r):
        k = r.below(10)
        if k < 4:
            nmsg[0] += 1
            if f10 and r.chance(60):
                return r.choice(F10_FIELDS)
            return "{message}"
        if k < 7:
            return r.choice(FIELDS)
        return gen_text(r)

    fmt, nest, esc = gen_markup(rng, 0, leaf, stats, malformed=malformed_fmt)
    if nmsg[0] == 0 and rng.chance(80):
        fmt += "{message}" if not f10 else rng.choice(F10_FIELDS)
    # level-history mode: one focus level is logged several times across re-colourings, and the format
    # (static or dynamic) shows the level's colour
    focus_mode = rng.chance(35)
    if focus_mode and not malformed_fmt:
        k = rng.below(4)
        if k == 0:
            fmt = "<level>{level.name}</level> " + fmt
        elif k == 1:
            fmt = "<lvl>" + fmt + "</lvl>"
        elif k == 2:
            fmt = fmt + "<b><level>|</level>{level.no}</b>"
    sc["format"] = fmt
    sc["dynamic"] = rng.chance(50 if focus_mode else 25)
    sc["order"] = "plain_first" if rng.chance(40) else "color_first"
    # who rewrites record["message"] between the call and the compared handlers, if anybody
    if rng.chance(30):
        wheres = ["patcher", "upstream_filter", "upstream_format", "pair_filter"] + (["pair_format"] if sc["dynamic"] else [])
        kind = rng.choice([["replace", "a", "#"], ["replace", "x", ""], ["const", "new <red>text</red> {x}"], ["same"],
                           ["append_once", "!"], ["replace", " ", "_"], ["const", ""], ["same"]])
        sc["rewrite"] = {"where": rng.choice(wheres), "kind": kind}
        if sc["rewrite"]["where"] == "upstream_filter" and kind[0] == "const" and rng.fork("restore").chance(50):
            # a first handler's filter redacts the message, a second handler's filter restores it: when the compared
            # pair looks at the record the text is the coloured message's again, so its colours must be kept
            sc["rewrite"]["kind"] = ["restore", kind[1]]
            stats("scenario:rewrite=redacted-then-restored")
        stats("scenario:rewrite=" + sc["rewrite"]["where"])
    if (sc.get("rewrite") or {}).get("where", "").startswith("upstream") or rng.chance(12):
        sc["upstream"] = {"colorize": rng.chance(50), "dynamic": rng.chance(30),
                          "format": rng.choice(["{message}", "<red>{message}</red>\n", "{level} <lvl>{message}</lvl>", "x"])}
        stats("scenario:upstream-handler")
    sc["extra"] = {"k": rng.choice(VALUES), "m": rng.choice(VALUES), "w": rng.choice([">7", "", "<3", "^9"])}
    sc["custom_levels"] = []
    levels = ["INFO", "WARNING", "DEBUG", "ERROR", 25, 5]
    if rng.chance(40):
        sc["custom_levels"].append(("FOO", rng.range(1, 60), rng.choice(LEVEL_COLORS)))
        levels = ["FOO"] + levels
    steps = []
    focus = rng.choice([l for l in levels if isinstance(l, str)])
    cur = dict(DEFAULT_LEVEL_COLORS)
    cur.update({n: c for n, _no, c in sc["custom_levels"]})
    nnew = 0

    def recolor_step(level):
        """level(name, …) on an existing level: new colour, the SAME colour again, icon only, or nothing at all"""
        k = rng.below(10)
        if k < 6:
            st = {"op": "recolor", "level": level, "color": rng.choice(LEVEL_COLORS)}
        elif k < 8:
            st = {"op": "recolor", "level": level, "color": cur[level]}
        elif k < 9:
            st = {"op": "recolor", "level": level, "color": None, "icon": rng.choice(["@", "!", "é"])}
        else:
            st = {"op": "recolor", "level": level, "color": None}
        track_level_op(cur, st)
        return st

    for _ in range(rng.range(3, 6) if focus_mode else rng.range(1, 3)):
        # levels created at run time, AFTER the handlers exist: with a colour, with colour "", or without any
        if rng.chance(30 if focus_mode else 15):
            nnew += 1
            name = "NEW%d" % nnew
            st = {"op": "newlevel", "level": name, "no": rng.range(0, 60),
                  "color": rng.choice([None, None, "", rng.choice(LEVEL_COLORS), rng.choice(LEVEL_COLORS)])}
            track_level_op(cur, st)
            steps.append(st)
            levels = [name, name] + levels
            if focus_mode and rng.chance(60):
                focus = name
            stats("scenario:newlevel-%s" % ("no-colour" if not st["color"] else "coloured"))
        if focus_mode:
            if steps and rng.chance(45):
                steps.append(recolor_step(focus))
        elif rng.chance(25):
            steps.append(recolor_step(rng.choice([l for l in levels if isinstance(l, str)])))
        malformed_msg = rng.chance(7)
        with_args = rng.chance(35)
        if with_args:
            def mleaf(r):
                k = r.below(12)
                if k < 4:
                    return r.choice(["{}", "{x}", "{x!r}", "{x:>5}", "{{", "}}", "{}"])
                if k < 6:
                    # the format SPEC of an argument is argument text too: never markup
                    stats("scenario:spec-with-markup")
                    return r.choice(SPEC_FIELDS)
                return gen_text(r)
        else:
            def mleaf(r):
                return gen_text(r) if not r.chance(10) else r.choice(["{", "}", "{x}", "{}"])
        msg, n2, e2 = gen_markup(rng, 0, mleaf, stats, malformed=malformed_msg)
        st = {"op": "log", "level": focus if (focus_mode and rng.chance(80)) else rng.choice(levels), "message": msg,
              "raw": rng.chance(12)}
        if with_args:
            nauto = len(re.findall(r"(?<!\{)\{\}", msg.replace("{{", "")))
            st["args"] = [rng.choice(VALUES) for _ in range(nauto)]
            st["kwargs"] = {"x": rng.choice(VALUES), "e": {"__obj__": "echo"}, "t": {"__obj__": "datetime"}}
        st["nest"], st["esc"] = max(nest, n2), esc + e2
        steps.append(st)
    sc["steps"] = steps
    return sc


DEFAULT_LEVEL_COLORS = {"TRACE": "<cyan><bold>", "DEBUG": "<blue><bold>", "INFO": "<bold>", "SUCCESS": "<green><bold>",
                        "WARNING": "<yellow><bold>", "ERROR": "<red><bold>", "CRITICAL": "<RED><bold>"}


def level_codes_of(color):
    """SGR parameter strings of a level colour made of opening tags (ASSUMPTIONS)"""
    out = []
    for k, v in lex(color.strip()):
        if k == "open":
            c = doc_code(v)
            if c is None or c == "LEVEL":
                raise MarkupError("level colour")
            out.append(c)
    return out


def format_has_f10_shape(fmt):
    try:
        for lit, field, spec, conv in string.Formatter().parse(fmt):
            if field == "message" and (spec or conv):
                return True
    except ValueError:
        pass
    return False


def judge_scenario(ctx, sc, results, origin):
    """the direct oracle: returns number of violations reported"""
    colors = dict(DEFAULT_LEVEL_COLORS)
    for name, _no, color in sc.get("custom_levels", []):
        colors[name] = color
    fmt = sc["format"]
    # is the format well-formed according to the oracle's own reading?
    fmt_ok, fmt_syntax_ok = True, True
    try:
        toks = []
        for lit, field, spec, conv in string.Formatter().parse(fmt):
            toks.extend(lex(lit))
            if field is not None:
                toks.append(("field", field, spec, conv))
                if spec:
                    for _l, f2, s2, _c in string.Formatter().parse(spec):
                        if f2 is not None and s2:
                            for _x in string.Formatter().parse(s2):
                                if _x[1] is not None:
                                    fmt_syntax_ok = False
        read_nodes(toks, 0, None)
    except MarkupError:
        fmt_ok = False
    except ValueError:
        fmt_syntax_ok = False
    nviol = 0

    def viol(what, extra=None, key=None):
        nonlocal nviol
        nviol += 1
        rep = {"stream": "scenario", "scenario": sc, "origin": origin}
        rep.update(extra or {})
        ctx.violation(what, rep, key=key)

    if not fmt_syntax_ok:
        ctx.stat("scenario:format-syntax-error")
        return 0          # str.format syntax errors are C05's business
    if results and results[0][0] == "add-error":
        ctx.stat("scenario:add-ValueError")
        if fmt_ok and not sc["dynamic"]:
            viol("add() rejected the well-formed format %r" % fmt)
        return nviol
    if not fmt_ok and not sc["dynamic"]:
        viol("add() accepted the format %r whose markup is unknown/unbalanced/mis-nested" % fmt)
        return nviol
    for r in results:
        if r[0] == "level-error":
            st = sc["steps"][r[2]]
            viol("level(%r, no=%r, color=%r, icon=%r) raised %s on a valid declaration"
                 % (st["level"], st.get("no"), st.get("color"), st.get("icon"), r[1]), {"step": r[2]})
    ri = 0
    for st in sc["steps"]:
        if st["op"] in ("recolor", "newlevel"):
            track_level_op(colors, st)
            continue
        res = results[ri] if ri < len(results) else ("missing",)
        ri += 1
        msg, args, kwargs = st["message"], st.get("args", []), mat(st.get("kwargs", {}))
        try:
            mtoks = read_message(msg, args, kwargs)
        except (ValueError, KeyError, IndexError, AttributeError):
            ctx.stat("scenario:message-format-error")
            continue      # str.format-level failure of the message: outside C06
        try:
            msg_nodes, _ = read_nodes(mtoks, 0, None)
            msg_ok = True
        except MarkupError:
            msg_ok = False
        if not msg_ok:
            ctx.stat("scenario:message-markup-error")
            if res[0] != "log-error" or res[1] != "ValueError":
                viol("logging call accepted the message %r whose markup is unknown/unbalanced/mis-nested: %r"
                     % (msg, res[:3]), {"step": ri - 1})
            continue
        rw = sc.get("rewrite")
        rewritten = False
        if rw and not (rw["where"] == "pair_format" and not sc["dynamic"]):
            leaves = []
            flatten(msg_nodes, (), lambda nd, stack: leaves.append(nd[1]))
            visible = "".join(leaves)
            final = apply_rewrite(rw["kind"], visible)
            if final != visible:
                # record["message"] no longer is the coloured message: it is a record value, printed as it is,
                # styled by the format's tags only
                msg_nodes = [("text", final)]
                rewritten = True
                ctx.stat("scenario:message-rewritten")
            else:
                ctx.stat("scenario:message-rewrite-noop")
        if not fmt_ok and not st.get("raw"):    # dynamic format with bad markup: surfaces at the call
            if res[0] != "log-error":
                viol("dynamic format %r with bad markup did not raise" % fmt, {"step": ri - 1})
            continue
        lvl = st["level"]
        try:
            level_codes = level_codes_of(colors[lvl]) if isinstance(lvl, str) else []
        except MarkupError:
            continue
        if res[0] != "ok":
            # a field the record cannot render (bad spec for the value) fails in both handlers: C05
            if res[0] == "log-error" and res[1] in ("ValueError", "KeyError", "TypeError", "IndexError", "AttributeError") \
                    and not st.get("raw") and _format_fails(fmt, st, sc):
                ctx.stat("scenario:format-runtime-error")
                continue
            if res[0] == "log-error" and format_has_f10_shape(fmt):
                ctx.stat("scenario:f10-shape-error")
                continue
            ops = [(x["op"], x["level"], x.get("no"), x.get("color")) for x in sc["steps"] if x["op"] != "log"]
            viol("logging call at level %r failed on well-formed input: %r (%s format %r, message %r, level "
                 "declarations after add(): %r)" % (lvl, res[:2], "callable" if sc["dynamic"] else "static", fmt, msg, ops),
                 {"step": ri - 1})
            continue
        _, colored, plain, record = res
        ctx.stat("scenario:log-ok")
        f10 = (not st.get("raw")) and format_has_f10_shape(fmt)
        key = F10_KEY if f10 else None
        if ANSI_RE.sub("", colored) != plain:
            viol("visible text differs: colorize=True prints %r (ANSI removed: %r), colorize=False prints %r; "
                 "format %r, message %r%s" % (colored, ANSI_RE.sub("", colored), plain, fmt, msg,
                                              (", record['message'] rewritten by %s" % rw["where"]) if rewritten else ""),
                 {"step": ri - 1, "expected": plain, "observed": ANSI_RE.sub("", colored)}, key=key)
            continue
        try:
            exp = expected_chars(fmt, record, msg_nodes, level_codes, st.get("raw", False),
                                 terminator="" if (sc["dynamic"] or st.get("raw")) else "\n")
        except (ValueError, KeyError, IndexError, AttributeError, TypeError):
            ctx.stat("scenario:oracle-format-error")
            continue
        got = sgr_chars(colored)
        exp_text = "".join(c for c, _ in exp)
        if exp_text != plain:
            if f10:
                ctx.stat("scenario:f10-shape-plain")
            else:
                viol("colorize=False handler prints %r, the property's reading of format %r / message %r gives %r"
                     % (plain, fmt, msg, exp_text), {"step": ri - 1, "expected": exp_text, "observed": plain})
            continue
        if got != exp:
            i = next((j for j, (a, b) in enumerate(zip(got, exp)) if a != b), min(len(got), len(exp)))
            viol("character %d (%r) of the colourised output carries SGR %r, its enclosing tags give %r; "
                 "format %r, message %r, level %r, output %r"
                 % (i, exp[i][0] if i < len(exp) else None, got[i][1] if i < len(got) else None,
                    exp[i][1] if i < len(exp) else None, fmt, msg, lvl, colored),
                 {"step": ri - 1, "index": i}, key=key)
    return nviol


def _format_fails(fmt, st, sc):
    """does Python's own str.format fail on the markup-free format with plausible values?"""
    try:
        plain = "".join(t[1] for t in lex_plain(fmt))
        rec = {"message": "m", "level": _Lvl(), "extra": sc.get("extra", {})}
        plain.format_map(rec)
        return False
    except Exception:  # noqa
        return True


class _Lvl:
    name, no, icon = "INFO", 20, "i"

    def __format__(self, spec):
        return format("INFO", spec)


def lex_plain(fmt):
    out = []
    for lit, field, spec, conv in string.Formatter().parse(fmt):
        for k, v in lex(lit):
            if k == "text":
                out.append((k, v.replace("{", "{{").replace("}", "}}")))
        if field is not None:
            out.append(("text", "{" + field + ("!" + conv if conv else "") + (":" + spec if spec else "") + "}"))
    return out


# ------------------------------------------------------------------ handler-level correspondence lines
def enc_list(xs):
    return ",".join(xs) if xs else "_"


def pair_lines(sc, results):
    """driver lines `pair …` for the log steps of a scenario the handler-level model covers, with what the
    implementation did: [(line, impl_string, step_index)]"""
    rewritten = bool(sc.get("rewrite"))    # then: driver op `pairw` (model `emitOne`: the per-handler drop rule)
    fmt = sc["format"] if sc["dynamic"] else sc["format"] + "\n{exception}"
    try:
        chunks = list(string.Formatter().parse(fmt))
    except ValueError:
        return []
    enc_chunks = []
    for lit, field, spec, conv in chunks:
        if field is None:
            enc_chunks.append("%s;N" % enc(lit))
        else:
            if "{" in spec or (field == "message" and conv):
                return []
            enc_chunks.append("%s;F;%s;%s;%s" % (enc(lit), enc(field), enc(conv or ""), enc(spec)))
    colors = dict(DEFAULT_LEVEL_COLORS)
    for name, _no, color in sc.get("custom_levels", []):
        colors[name] = color
    out = []
    if results and results[0][0] == "add-error":
        out.append(("pair %s M%s - _" % (enc_list(enc_chunks), enc("x")), "err " + results[0][1], None))
        return out
    ri = 0
    for st in sc["steps"]:
        if st["op"] in ("recolor", "newlevel"):
            track_level_op(colors, st)
            continue
        res = results[ri] if ri < len(results) else ("missing",)
        ri += 1
        if st.get("raw"):
            continue
        msg, args, kwargs = st["message"], st.get("args", []), mat(st.get("kwargs", {}))
        feeds = []
        try:
            if not args and not kwargs:
                feeds.append("M" + enc(msg))
            else:
                auto = 0
                for lit, field, spec, conv in string.Formatter().parse(msg):
                    feeds.append("M" + enc(lit))
                    if field is not None:
                        if field == "":
                            field = str(auto)
                            auto += 1
                        if "{" in spec:
                            raise ValueError("nested")
                        f = "{" + field + ("!" + conv if conv else "") + (":" + spec if spec else "") + "}"
                        feeds.append("R" + enc(f.format(*args, **kwargs)))
        except (ValueError, KeyError, IndexError, AttributeError):
            continue
        color = colors[st["level"]] if isinstance(st["level"], str) else ""
        if res[0] == "ok":
            rec = dict(res[3])
            rec["exception"] = ""
            vals = []
            try:
                for lit, field, spec, conv in chunks:
                    if field is not None and field != "message":
                        f = "{" + field + ("!" + conv if conv else "") + (":" + spec if spec else "") + "}"
                        vals.append(enc(f.format_map(rec)))
            except Exception:  # noqa
                continue
            impl = "ok %s %s" % (enc(res[1]), enc(res[2]))
        elif res[0] == "log-error" and res[1] == "ValueError":
            vals = [enc("v") for c in chunks if c[1] is not None and c[1] != "message"]
            impl = "err ValueError"
        else:
            continue
        if rewritten:
            if res[0] != "ok":
                continue
            # record["message"] as the pair found it: a record value like the other fields (given to the model)
            out.append(("pairw %s %s %s %s %s" % (enc_list(enc_chunks), enc_list(feeds), enc(color), enc_list(vals),
                                                  enc(str(res[3]["message"]))), impl, ri - 1))
        else:
            out.append(("pair %s %s %s %s" % (enc_list(enc_chunks), enc_list(feeds), enc(color), enc_list(vals)), impl, ri - 1))
    return out


# ------------------------------------------------------------------ the check
F10_WITNESS = {"format": "[{message:>10}]", "dynamic": False, "extra": {}, "custom_levels": [],
               "steps": [{"op": "log", "level": "INFO", "message": "<red>ab</red>", "raw": False}]}

CORPUS_PARSE = [
    "<red>a</red>", "\\<b>x", "\\\\<b>x</b>", "\\\\\\<b>", "<b><red>x</b></red>", "</>", "<b>x</>y", "<a <b>c</b>",
    "<fg 12>a</fg 12>", "<fg #EE1>x</>", "<bg 1,2,3>z</bg 1,2,3>", "<lvl>q</lvl>", "<>", "</b>", "<b>", "<fg\t1>x</>",
    "<b><i>x</i>y</b>z", "<red>a<bold>b</bold>c</red>", "<fg 256>", "x\\", "\\\\", "<b\n>", "<b>\xa0</b>", "<<b>>x</b>",
]


def run(ctx):
    # core.Rng(seed) streams of neighbouring seeds are shifts of one another (state = seed*K + c, step K):
    # derive the stream through the hash-based fork so that seeds 0,1,2… give unrelated runs
    rng = ctx.rng.fork("C06")
    drv = core.Driver(DRIVER)
    import time as _time
    marks = [("start", _time.time())]
    boost = 2 if getattr(ctx, "search_boost", False) else 1
    lines, expect = [], []     # driver lines and (what, impl_result, replay)

    def add_line(line, what, impl, replay):
        lines.append(line)
        expect.append((what, impl, replay))

    def add_tree(text):
        # tree equivalence (`tree_equivalence`): the Lean reference reader against the implementation's styled
        # characters, and against the harness's own recursive-descent oracle
        if "\x1b" in text:
            return
        ctx.stat("tree:lines")
        add_line(tree_line(text), "tree", impl_tree(text), {"stream": "tree", "text": text, "oracle": oracle_tree(text)})
        if ctx.stats.get("tree:lines", 0) % 5 == 0 or not ctx.quick:
            # `printed_string_styles_eq_enclosing_tags`: the Lean reading of the printed STRING vs the harness's
            from loguru._colorizer import AnsiParser
            p_ = AnsiParser()
            try:
                p_.feed(text)
                colored = AnsiParser.colorize(p_.done(), LVL_SEQ)
            except ValueError:
                return
            ctx.stat("sgrstr:lines")
            add_line("sgrstr " + enc(colored), "sgrstr", sgrstr_expect(colored), {"stream": "sgrstr", "text": colored})

    # ---- known finding F10: probe its witness on every run
    res = run_scenario(F10_WITNESS)
    ctx.case(("witness", "F10"))
    if res and res[0][0] == "ok":
        colored, plain = res[0][1], res[0][2]
        vis = ANSI_RE.sub("", colored)
        if vis != plain:
            key = F10_KEY if (vis == "[ab]\n" and plain == "[        ab]\n") else None
            ctx.violation("format '[{message:>10}]' with opt(colors=True) message '<red>ab</red>': colorize=True prints "
                          "%r (ANSI removed), colorize=False prints %r" % (vis, plain),
                          {"stream": "scenario", "scenario": F10_WITNESS, "origin": "F10-witness", "step": 0,
                           "expected": plain, "observed": vis}, key=key)
        else:
            ctx.note("F10 witness no longer reproduces (format spec on {message} now applied to the visible text)")
    else:
        ctx.violation("F10 witness scenario did not run: %r" % (res,),
                      {"stream": "scenario", "scenario": F10_WITNESS, "origin": "F10-witness", "step": 0})

    # ---- observations (not violations; see design_notes)
    if impl_code("fg ٣") != "none":
        ctx.stat("observation:O2-non-ascii-digit-accepted")
    if impl_code("fg #EE1") == "some " + enc("\x1b[38;2;238;30;225m"):
        ctx.stat("observation:O1-hex3-read-as-rgbrgb")

    # ---- stream 0: corpus (files first, then the inline parser corpus)
    cdir = os.path.join(core.VERIF, "corpus", PROP)
    for fn in sorted(os.listdir(cdir)) if os.path.isdir(cdir) else []:
        if fn.endswith(".json"):
            item = json.load(open(os.path.join(cdir, fn), encoding="utf8"))
            if item.get("stream") == "scenario":
                sc0 = item["scenario"]
                sc0["custom_levels"] = [tuple(x) for x in sc0.get("custom_levels", [])]
                res0 = run_scenario(sc0)
                judge_scenario(ctx, sc0, res0, "corpus:" + fn)
                for line, impl, step in pair_lines(sc0, res0):
                    add_line(line, line.split(" ", 1)[0], impl, {"stream": "scenario", "scenario": sc0, "origin": "corpus:" + fn, "step": step})
                ctx.case(("corpus", fn), nontrivial=True)
                ctx.stat("corpus:scenario")
            elif item.get("stream") == "multi":
                ops0 = item["ops"]
                res0 = run_multi(ops0)
                judge_multi(ctx, ops0, res0, "corpus:" + fn)
                ml0 = multi_line(ops0, res0)
                if ml0 is not None:
                    add_line(ml0[0], "multi", ml0[1], {"stream": "multi", "ops": ops0, "origin": "corpus:" + fn})
                ctx.case(("corpus", fn), nontrivial=True)
                ctx.stat("corpus:multi")
            elif item.get("stream") == "parse":
                CORPUS_PARSE.append(item["text"])
    for text in CORPUS_PARSE:
        judge_parse(ctx, text, "corpus")
        add_line("parse " + enc(text), "parse", impl_parse(text), {"stream": "parse", "text": text})
        add_line("scan " + enc(text), "scan", impl_scan(text), {"stream": "scan", "text": text})
        add_tree(text)

    marks.append(("stream 1", _time.time()))
    # ---- stream 1: structured markup strings -> AnsiParser vs model, and vs the oracle reader
    n1 = ctx.n(6000, 120000) * boost
    for i in range(n1):
        text, nest, esc = gen_markup(rng, 0, lambda r: gen_text(r), ctx.stat, malformed=rng.chance(12))
        vis = judge_parse(ctx, text, "structured")
        ctx.case(("parse", text), nontrivial=((nest >= 2 or esc > 0) and vis))
        ctx.stat("parse:structured")
        ctx.stat("parse:nest=%d" % min(nest, 5))
        if esc:
            ctx.stat("parse:with-escape")
        r = impl_parse(text)
        if i < 2:
            ctx.sample({"stream": "parse", "text": text, "impl": r})
        add_line("parse " + enc(text), "parse", r, {"stream": "parse", "text": text})
        add_tree(text)

    marks.append(("stream 2", _time.time()))
    # ---- stream 2: adversarial strings -> regex vs scanner, parser vs model
    n2 = ctx.n(6000, 120000) * boost
    for i in range(n2):
        text = gen_adversarial(rng)
        judge_parse(ctx, text, "adversarial")
        ctx.case(("adv", text), nontrivial=(text.count("<") >= 2 and "\\" in text))
        ctx.stat("parse:adversarial")
        add_line("scan " + enc(text), "scan", impl_scan(text), {"stream": "scan", "text": text})
        add_line("parse " + enc(text), "parse", impl_parse(text), {"stream": "parse", "text": text})
        if i % 3 == 0 or not ctx.quick:
            add_tree(text)

    marks.append(("stream 3", _time.time()))
    # ---- stream 3: _get_ansicode on every documented tag, every fg/bg form, bad tags, and ansify
    tags = list(TAG_POOL) + FORM_POOL + BAD_TAGS
    for n in ([0, 1, 9, 10, 99, 100, 254, 255, 256, 300, 1000] if ctx.quick else range(0, 300)):
        tags += ["fg %d" % n, "bg %d" % n, "fg %d,%d,%d" % (n, 255 - n % 256, n // 2), "bg 0,%d,255" % n]
    for _ in range(ctx.n(200, 5000)):
        h = "".join(rng.choice("0123456789abcdefABCDEFg") for _ in range(rng.choice([3, 6, 6, 3, 4, 5, 7])))
        tags.append(rng.choice(["fg #", "bg #"]) + h)
        tags.append(rng.choice(["fg ", "bg "]) + rng.choice(sorted(DOC)))
        tags.append(rng.choice(["fg ", "bg "]) + rng.choice(sorted(DOC)).swapcase())
        tags.append(gen_hex_candidate(rng))
        tags.append(gen_hex_candidate(rng))
    for tag in tags:
        got = impl_code(tag)
        ctx.case(("code", tag))
        ctx.stat("code")
        exp = doc_code(tag)
        exp_s = "none" if exp in (None, "LEVEL") else "some " + enc("\x1b[" + exp + "m")
        if got != exp_s:
            ctx.violation("tag <%s>: documented code %r, implementation gives %r" % (tag, exp_s if exp is None else exp,
                                                                                   dec(got[5:]) if got.startswith("some ") else got),
                          {"stream": "code", "tag": tag, "expected": exp_s, "observed": got})
        add_line("code " + enc(tag), "code", got, {"stream": "code", "tag": tag})
    for color in LEVEL_COLORS + ["<red>x", "<b></b>", "</b>", "<foo>", " <level> ", "\\<red>"]:
        add_line("ansify " + enc(color), "ansify", impl_ansify(color), {"stream": "ansify", "text": color})

    marks.append(("stream 4", _time.time()))
    # ---- stream 4: `\s` of the regex engine vs the model's whitespace set
    cps = (list(range(0, 0x2100)) + list(range(0x2FF0, 0x3010)) + [0xFEFF, 0xE000, 0x1F600, 0x10FFFF]) if ctx.quick \
        else list(range(0, 0x110000))
    ws_re = re.compile(r"\s")
    for cp in cps:
        if 0xD800 <= cp <= 0xDFFF:
            continue
        add_line("ws %d" % cp, "ws", "1" if ws_re.match(chr(cp)) else "0", {"stream": "ws", "cp": cp})
    ctx.stat("ws:codepoints", len(cps))

    marks.append(("stream 5", _time.time()))
    # ---- stream 5: handler scenarios judged by the direct oracle
    n5 = ctx.n(4000, 60000) * boost
    for i in range(n5):
        sub = rng.fork("sc%d" % i)
        sc = gen_scenario(sub, ctx.stat)
        results = run_scenario(sc)
        judge_scenario(ctx, sc, results, "generated")
        for line, impl, step in pair_lines(sc, results):
            ctx.stat(line.split(" ", 1)[0] + ":lines")
            add_line(line, line.split(" ", 1)[0], impl, {"stream": "scenario", "scenario": sc, "origin": "pair", "step": step})
        logs = [s for s in sc["steps"] if s["op"] == "log"]
        nt = any((s["nest"] >= 2 or s["esc"] > 0) for s in logs) and any(r[0] == "ok" and r[2].strip() for r in results)
        ctx.case(("scenario", repr(sc)), nontrivial=nt)
        ctx.stat("scenario")
        ctx.stat("scenario:dynamic" if sc["dynamic"] else "scenario:static")
        for s in sc["steps"]:
            if s["op"] == "recolor":
                ctx.stat("scenario:recolor")
            elif s["op"] == "newlevel":
                ctx.stat("scenario:newlevel")
            else:
                ctx.stat("scenario:level=%s" % ("numeric" if not isinstance(s["level"], str) else
                                                ("custom" if s["level"] == "FOO" else
                                                 ("created-at-run-time" if s["level"].startswith("NEW") else "named"))))
                if s.get("raw"):
                    ctx.stat("scenario:raw")
                if s.get("args") or s.get("kwargs"):
                    ctx.stat("scenario:with-args")
        if i < 3:
            ctx.sample({"stream": "scenario", "scenario": sc,
                        "impl": [r[:3] for r in results]})

    marks.append(("stream 5b", _time.time()))
    # ---- stream 5b: several handlers on one core (added / removed between level declarations), loggers copied
    for i in range(ctx.n(700, 12000) * boost):
        sub = rng.fork("multi%d" % i)
        ops = gen_multi(sub)
        res = run_multi(ops)
        judge_multi(ctx, ops, res, "generated")
        ctx.case(("multi", repr(ops)), nontrivial=(sum(1 for o in ops if o[0] == "add") >= 2
                                                   and any(o[0] in ("recolor", "newlevel") for o in ops)))
        ctx.stat("multi")
        for o in ops:
            ctx.stat("multi:" + o[0] + (":" + o[1] if o[0] == "copy" else ""))
        ml = multi_line(ops, res)
        if ml is not None:
            add_line(ml[0], "multi", ml[1], {"stream": "multi", "ops": ops, "origin": "multi"})
        if i < 2:
            ctx.sample({"stream": "multi", "ops": ops, "impl": res})

    marks.append(("stream 6", _time.time()))
    # ---- stream 6: models of CPython pieces: re.sub(ANSI_RE) vs Spec.unansi, str.__format__ vs strFormat
    UA = ["\x1b", "[", "0", "31", ";", "m", "a", "\x1b[", "\x1b[0m", "\x1b[38;5;1m", "x", "[m", "\x1b[m", "M", " ", "1;", "\x1b\x1b["]
    for i in range(ctx.n(1500, 40000)):
        t = "".join(rng.choice(UA) for _ in range(rng.range(0, 8)))
        add_line("unansi " + enc(t), "unansi", enc(ANSI_RE.sub("", t)), {"stream": "unansi", "text": t})
        if i % 2 == 0:
            add_line("sgrstr " + enc(t), "sgrstr", sgrstr_expect(t), {"stream": "sgrstr", "text": t})
    for i in range(ctx.n(600, 20000)):
        spec = rng.choice(["", "x", "*", " "]) + rng.choice(["<", ">", "^", "", ""]) + rng.choice(["", "1", "5", "10", "12", "3"]) \
            + rng.choice(["", "", ".0", ".2", ".5", "."]) + rng.choice(["", "", "s", "d", "x"])
        val = rng.choice(["", "a", "ab", "hello", "\x1b[31mab\x1b[0m", "é<>", "abcdefghijkl"])
        try:
            r = "ok " + enc(format(val, spec))
        except ValueError:
            r = "err ValueError"
        add_line("sfmt %s %s" % (enc(spec), enc(val)), "sfmt", r, {"stream": "sfmt", "spec": spec, "text": val})
    if F10_WITNESS:
        add_line("pair %s;F;%s;-;%s,%s;F;%s;-;- M%s %s %s" % (enc("["), enc("message"), enc(">10"), enc("]\n"), enc("exception"),
                 enc("<red>ab</red>"), enc("<bold>"), enc("")), "pair", "ok %s %s" % (enc("[\x1b[31mab\x1b[0m]\n"), enc("[        ab]\n")),
                 {"stream": "scenario", "scenario": F10_WITNESS, "origin": "F10-witness-model", "step": 0})

    # ---- run the model
    marks.append(("driver", _time.time()))
    out = drv.run(lines)
    marks.append(("compare", _time.time()))
    ctx.note("timing (s) before " + ", ".join("%s: %.1f" % (n, t - marks[0][1]) for n, t in marks[1:])
             + "; driver lines: %d" % len(lines))
    ndis = 0
    for (what, impl, rep), o in zip(expect, out):
        ctx.traces_validated += 1
        impl_s = impl if isinstance(impl, str) else ("ok " + impl[1] if impl[0] == "ok" else "err " + impl[1])
        if what in ("pair", "pairw", "sfmt") and o == "err Other":
            ctx.stat(what + ":outside-model")      # spec outside the modelled str.__format__ subset
            if what == "sfmt" and impl_s.startswith("ok") and rep["spec"][-1:] not in ("d", "x") and "0" != rep["spec"][:1]:
                pass
            continue
        if what == "sfmt" and impl_s == "err ValueError" and o.startswith("err"):
            continue
        if what == "tree" and (o[:3] if rep["oracle"] == "err" else o) != rep["oracle"]:
            ctx.broke("spec Markup.tree vs the harness's recursive-descent oracle",
                      "%r: oracle %s, Lean reference %s" % (rep["text"], rep["oracle"], o))
        if impl_s != o:
            ndis += 1
            ctx.stat("disagreements")
            if ndis <= 5:
                ctx.broke("correspondence Markup." + what, "%r: impl %s, model %s" % (rep, impl_s, o))
            if what in ("parse", "code", "scan", "ansify", "pair", "pairw", "tree", "multi"):
                rep2 = dict(rep)
                rep2.update({"expected": o, "observed": impl_s})
                ctx.violation("implementation and model disagree on %s(%r): impl %s, model %s"
                              % (what, rep.get("text", rep.get("tag", rep.get("scenario", rep.get("ops")))), impl_s, o), rep2,
                              kind="correspondence")
            if ndis > 20:
                break
    seen, uniq = set(), []
    for b in ctx.broken:
        if b["name"] not in seen:
            seen.add(b["name"])
            uniq.append(b)
    ctx.broken[:] = uniq


def judge_parse(ctx, text, origin):
    """direct oracle on AnsiParser alone: ValueError exactly on unknown/unbalanced/mis-nested markup; the strip of
    the tokens equals the oracle's visible text; SGR states of colorize() equal the enclosing tags.
    Returns True when there is at least one visible character."""
    from loguru._colorizer import AnsiParser
    toks = lex(text)
    try:
        nodes, _ = read_nodes(toks, 0, None)
        ok = True
    except MarkupError:
        ok = False
    p = AnsiParser()
    try:
        p.feed(text)
        tokens = p.done()
        impl_ok = True
    except ValueError:
        impl_ok = False
    if ok != impl_ok:
        ctx.violation("markup %r is %s by the property's reading but the parser %s" %
                      (text, "well-formed" if ok else "unknown/unbalanced/mis-nested",
                       "raised ValueError" if not impl_ok else "accepted it"),
                      {"stream": "parse-oracle", "text": text, "expected": "ok" if ok else "ValueError",
                       "observed": "ok" if impl_ok else "ValueError"})
        return False
    if not ok:
        ctx.stat("parse:ValueError")
        return False
    exp = []
    flatten(nodes, (), lambda nd, stack: exp.extend((ch, codes_of(stack, ["LVL"])) for ch in nd[1]))
    stripped = AnsiParser.strip(tokens)
    colored = AnsiParser.colorize(tokens, "\x1b[LVLm".replace("LVL", "777"))
    exp = [(c, tuple("777" if x == "LVL" else x for x in st)) for c, st in exp]
    exp_text = "".join(c for c, _ in exp)
    if stripped != exp_text or ANSI_RE.sub("", colored) != exp_text:
        ctx.violation("markup %r: visible text should be %r, strip gives %r, colorize without ANSI gives %r"
                      % (text, exp_text, stripped, ANSI_RE.sub("", colored)),
                      {"stream": "parse-oracle", "text": text, "expected": exp_text, "observed": stripped})
    elif sgr_chars(colored) != exp:
        ctx.violation("markup %r: colourised %r does not style each character by its enclosing tags" % (text, colored),
                      {"stream": "parse-oracle", "text": text, "expected": repr(exp), "observed": repr(sgr_chars(colored))})
    return bool(exp_text.strip())


def replay(ctx, rep):
    r = rep["replay"]
    stream = r.get("stream")
    if stream == "scenario":
        sc = r["scenario"]
        results = run_scenario(sc)
        for res in results:
            print("implementation:", tuple(res[:3]))
        n = judge_scenario(ctx, sc, results, "replay")
        bad = n > 0 or bool(ctx.known_hits)
        for v in ctx.violations[:3]:
            print("violation:", v["what"])
        for f, what in ctx.known_hits:
            print("known finding %s: %s" % (f["id"], what))
        print("REPRODUCED" if bad else "not reproduced")
        return 1 if bad else 0
    if stream == "multi":
        ops = r["ops"]
        res = run_multi(ops)
        for x in res:
            print("implementation:", x)
        n = judge_multi(ctx, ops, res, "replay")
        ml = multi_line(ops, res)
        if ml is not None:
            model = core.Driver(DRIVER).run([ml[0]])[0]
            print("model:         ", model)
            if model != ml[1]:
                n += 1
                print("implementation and model disagree")
        for v in ctx.violations[:3]:
            print("violation:", v["what"])
        print("REPRODUCED" if n else "not reproduced")
        return 1 if n else 0
    if stream == "parse-oracle":
        judge_parse(ctx, r["text"], "replay")
        for v in ctx.violations[:3]:
            print("violation:", v["what"])
        bad = bool(ctx.violations)
        print("REPRODUCED" if bad else "not reproduced")
        return 1 if bad else 0
    if stream in ("parse", "scan", "code", "ansify", "tree"):
        key = "tag" if stream == "code" else "text"
        arg = r[key]
        impl = {"parse": impl_parse, "scan": impl_scan, "code": impl_code, "ansify": impl_ansify,
                "tree": impl_tree}[stream](arg)
        impl_s = impl if isinstance(impl, str) else ("ok " + impl[1] if impl[0] == "ok" else "err " + impl[1])
        model = core.Driver(DRIVER).run([tree_line(arg) if stream == "tree" else "%s %s" % (stream, enc(arg))])[0]
        print("%s(%r)" % (stream, arg))
        print("implementation:", impl_s)
        print("model:         ", model)
        if stream == "code":
            exp = doc_code(arg)
            exp_s = "none" if exp in (None, "LEVEL") else "some " + enc("\x1b[" + exp + "m")
            print("documented:    ", exp_s)
            bad = impl_s != exp_s or impl_s != model
        else:
            bad = impl_s != model
        print("REPRODUCED" if bad else "not reproduced")
        return 1 if bad else 0
    print("unknown replay stream %r" % (stream,))
    return 2
