"""C12 – extra layering, contextualize() isolation, immutability of derived loggers (DESIGN §4 C12).

Streams
  prog/threads   random programmes over configure | bind | patch | opt | enter | exit | raise | log |
                 spawn | add/remove handler executed by REAL threads; the interleaving is the one chosen
                 by ctx.rng (one operation at a time is released through threading.Event hand-over)
  prog/asyncio   the same programmes executed by asyncio tasks of one loop; every operation is an
                 `await` on a per-step future which a driver coroutine resolves in the PRNG-chosen order
  cv             pure `contextvars` programmes (set/reset/get/copy_context/Context()) against
                 Py/ContextVars.lean
  hprog          the single-core programmes translated to OBJECT-LEVEL operations (Context/Heap.lean: dict objects
                 with identity, the caller's in-place mutations are operations): final contents of core.extra, of
                 every logger's bound dict and of every record's extra, model vs the real objects
  mprog          programmes that deep-copy loggers (several cores, one ContextVar) against Context/Multi.lean
  sinktasks      coroutine sinks (loop=None / loop=<loop>) whose bodies use contextualize() and log re-entrantly;
                 several sink tasks (created by the LIBRARY, one per message) interleaved step by step; judged by Spec
                 and by the Lean model through the equivalent programme (sink task = context copied at the emission)
Every delivered record / patcher call is compared (a) with an independent executable specification of
the property (`Spec`, below: layers and *open blocks*, no tokens) – the direct oracle – and (b) with
the Lean model (Context/Model.lean through drivers/C12.lean) – the correspondence.  After EVERY
operation the `_options` of every logger created so far and the `extra` of every record delivered so
far are re-read and compared with the deep snapshot taken when they were created (aliasing).
"""
import asyncio
import contextlib
import contextvars
import json
import os
import threading

from harness import core

PROP = "C12"
LEAN_TARGETS = ["LoguruModel.Props.C12"]
AUDIT_FILE = "LoguruModel/Audit/C12.lean"
DRIVER = "C12"
RULE = ("one case = one programme (a global trace of (execution context, operation) pairs, <= 40 operations, "
        "<= 4 contexts, 5 overlapping keys, values unique per operation so the layer of origin is visible) "
        "executed on real threads or asyncio tasks in the PRNG-chosen interleaving; non-trivial = at least one "
        "delivered record whose extra draws on >= 2 layers, or a record logged while another context has an "
        "open block; distinct by the trace text + mode; a third of the programmes deep-copy loggers (<= 3 cores); "
        "single-core programmes are also run through the object-level model (hprog: contents of the dict objects)")
TRUSTED = [
    "Py/ContextVars.lean models PEP 567 for one variable (validated by the `cv` stream against CPython)",
    "aliasing: the object-level model Context/Heap.lean (dict objects with identity; construction sites evaluated from "
    "their regenerated shapes) carries the immutability theorems and is tied by the hprog stream; patcher LISTS are "
    "covered by the regenerated shape + re-reading every logger and record after every operation (harness)",
    "patchers are table-driven callables (set / add to one key; truthy or falsy objects); arbitrary user patchers are a "
    "parameter of the theorems",
    "copy.deepcopy(logger): the harness's sinks and patcher objects are shared by the copies (functions are atomic for "
    "deepcopy, the patcher objects define __deepcopy__); Handler/Core copying itself is loguru's",
]
ASSUMPTIONS = ["Python >= 3.7 contextvars (threads start with an empty context: Python < 3.14 semantics)",
               "with-blocks of one context are left in LIFO order (Python syntax guarantees it)"]

NKEYS = 5
TIMEOUT = 20.0

# Genuine defects of /repo found by this check that are not yet listed in known_findings.json: they are counted
# and noted in the evidence but not reported as violations until the integrator has recorded them.
# (F30-falsy-configured-patcher: found in round 5, repaired in /repo by 8d54a52, recorded as fixed – a plain
# violation again; corpus/C12/12_falsy_configured_patcher.json is its regression case.)
F30 = "F30-falsy-configured-patcher"
PENDING_FINDINGS = []

# Key alphabet.  0..4 ordinary keys (heavy overlap between layers), 5 a key only patchers write, then names
# that collide with parameter names / locals of the API the keys travel through as **kwargs (bind,
# contextualize, the logging methods) or as dict keys (configure(extra=), patchers): every one of them is a
# legitimate key of `extra` in every layer.  (Excluded on purpose: the name-mangled spellings `_Logger__self`,
# `_Logger__message`, `_Logger__level`, which ARE the real parameter names.)
RESERVED = ["self", "__self", "message", "__message", "level", "__level", "record", "exception", "args", "kwargs",
            "name", "extra", "cls", "patcher", "patchers", "options", "core", "depth", "capture", "lazy", "colors",
            "raw", "handlers", "sink", "format", "filter", "context", "token", "function", "time", "elapsed",
            "from_decorator", "new_context", "log_record", "mcs", "klass"]
KEY_NAMES = ["k%d" % i for i in range(NKEYS + 1)] + RESERVED
KEY_INDEX = {n: i for i, n in enumerate(KEY_NAMES)}
LOG_METHODS = ["trace", "debug", "info", "success", "warning", "error", "critical", "log", "exception"]


def key_name(k):
    return KEY_NAMES[k]


def pick_key(rng):
    if rng.chance(22):
        return NKEYS + 1 + rng.below(len(RESERVED))
    return rng.below(NKEYS)


# ============================================================================ programme generation
def gen_kw(rng, st, lo=0, hi=3):
    n = rng.range(lo, hi)
    keys = []
    while len(keys) < n:
        k = pick_key(rng)
        if k not in keys:
            keys.append(k)
    out = []
    for k in keys:
        st["serial"] += 1
        out.append([k, st["serial"]])
    return out


def gen_flags(rng):
    return {"exception": rng.choice([0, 0, 1, 2]), "depth": 0, "record": rng.chance(25), "lazy": rng.chance(25),
            "colors": rng.chance(25), "raw": rng.chance(25), "capture": not rng.chance(40)}


def gen_patcher(rng, st, chain=None):
    """[id, key, value, mode, form]: mode 0 sets extra[key] = value, mode 1 adds value to extra[key] (not
    idempotent); form 0 = a plain function object, 1 = a bound method fetched anew at every attachment (equal
    but distinct objects).  With some probability an EXISTING patcher is attached again – preferably one that
    is already on the chain of the receiving logger (`patch(f).patch(g).patch(f)`)."""
    if st["pdefs"] and rng.chance(35):
        pool = [q for q in (chain or []) if q in st["pdefs"]] if rng.chance(75) else []
        pid = rng.choice(pool) if pool else rng.choice(sorted(st["pdefs"]))
        return list(st["pdefs"][pid])
    st["serial"] += 1
    st["npatch"] += 1
    p = [st["npatch"], rng.below(NKEYS + 1) if rng.chance(80) else pick_key(rng), st["serial"],
         1 if rng.chance(30) else 0, rng.below(2), 1 if rng.chance(12) else 0]
    st["pdefs"][p[0]] = p       # key NKEYS = a key no layer uses
    return p


def pdef(p):
    """(id, key, value, mode, form) of a patcher descriptor (older corpus entries have 3 fields)"""
    p = list(p) + [0, 0]
    return p[0], p[1], p[2], p[3], p[4]


def pwire(p):
    """id,key,value,mode on the wire; the mode also carries the truth value of the patcher OBJECT (6th field of
    the descriptor: 1 = a callable whose class makes it falsy): 0/1 truthy set/add, 2/3 falsy set/add"""
    pid, key, val, mode, _ = pdef(p)
    return pid, key, val, mode + (2 if pfalsy(p) else 0)


def gen_exc(rng):
    if rng.chance(40):
        return "exception"
    return rng.choice(["keyboardinterrupt", "systemexit", "generatorexit", "cancellederror", "baseexception"])


def pick_logger(rng, st):
    n = st["nlog"]
    if rng.chance(50):
        return n - 1 - rng.below(min(n, 3))
    return rng.below(n)


def gen_program(rng, maxops, maxctx, asyncio_mode):
    """global trace: list of op dicts {"c": ctx, "op": kind, ...}"""
    st = {"serial": 0, "npatch": 0, "nlog": 1, "nh": {0: 0}, "pdefs": {}, "chains": [[]], "recflag": [False],
          "lcore": [0], "ncores": 1}
    # a third of the programmes deep-copy loggers (copy.deepcopy(logger): a NEW core with its own extra, patcher
    # and handlers – but the ContextVar is shared by every logger of the process) and then address configure /
    # add / remove / contextualize to any of the cores
    multi = rng.chance(33)

    def pick_core():
        return rng.below(st["ncores"]) if multi else 0

    def gen_log(c, kw):
        l = pick_logger(rng, st)
        if st["recflag"][l]:
            # documented: with opt(record=True) a keyword argument named `record` is a TypeError
            kw = [x for x in kw if x[0] != KEY_INDEX["record"]]
        emit(c, op="log", l=l, kw=kw, via=rng.choice(LOG_METHODS))
    depth = {0: 0}
    alive = [0]
    nctx = 1
    trace = []

    started = set()     # contexts that have executed at least one operation (a task not yet started
                        # cannot be cancelled "inside" anything)

    def emit(c, **op):
        op["c"] = c
        trace.append(op)
        started.add(c)

    if rng.chance(92):
        emit(0, op="add")
        st["nh"][0] += 1
    cur = 0
    while len(trace) < maxops and alive:
        if not rng.chance(55) or cur not in alive:
            cur = rng.choice(alive)
        c = cur
        if rng.chance(7):
            # the programme KEPT the objects it handed to loguru (the dict given to configure(extra=), the dicts
            # splatted into bind / contextualize / logging calls) and the records its sinks received – and now
            # changes one of them in place.  Nothing of that may show in later records or in any logger.
            st["serial"] += 1
            emit(c, op="mutate", what=rng.choice(["configure", "configure", "kw", "record"]), i=rng.below(64),
                 how=rng.choice(["set", "set", "del", "clear"]), key=pick_key(rng), val=st["serial"])
            continue
        if multi and st["ncores"] < 3 and rng.chance(7):
            l = pick_logger(rng, st)
            emit(c, op="deepcopy", l=l)
            st["chains"].append(list(st["chains"][l]))
            st["recflag"].append(st["recflag"][l])
            st["lcore"].append(st["ncores"])
            st["nh"][st["ncores"]] = st["nh"][st["lcore"][l]]
            st["ncores"] += 1
            st["nlog"] += 1
            continue
        r = rng.below(100)
        d = depth[c]
        if r < 30:
            gen_log(c, gen_kw(rng, st, 0, 2))
        elif r < 46:
            if d < 4:
                style = "with"
                if not asyncio_mode and rng.chance(40):
                    style = rng.choice(["deco", "deco-reuse"])
                if multi:
                    emit(c, op="enter", kw=gen_kw(rng, st, 0 if rng.chance(8) else 1, 2), style=style,
                         l=pick_logger(rng, st))
                else:
                    emit(c, op="enter", kw=gen_kw(rng, st, 0 if rng.chance(8) else 1, 2), style=style)
                depth[c] += 1
        elif r < 58:
            if d > 0:
                emit(c, op="exit")
                depth[c] -= 1
        elif r < 62:
            if d > 0 and (not asyncio_mode or rng.chance(60)):
                k = rng.range(1, d)
                emit(c, op="raise", k=k, exc=gen_exc(rng))
                depth[c] -= k
            elif asyncio_mode:
                # cancel another task that is suspended (possibly inside blocks); it catches the
                # CancelledError after leaving k of its blocks (k = 0: cleanup handler inside the block)
                others = [x for x in alive if x != c and x in started]
                if others:
                    x = rng.choice(others)
                    k = rng.range(0, depth[x])
                    emit(c, op="cancel", target=x, k=k)
                    depth[x] -= k
        elif r < 72:
            l = pick_logger(rng, st)
            emit(c, op="bind", l=l, kw=gen_kw(rng, st, 0 if rng.chance(10) else 1, 3))
            st["chains"].append(list(st["chains"][l]))
            st["recflag"].append(st["recflag"][l])
            st["lcore"].append(st["lcore"][l])
            st["nlog"] += 1
        elif r < 78:
            l = pick_logger(rng, st)
            if rng.chance(50):     # prefer receivers that already carry patchers: longer chains
                cands = [i for i in range(st["nlog"]) if st["chains"][i]]
                if cands:
                    l = rng.choice(cands)
            pt = gen_patcher(rng, st, st["chains"][l])
            emit(c, op="patch", l=l, p=pt)
            st["chains"].append(st["chains"][l] + [pt[0]])
            st["recflag"].append(st["recflag"][l])
            st["lcore"].append(st["lcore"][l])
            st["nlog"] += 1
        elif r < 84:
            l = pick_logger(rng, st)
            fl = gen_flags(rng)
            emit(c, op="opt", l=l, f=fl)
            st["chains"].append(list(st["chains"][l]))
            st["recflag"].append(bool(fl["record"]))
            st["lcore"].append(st["lcore"][l])
            st["nlog"] += 1
        elif r < 89:
            extra = None if rng.chance(25) else gen_kw(rng, st, 0, 3)
            patcher = gen_patcher(rng, st) if rng.chance(35) else None
            if multi:
                emit(c, op="configure", extra=extra, patcher=patcher, core=pick_core())
            else:
                emit(c, op="configure", extra=extra, patcher=patcher)
        elif r < 95:
            if nctx < maxctx:
                emit(c, op="spawn", copy=(True if asyncio_mode and rng.chance(85) else rng.chance(50)), new=nctx)
                depth[nctx] = 0
                alive.append(nctx)
                nctx += 1
        elif r < 97:
            k = pick_core()
            if st["nh"][k] < 3:
                if multi:
                    emit(c, op="add", core=k)
                else:
                    emit(c, op="add")
                st["nh"][k] += 1
        elif r < 98:
            k = pick_core()
            if st["nh"][k] > 0:
                if multi:
                    emit(c, op="remove", i=rng.below(st["nh"][k]), core=k)
                else:
                    emit(c, op="remove", i=rng.below(st["nh"][k]))
                st["nh"][k] -= 1
        else:
            if d == 0 and c != 0 and len(alive) > 1:
                gen_log(c, [])
                emit(c, op="end")
                alive.remove(c)
    # epilogue: close everything in a random order, log once more at depth 0
    while alive:
        c = rng.choice(alive)
        if depth[c] > 0:
            if rng.chance(25):
                emit(c, op="raise", k=depth[c], exc=gen_exc(rng))
                depth[c] = 0
            else:
                emit(c, op="exit")
                depth[c] -= 1
        else:
            gen_log(c, [])
            emit(c, op="end")
            alive.remove(c)
    return trace


# ============================================================================ wire format
def kw_tok(kw):
    return "_" if not kw else ",".join("%d=%d" % (k, v) for k, v in kw)


def flags_tok(f):
    return "%d,%d,%d,%d,%d,%d,%d" % (f["exception"], f["depth"], f["record"], f["lazy"], f["colors"], f["raw"],
                                     f["capture"])


def op_token(op):
    c, k = op["c"], op["op"]
    if k == "enter":
        return "%d:E:%s" % (c, kw_tok(op["kw"]))
    if k == "exit":
        return "%d:X" % c
    if k == "raise":
        return "%d:R:%d:%s" % (c, op["k"], "e" if op.get("exc", "exception") == "exception" else "b")
    if k == "cancel":      # seen from the model: the TARGET leaves k blocks by a BaseException
        return "%d:R:%d:b" % (op["target"], op["k"])
    if k == "log":
        return "%d:L:%d:%s" % (c, op["l"], kw_tok(op["kw"]))
    if k == "bind":
        return "%d:B:%d:%s" % (c, op["l"], kw_tok(op["kw"]))
    if k == "patch":
        return "%d:P:%d:%d,%d,%d,%d" % ((c, op["l"]) + pwire(op["p"]))
    if k == "opt":
        return "%d:O:%d:%s" % (c, op["l"], flags_tok(op["f"]))
    if k == "configure":
        return "%d:C:%s:%s" % (c, "-" if op["extra"] is None else kw_tok(op["extra"]),
                               "-" if op["patcher"] is None else "%d,%d,%d,%d" % pwire(op["patcher"]))
    if k == "spawn":
        return "%d:S:%d" % (c, 1 if op["copy"] else 0)
    if k == "add":
        return "%d:A" % c
    if k == "remove":
        return "%d:D:%d" % (c, op["i"])
    if k in ("end", "mutate", "deepcopy"):      # a mutation of caller-owned objects is invisible to the model: no token
        return None
    raise ValueError(k)


def describe(op):
    """the call in Python spelling (for messages)"""
    k = op["op"]
    kws = ", ".join("%s=%d" % (key_name(a), b) for a, b in op.get("kw") or [])
    if k == "deepcopy":
        return "copy.deepcopy(logger#%d)" % op["l"]
    if k == "bind":
        return "logger#%d.bind(%s)" % (op["l"], kws)
    if k == "enter":
        return "logger.contextualize(%s)" % kws
    if k == "log":
        return "logger#%d.%s(%s'm'%s)" % (op["l"], op.get("via", "info"), "'INFO', " if op.get("via") == "log" else "",
                                          (", " + kws) if kws else "")
    if k == "configure":
        return "logger.configure(extra=%s, patcher=%s)" % (
            None if op["extra"] is None else {key_name(a): b for a, b in op["extra"]}, op["patcher"])
    if k == "mutate":
        return "caller mutates the %s it kept (#%d): %s %s" % (
            {"configure": "dict passed to configure(extra=)", "kw": "dict splatted as **kwargs",
             "record": "extra of a delivered record"}[op["what"]], op["i"], op["how"],
            "" if op["how"] == "clear" else key_name(op["key"]))
    return op_token(op)


def logger_cores(trace):
    """core and core-local number of every logger of the programme, in creation order"""
    lcore, local, ncores, count = [0], [0], 1, {0: 1}
    for o in trace:
        if o["op"] in ("bind", "patch", "opt"):
            k = lcore[o["l"]]
            lcore.append(k)
            local.append(count[k])
            count[k] += 1
        elif o["op"] == "deepcopy":
            lcore.append(ncores)
            local.append(0)
            count[ncores] = 1
            ncores += 1
    return lcore, local


def model_order(trace):
    """the Lean multi-core model lists loggers core by core"""
    lcore, _ = logger_cores(trace)
    return sorted(range(len(lcore)), key=lambda i: (lcore[i], i))


def prog_line(trace):
    if not any(o["op"] == "deepcopy" for o in trace):
        return "prog " + " ".join(t for t in (op_token(o) for o in trace) if t)
    # several cores (Context/Multi.lean): ctx:core:code:…, logger numbers local to the core
    lcore, local = logger_cores(trace)
    toks = []
    for o in trace:
        if o["op"] == "deepcopy":
            toks.append("%d:%d:Y:%d" % (o["c"], lcore[o["l"]], local[o["l"]]))
            continue
        if "l" in o and o["op"] != "enter":
            k = lcore[o["l"]]
            o = dict(o)
            o["l"] = local[o["l"]]
        else:
            k = o.get("core", 0)
        t = op_token(o)
        if t:
            c, rest = t.split(":", 1)
            toks.append("%s:%d:%s" % (c, k, rest))
    return "mprog " + " ".join(toks)


def parse_kw(tok):
    if tok == "_":
        return {}
    return {int(a.split("=")[0]): int(a.split("=")[1]) for a in tok.split(",")}


def parse_model(out):
    """-> (events, loggers, finals) in the canonical form also produced from the implementation"""
    if out == "bad-op":
        raise core.DriverError("model rejected a C12 programme line")
    ev_s, lg_s, vs_s = out.split(" | ") if out.count(" | ") == 2 else (out.split(" | ") + ["", ""])[:3]
    events = []
    for t in ev_s.split():
        f = t.split(":")
        if f[0] == "p":
            events.append(("p", int(f[1]), int(f[2]), parse_kw(f[3])))
        elif f[0] == "d":
            events.append(("d", int(f[1]), int(f[2]), parse_kw(f[3])))
        else:
            events.append(("e", int(f[1]), f[2]))
    loggers = []
    for t in lg_s.split():
        f = t.split(":")
        fl = tuple(int(x) for x in f[1].split(","))
        ps = [] if f[2] == "_" else [int(x) for x in f[2].split(",")]
        loggers.append((fl, ps, parse_kw(f[3])))
    finals = [None if t[2:] == "-" else parse_kw(t[2:]) for t in vs_s.split()]
    return events, loggers, finals


def heap_line(trace, mut_res):
    """the programme as seen by the object-level model (Context/Heap.lean): dict objects with identity; the
    caller's in-place mutations ARE operations here"""
    if any(o["op"] == "deepcopy" for o in trace):
        return None
    spec = Spec()
    toks, nconf = [], 0
    for i, op in enumerate(trace):
        c, k = op["c"], op["op"]
        if k == "configure":
            if op["extra"] is not None:
                toks.append("%d:a:%s" % (c, kw_tok(op["extra"])))
                toks.append("%d:C:%d" % (c, nconf))
                nconf += 1
        elif k == "bind":
            toks.append("%d:B:%d:%s" % (c, op["l"], kw_tok(op["kw"])))
        elif k == "patch":
            toks.append("%d:O:%d:%d" % (c, op["l"], spec.loggers[op["l"]]["flags"][6]))
        elif k == "opt":
            toks.append("%d:O:%d:%d" % (c, op["l"], int(op["f"]["capture"])))
        elif k == "enter":
            toks.append("%d:E:%s" % (c, kw_tok(op["kw"])))
        elif k == "exit":
            toks.append("%d:X" % c)
        elif k == "raise":
            toks += ["%d:X" % c] * op["k"]
        elif k == "cancel":
            toks += ["%d:X" % op["target"]] * op["k"]
        elif k == "spawn":
            toks.append("%d:S:%d" % (c, 1 if op["copy"] else 0))
        elif k == "log":
            if spec.cores[0]["handlers"]:
                o = spec.loggers[op["l"]]
                chain = ([spec.cores[0]["patcher"]] if spec.cores[0]["patcher"] else []) + o["patchers"]
                toks.append("%d:L:%d:%s:%s" % (c, op["l"], kw_tok(op["kw"]),
                                               ";".join("%d,%d,%d,%d" % pwire(p) for p in chain) or "_"))
        elif k == "mutate":
            r = mut_res.get(i, mut_res.get(str(i)))
            if r:
                how = {"set": "set,%d,%d" % (op["key"], op["val"]), "del": "del,%d" % op["key"],
                       "clear": "clear"}[op["how"]]
                toks.append("%d:M:%s:%s" % (c, r, how))
        spec.apply(op)
    return "hprog " + " ".join(toks)


def pfalsy(p):
    return len(p) > 5 and bool(p[5])


def parse_heap(out):
    if out == "bad-op":
        raise core.DriverError("model rejected a C12 object-level programme line")
    parts = [x.strip() for x in out.split("|")]
    parts += [""] * (3 - len(parts))
    return {"core": parse_kw(parts[0][2:]), "loggers": [parse_kw(t[2:]) for t in parts[1].split()],
            "records": [parse_kw(t[2:]) for t in parts[2].split()]}


# ============================================================================ independent specification
class Spec:
    """The property itself, executable: layers + the *set of open blocks* of each execution context.
    No tokens, no reset – `exit` just forgets the innermost open block."""

    def __init__(self, mirror=False):
        # mirror=True: the property EXCEPT that a configured patcher whose object is falsy is not called (the defect
        # F30, repaired by 8d54a52) – only used to CLASSIFY a disagreement (stable key), never to accept one
        self.mirror = mirror
        # one entry per Core (copy.deepcopy(logger) makes a new one); the context layers below are shared
        self.cores = [{"extra": {}, "patcher": None, "handlers": [], "next_h": 0}]
        self.loggers = [{"flags": (0, 0, 0, 0, 0, 0, 1), "patchers": [], "bound": [], "core": 0}]   # bound: list of kw dicts
        self.inherited = {0: {}}
        self.blocks = {0: []}
        self.expected = []       # events
        self.nontrivial = False
        self.repeated_patcher = False

    def ctx_layer(self, c):
        out = dict(self.inherited[c])
        for kw in self.blocks[c]:
            out.update(kw)
        return out

    def apply(self, op):
        c, k = op["c"], op["op"]
        if k == "enter":
            self.blocks[c].append(dict(op["kw"]))
        elif k == "exit":
            self.blocks[c].pop()
        elif k == "raise":
            # whatever the exception class: the blocks it propagates out of are left
            del self.blocks[c][len(self.blocks[c]) - op["k"]:]
        elif k == "cancel":
            x = op["target"]
            del self.blocks[x][len(self.blocks[x]) - op["k"]:]
        elif k == "spawn":
            self.inherited[op["new"]] = self.ctx_layer(c) if op["copy"] else {}
            self.blocks[op["new"]] = []
        elif k == "configure":
            core_ = self.cores[op.get("core", 0)]
            if op["extra"] is not None:
                core_["extra"] = dict(op["extra"])
            if op["patcher"] is not None:
                core_["patcher"] = list(op["patcher"])
        elif k == "bind":
            o = self.loggers[op["l"]]
            self.loggers.append({"flags": o["flags"], "patchers": o["patchers"], "bound": o["bound"] + [dict(op["kw"])],
                                 "core": o["core"]})
        elif k == "patch":
            o = self.loggers[op["l"]]
            self.loggers.append({"flags": o["flags"], "patchers": o["patchers"] + [list(op["p"])], "bound": o["bound"],
                                 "core": o["core"]})
        elif k == "opt":
            o = self.loggers[op["l"]]
            f = op["f"]
            fl = (f["exception"], f["depth"], int(f["record"]), int(f["lazy"]), int(f["colors"]), int(f["raw"]),
                  int(f["capture"]))
            self.loggers.append({"flags": fl, "patchers": o["patchers"], "bound": o["bound"], "core": o["core"]})
        elif k == "deepcopy":
            # a logger over a NEW core: the source core's extra / patcher / handlers as they are now, the source
            # logger's options; nothing of the context layers changes, and they stay common to all cores
            o = self.loggers[op["l"]]
            src = self.cores[o["core"]]
            self.cores.append({"extra": dict(src["extra"]), "patcher": src["patcher"],
                               "handlers": list(src["handlers"]), "next_h": src["next_h"]})
            self.loggers.append({"flags": o["flags"], "patchers": list(o["patchers"]), "bound": list(o["bound"]),
                                 "core": len(self.cores) - 1})
        elif k == "add":
            core_ = self.cores[op.get("core", 0)]
            core_["handlers"].append(core_["next_h"])
            core_["next_h"] += 1
        elif k == "remove":
            del self.cores[op.get("core", 0)]["handlers"][op["i"]]
        elif k == "log":
            o = self.loggers[op["l"]]
            core_ = self.cores[o["core"]]
            if not core_["handlers"]:
                return
            if o["flags"][2] and KEY_INDEX["record"] in dict(op["kw"]):
                # documented restriction of opt(record=True); never generated, kept for shrunk traces
                self.expected.append(("e", c, "TypeError"))
                return
            layers = [dict(core_["extra"]), self.ctx_layer(c), {}]
            for kw in o["bound"]:
                layers[2].update(kw)
            if o["flags"][6]:
                layers.append(dict(op["kw"]))
            extra = {}
            for layer in layers:            # later layers override earlier ones key by key
                extra.update(layer)
            if sum(1 for layer in layers if layer) >= 2 or any(self.blocks[x] for x in self.blocks if x != c):
                self.nontrivial = True
            chain = ([core_["patcher"]] if core_["patcher"] else []) + o["patchers"]
            if self.mirror and core_["patcher"] and pfalsy(core_["patcher"]):
                chain = chain[1:]
            # once per ATTACHMENT, in the order of attachment – also when the same (or an equal) callable
            # was attached more than once
            for pt in chain:
                pid, key, val, mode, _form = pdef(pt)
                self.expected.append(("p", c, pid, dict(extra)))
                extra[key] = val if mode == 0 else extra.get(key, 0) + val
            if len(set(pdef(pt)[0] for pt in chain)) < len(chain):
                self.repeated_patcher = True
            for h in core_["handlers"]:
                self.expected.append(("d", c, h, dict(extra)))

    def logger_view(self, i):
        o = self.loggers[i]
        b = {}
        for kw in o["bound"]:
            b.update(kw)
        return (o["flags"], [pdef(p)[0] for p in o["patchers"]], b)


# ============================================================================ implementation runner
class _BoomMixin:
    """carried by every exception the programme raises on purpose: k = number of blocks still to leave"""
    k = 0


class _Boom(_BoomMixin, Exception):
    pass


class _BoomKI(_BoomMixin, KeyboardInterrupt):
    pass


class _BoomSE(_BoomMixin, SystemExit):
    pass


class _BoomGE(_BoomMixin, GeneratorExit):
    pass


class _BoomCE(_BoomMixin, asyncio.CancelledError):
    pass


class _BoomBase(_BoomMixin, BaseException):
    pass


# how a block can be left by an exception; everything but "exception" is a BaseException that is NOT an
# Exception (the class the interpreter, asyncio and generators use to unwind: Ctrl-C, sys.exit(), a closed
# generator, a cancelled task)
EXC_KINDS = {"exception": _Boom, "keyboardinterrupt": _BoomKI, "systemexit": _BoomSE, "generatorexit": _BoomGE,
             "cancellederror": _BoomCE, "baseexception": _BoomBase}


def make_boom(kind, k):
    b = EXC_KINDS[kind]()
    b.k = k
    return b


class _NullDecorator(contextlib.ContextDecorator):
    def __enter__(self):
        return self

    def __exit__(self, *exc):
        return False


class _Turn:
    """awaitable used by the thread-mode trampoline: yields itself, receives the next operation"""

    def __await__(self):
        op = yield self
        return op


class Hang(Exception):
    pass


class PatcherObj:
    """a user object whose method (or a function closed over it) is used as a patcher"""

    def __init__(self, run, pid, key, val, mode):
        self.run, self.pid, self.key, self.val, self.mode = run, pid, key, val, mode

        def func(record):
            self.apply(record)
        func.pid = pid
        self.func = func

    def __deepcopy__(self, memo):       # user objects behind patchers are shared by deep-copied loggers
        return self

    def apply(self, record):
        extra = record["extra"]
        self.run.events.append(("p", self.run.cur, self.pid, Run.canon(extra)))
        k = key_name(self.key)
        extra[k] = self.val if self.mode == 0 else extra.get(k, 0) + self.val


class FalsyCallable:
    """a perfectly legal patcher: a callable object that happens to be falsy"""

    def __init__(self, obj):
        self.obj, self.pid = obj, obj.pid

    def __call__(self, record):
        self.obj.apply(record)

    def __deepcopy__(self, memo):
        return self

    def __eq__(self, other):
        return isinstance(other, FalsyCallable) and other.obj is self.obj

    def __hash__(self):
        return hash(self.pid)


class FalsyByBool(FalsyCallable):
    def __bool__(self):
        return False


class FalsyByLen(FalsyCallable):        # e.g. a callable registry / collection that is empty
    def __len__(self):
        return 0


def pid_of(p):
    if hasattr(p, "__self__") and isinstance(p.__self__, PatcherObj):
        return p.__self__.pid
    return getattr(p, "pid", -1)


class Run:
    """one programme on one fresh Logger"""

    def __init__(self, trace, mode):
        from loguru._logger import Core, Logger
        import loguru._logger as lm
        self.lm = lm
        self.trace, self.mode = trace, mode
        self.logger0 = Logger(core=Core(), exception=None, depth=0, record=False, lazy=False, colors=False,
                              raw=False, capture=True, patchers=[], extra={})
        self.loggers = [self.logger0]
        self.lsnaps = [self.snap_logger(self.logger0)]
        self.records = []          # (record object, snapshot of extra)
        self.pobjs = {}            # patcher id -> PatcherObj
        self.error_details = []
        self.conf_dicts = []       # the dict objects handed to configure(extra=), kept by "the caller"
        self.kw_dicts = []         # the dict objects splatted into bind / contextualize / logging calls
        self.events = []
        # one entry per Core: a logger over it (for configure/add/remove), loguru handler ids in installation
        # order, our next handler number
        self.cores = [{"logger": self.logger0, "handler_ids": [], "next_h": 0}]
        self.lcore = [0]           # core of every logger
        self.cur = None            # context whose operation is being executed
        self.finals = {}
        self.alias = []            # aliasing violations: (step index, text)
        self.workers = {}
        self.step_i = -1
        self.errors = []
        self.rec_objs = []         # the distinct `extra` dict OBJECTS handed to sinks, in order of first delivery
        self.mut_res = {}          # step -> what a `mutate` operation resolved to ("o<i>" / "r<j>")
        self.hobs = None           # object-level observation at the end of the programme

    # ---- observation
    @staticmethod
    def canon(d):
        out = {}
        for k, v in d.items():
            out[KEY_INDEX.get(k, k)] = v
        return out

    def snap_logger(self, lg):
        ex, depth, record, lazy, colors, raw, capture, patchers, extra = lg._options
        exc = {None: 0, False: 1, True: 2}.get(ex, 9) if ex in (None, False, True) else 9
        return ((exc, depth, int(record), int(lazy), int(colors), int(raw), int(capture)),
                [pid_of(p) for p in patchers], self.canon(extra))

    def mk_patcher(self, p):
        """the callable for this attachment: the SAME function object every time the patcher is attached
        (form 0), or the bound method `obj.apply` fetched anew (form 1: equal, not identical)"""
        pid, key, val, mode, form = pdef(p)
        obj = self.pobjs.get(pid)
        if obj is None:
            obj = self.pobjs[pid] = PatcherObj(self, pid, key, val, mode)
        if pfalsy(p):
            if form:
                return FalsyByLen(obj)          # an equal, distinct object at every attachment
            if not hasattr(obj, "falsy"):
                obj.falsy = FalsyByBool(obj)
            return obj.falsy
        return obj.apply if form else obj.func

    def mk_sink(self, h):
        def sink(message):
            rec = message.record
            self.events.append(("d", self.cur, h, self.canon(rec["extra"])))
            self.records.append((rec, dict(rec["extra"])))
            if not any(rec["extra"] is x for x in self.rec_objs):
                self.rec_objs.append(rec["extra"])
            ident = threading.get_ident()
            if self.workers[self.cur].ident != ident:
                self.errors.append("sink ran in a thread other than the one that logs")
        return sink

    def check_aliasing(self):
        for i, lg in enumerate(self.loggers):
            now = self.snap_logger(lg)
            if now != self.lsnaps[i]:
                self.alias.append((self.step_i, "logger #%d changed after its creation: %r -> %r"
                                   % (i, self.lsnaps[i], now)))
                self.lsnaps[i] = now
        for j, (rec, snap) in enumerate(self.records):
            if rec["extra"] != snap:
                self.alias.append((self.step_i, "extra of delivered record #%d changed afterwards: %r -> %r"
                                   % (j, self.canon(snap), self.canon(rec["extra"]))))
                self.records[j] = (rec, dict(rec["extra"]))

    # ---- the interpreter of one context (a coroutine; real `with` statements, real exceptions)
    def kwargs(self, kw, lazy=False, keep=True):
        if lazy:
            self.thunk_calls = calls = {}

            def thunk(k, v):
                def f():
                    calls[k] = calls.get(k, 0) + 1
                    return v
                return f
            d = {key_name(k): thunk(k, v) for k, v in kw}
        else:
            d = {key_name(k): v for k, v in kw}
        if keep:
            self.kw_dicts.append(d)
        return d

    def mutate(self, op):
        what = op["what"]
        if what == "record":
            if not self.records:
                return
            target = self.records[op["i"] % len(self.records)][0]["extra"]
            for j, x in enumerate(self.rec_objs):
                if x is target:
                    self.mut_res[self.step_i] = "r%d" % j
        else:
            pool = self.conf_dicts if what == "configure" else self.kw_dicts
            if not pool:
                return
            target = pool[op["i"] % len(pool)]
            if what == "configure":
                self.mut_res[self.step_i] = "o%d" % (op["i"] % len(pool))
        k = key_name(op["key"])
        if op["how"] == "set":
            target[k] = op["val"]
        elif op["how"] == "del":
            target.pop(k, None)
        else:
            target.clear()
        if what == "record":      # our own change of that record is legitimate: refresh its snapshots
            self.records = [(r, dict(r["extra"])) if r["extra"] is target else (r, snap) for r, snap in self.records]

    def atomic(self, w, op):
        """operations that are one call into loguru"""
        k = op["op"]
        lg = self.loggers
        try:
            if k == "log":
                o = lg[op["l"]]
                lazy = bool(o._options[3])
                kws = self.kwargs(op["kw"], lazy=lazy)
                via = op.get("via", "info")
                delivered = bool(self.cores[self.lcore[op["l"]]]["handler_ids"])
                if via == "log":
                    o.log("INFO", "m", **kws)
                else:
                    getattr(o, via)("m", **kws)
                if lazy:
                    # opt(lazy=True): every callable is called exactly once when the record is built (and not
                    # at all when no handler can receive it); anything else is an observable
                    for kk, _v in op["kw"]:
                        n = self.thunk_calls.get(kk, 0)
                        if n != (1 if delivered else 0):
                            self.events.append(("z", self.cur, kk, n))
                            self.error_details.append("%s: the callable passed for %r was called %d times"
                                                      % (describe(op), key_name(kk), n))
            elif k == "bind":
                new = lg[op["l"]].bind(**self.kwargs(op["kw"]))
                lg.append(new)
                self.lcore.append(self.lcore[op["l"]])
                self.lsnaps.append(self.snap_logger(new))
            elif k == "patch":
                new = lg[op["l"]].patch(self.mk_patcher(op["p"]))
                lg.append(new)
                self.lcore.append(self.lcore[op["l"]])
                self.lsnaps.append(self.snap_logger(new))
            elif k == "deepcopy":
                import copy as _copy
                src = lg[op["l"]]
                srck = self.cores[self.lcore[op["l"]]]
                new = _copy.deepcopy(src)
                lg.append(new)
                self.lcore.append(len(self.cores))
                self.cores.append({"logger": new, "handler_ids": list(srck["handler_ids"]), "next_h": srck["next_h"]})
                self.lsnaps.append(self.snap_logger(new))
            elif k == "opt":
                f = op["f"]
                new = lg[op["l"]].opt(exception={0: None, 1: False, 2: True}[f["exception"]], depth=f["depth"],
                                      record=f["record"], lazy=f["lazy"], colors=f["colors"], raw=f["raw"],
                                      capture=f["capture"])
                lg.append(new)
                self.lcore.append(self.lcore[op["l"]])
                self.lsnaps.append(self.snap_logger(new))
            elif k == "configure":
                kwargs = {}
                if op["extra"] is not None:
                    kwargs["extra"] = self.kwargs(op["extra"], keep=False)
                    self.conf_dicts.append(kwargs["extra"])
                if op["patcher"] is not None:
                    kwargs["patcher"] = self.mk_patcher(op["patcher"])
                self.cores[op.get("core", 0)]["logger"].configure(**kwargs)
            elif k == "add":
                ck = self.cores[op.get("core", 0)]
                h = ck["next_h"]
                ck["next_h"] += 1
                hid = ck["logger"].add(self.mk_sink(h), format="{message}", level=0, colorize=False, catch=False)
                ck["handler_ids"].append(hid)
            elif k == "remove":
                ck = self.cores[op.get("core", 0)]
                hid = ck["handler_ids"].pop(op["i"])
                ck["logger"].remove(hid)
            elif k == "mutate":
                self.mutate(op)
            else:
                raise ValueError(k)
        except Exception as e:  # an exception leaving a loguru call is an observable
            self.events.append(("e", self.cur, core.err_kind(e)))
            self.error_details.append("%s -> %s: %s" % (describe(op), type(e).__name__, e))
            if k in ("bind", "patch", "opt", "deepcopy"):     # keep logger numbering aligned: stand-in = the receiver
                lg.append(lg[op["l"]])
                if k == "deepcopy":
                    self.lcore.append(len(self.cores))
                    self.cores.append(dict(self.cores[self.lcore[op["l"]]]))
                else:
                    self.lcore.append(self.lcore[op["l"]])
                self.lsnaps.append(self.snap_logger(lg[op["l"]]))

    async def body(self, w, first_done):
        """inside a block (or at top level): execute operations until exit/end; raises _Boom on raise"""
        if first_done:
            w.finish()
        while True:
            try:
                op = await w.turn()
            except asyncio.CancelledError:
                # this task was cancelled by another context while suspended here
                if w.cancel_k is None:
                    raise
                if w.cancel_k == 0:        # cleanup handler inside the innermost block: nothing is left
                    w.cancel_k = None
                    w.uncancel()
                    w.finish()             # completes the canceller's operation
                    continue
                raise
            k = op["op"]
            if k == "exit":
                return "exit"
            if k == "end":
                return "end"
            if k == "raise":
                raise make_boom(op.get("exc", "exception"), op["k"])
            if k == "cancel":
                tw = self.workers[op["target"]]
                tw.cancel_k = op["k"]
                tw.task.cancel()           # the target finishes this operation once it has caught the error
                continue
            if k == "enter":
                await self.block(w, op)
            elif k == "spawn":
                self.spawn(w, op)
                w.finish()
            else:
                self.atomic(w, op)
                w.finish()

    async def block(self, w, op):
        lg = self.loggers[op.get("l", 0)]      # the ContextVar is common to all loggers and cores
        kw = self.kwargs(op["kw"])
        style = op.get("style", "with")

        def make_cm():
            try:
                return lg.contextualize(**kw)
            except Exception as e:   # the call itself rejected the keys: observable; keep the block structure
                self.events.append(("e", self.cur, core.err_kind(e)))
                self.error_details.append("%s -> %s: %s" % (describe(op), type(e).__name__, e))
                return _NullDecorator()
        try:
            if style == "with" or self.mode == "asyncio":
                with make_cm():
                    await self.body(w, True)
            else:
                if style == "deco-reuse":
                    key = json.dumps(op["kw"])
                    cm = w.decos.get(key)
                    if cm is None:
                        cm = w.decos[key] = make_cm()
                else:
                    cm = make_cm()

                @cm
                def decorated():
                    return w.drive(self.body(w, True))
                decorated()
        except BaseException as b:
            if isinstance(b, _BoomMixin):
                b.k -= 1
                if b.k > 0:
                    raise
            elif isinstance(b, asyncio.CancelledError) and w.cancel_k is not None:
                w.cancel_k -= 1
                if w.cancel_k > 0:
                    raise
                w.cancel_k = None
                w.uncancel()
            elif isinstance(b, Exception) and not isinstance(b, Hang):
                self.events.append(("e", self.cur, core.err_kind(b)))
            else:
                raise
        w.finish()

    async def main(self, w):
        w.ident = threading.get_ident()
        try:
            try:
                await self.body(w, False)
            except tuple(EXC_KINDS.values()):
                self.errors.append("programme raised out of its top level")
            self.finals[w.c] = self.canon(self.lm.context.get())
            w.finish()
        except Hang:
            pass

    def spawn(self, w, op):
        new = op["new"]
        if self.mode == "threads":
            nw = ThreadWorker(self, new)
            self.workers[new] = nw
            if op["copy"]:
                cx = contextvars.copy_context()
                nw.thread = threading.Thread(target=cx.run, args=(nw.entry,), daemon=True)
            else:
                nw.thread = threading.Thread(target=nw.entry, daemon=True)
            nw.thread.start()
        else:
            nw = TaskWorker(self, new)
            self.workers[new] = nw
            loop = asyncio.get_event_loop()
            if op["copy"]:
                nw.task = loop.create_task(self.main(nw))
            else:
                nw.task = loop.create_task(self.main(nw), context=contextvars.Context())

    # ---- drivers
    def execute(self):
        if self.mode == "threads":
            self.exec_threads()
        else:
            self.exec_asyncio()
        if self.errors:
            raise RuntimeError("C12 harness: " + "; ".join(self.errors[:3]))
        # object-level observation: what the dict OBJECTS hold now (after every in-place change anybody made)
        if len(self.cores) == 1:
            self.hobs = {"core": self.canon(self.logger0._core.extra),
                         "loggers": [self.canon(lg._options[8]) for lg in self.loggers],
                         "records": [self.canon(x) for x in self.rec_objs]}
        for ck in self.cores:
            try:
                ck["logger"].remove()
            except Exception:
                pass

    def exec_threads(self):
        self.done = threading.Event()
        w0 = ThreadWorker(self, 0)
        self.workers[0] = w0
        w0.thread = threading.Thread(target=w0.entry, daemon=True)   # a fresh thread: empty context
        w0.thread.start()
        for i, op in enumerate(self.trace):
            self.step_i = i
            w = self.workers[op["c"]]
            self.cur = op["c"]
            self.done.clear()
            w.op = op
            w.go.set()
            if not self.done.wait(TIMEOUT):
                for x in self.workers.values():
                    x.dead = True
                    x.go.set()
                raise Hang("operation %d (%r) did not complete within %ss" % (i, op, TIMEOUT))
            self.check_aliasing()
        for w in self.workers.values():
            w.thread.join(TIMEOUT)

    def exec_asyncio(self):
        box = {}

        async def driver():
            loop = asyncio.get_event_loop()
            w0 = TaskWorker(self, 0)
            self.workers[0] = w0
            w0.task = loop.create_task(self.main(w0), context=contextvars.Context())
            for i, op in enumerate(self.trace):
                self.step_i = i
                w = self.workers[op["c"]]
                self.cur = op["c"]
                self.done_f = loop.create_future()
                w.fut.set_result(op)
                await asyncio.wait_for(self.done_f, TIMEOUT)
                self.check_aliasing()
            for w in self.workers.values():
                await asyncio.wait_for(w.task, TIMEOUT)

        def target():
            try:
                asyncio.run(driver())
            except BaseException as e:  # noqa
                box["exc"] = e
        t = threading.Thread(target=target, daemon=True)
        t.start()
        t.join(TIMEOUT * 3)
        if t.is_alive():
            raise Hang("asyncio programme did not finish")
        if "exc" in box:
            if isinstance(box["exc"], asyncio.TimeoutError):
                raise Hang("asyncio operation %d did not complete" % self.step_i)
            raise box["exc"]


class ThreadWorker:
    def __init__(self, run, c):
        self.run, self.c = run, c
        self.go = threading.Event()
        self.op = None
        self.decos = {}
        self.dead = False
        self.ident = None
        self.thread = None
        self.cancel_k = None

    def uncancel(self):
        pass

    def turn(self):
        return _Turn()

    def finish(self):
        self.run.done.set()

    def drive(self, coro):
        """trampoline: run the coroutine, blocking this thread at every turn until released"""
        val = None
        while True:
            try:
                coro.send(val)
            except StopIteration as s:
                return s.value
            if not self.go.wait(TIMEOUT * 2) or self.dead:
                coro.close()
                raise Hang("worker %d was never released" % self.c)
            self.go.clear()
            val = self.op

    def entry(self):
        try:
            self.drive(self.run.main(self))
        except Hang:
            pass


class TaskWorker:
    def __init__(self, run, c):
        self.run, self.c = run, c
        self.fut = asyncio.get_event_loop().create_future()
        self.decos = {}
        self.ident = None
        self.task = None
        self.cancel_k = None

    def uncancel(self):
        if hasattr(self.task, "uncancel"):
            self.task.uncancel()

    async def turn(self):
        try:
            op = await self.fut
        except asyncio.CancelledError:
            self.fut = asyncio.get_event_loop().create_future()   # the old one was cancelled with us
            raise
        self.fut = asyncio.get_event_loop().create_future()
        return op

    def finish(self):
        self.run.done_f.set_result(None)


# ============================================================================ judging one programme
def judge(ctx, trace, mode, model_out=None, report=True):
    """run on the implementation, compare with Spec (oracle) and, if given, with the model output.
    Returns (list of (kind, text)), run) – kind in oracle|alias|correspondence"""
    spec = Spec()
    for op in trace:
        spec.apply(op)
    run = Run(trace, mode)
    run.execute()
    problems = []
    # ---- direct oracle: the property's executable specification
    f30 = False
    if run.events != spec.expected and any(o["op"] in ("configure", "patch") and pfalsy(o.get("patcher") or o.get("p") or [])
                                           for o in trace):
        mirror = Spec(mirror=True)
        for op in trace:
            mirror.apply(op)
        f30 = run.events == mirror.expected
    if f30:
        i = 0
        while i < len(run.events) and i < len(spec.expected) and run.events[i] == spec.expected[i]:
            i += 1
        exp = spec.expected[i] if i < len(spec.expected) else None
        problems.append((F30, "event #%d: the property requires %r (p = patcher call (ctx, patcher, extra shown)): the "
                         "patcher given to configure(patcher=) is a callable object whose truth value is False and "
                         "Logger._log tests `if core.patcher:` – it is never called; the implementation produced %r"
                         % (i, exp, run.events[i] if i < len(run.events) else None)))
    elif run.events != spec.expected:
        i = 0
        while i < len(run.events) and i < len(spec.expected) and run.events[i] == spec.expected[i]:
            i += 1
        got = run.events[i] if i < len(run.events) else None
        exp = spec.expected[i] if i < len(spec.expected) else None
        problems.append(("oracle", "event #%d: the property requires %r, the implementation produced %r "
                         "(p = patcher call (ctx, patcher, extra shown), d = delivery (ctx, handler, extra), "
                         "e = exception left a loguru call)%s"
                         % (i, exp, got, ("; " + "; ".join(run.error_details[:2])) if run.error_details else "")))
    for i, snap in enumerate(run.lsnaps):
        if i < len(spec.loggers) and (snap[0], snap[1], snap[2]) != spec.logger_view(i):
            problems.append(("options", "logger #%d has options %r, the property requires %r"
                             % (i, snap, spec.logger_view(i))))
            break
    for c in sorted(run.finals):
        if run.finals[c] != spec.inherited[c]:
            problems.append(("final", "context %d ends with context-local extra %r instead of the %r it started with"
                             % (c, run.finals[c], spec.inherited[c])))
            break
    muts = [describe(o) for o in trace if o["op"] == "mutate"]
    if muts and problems:
        problems = [(k, t + " [the programme also: " + "; ".join(muts[:3]) + "]") for k, t in problems]
    for step, text in run.alias[:3]:
        problems.append(("alias", "after operation #%d (%s): %s" % (step, op_token(trace[step]), text)))
    # ---- correspondence with the Lean model
    if model_out is not None:
        mev, mlg, mfin = parse_model(model_out)
        if mev != run.events:
            i = 0
            while i < len(run.events) and i < len(mev) and run.events[i] == mev[i]:
                i += 1
            problems.append(("correspondence", "event #%d: model %r, implementation %r"
                             % (i, mev[i] if i < len(mev) else None, run.events[i] if i < len(run.events) else None)))
        elif [(a, b, c) for a, b, c in mlg] != [tuple(run.lsnaps[i]) for i in model_order(trace)]:
            problems.append(("correspondence", "logger options: model %r, implementation %r" % (mlg, run.lsnaps)))
        else:
            fin = [run.finals.get(c) for c in range(len(mfin))]
            if [f or {} for f in fin] != [f or {} for f in mfin]:
                problems.append(("correspondence", "final context values: model %r, implementation %r" % (mfin, fin)))
    return problems, run, spec


def shrink(trace, mode, kinds):
    """cheap minimisation: drop single operations that are not structurally needed while the same kind of
    problem persists (bounded effort)"""
    def still(t):
        try:
            pr, _, _ = judge(None, t, mode)
        except Exception:
            return False
        return any(k in kinds for k, _ in pr)

    def valid(t):
        depth, alive, nlog, nh = {0: 0}, {0}, 1, {0: 0}
        lcore_ = [0]
        begun = set()
        for op in t:
            c, k = op["c"], op["op"]
            if c not in alive:
                return False
            if k != "cancel":
                begun.add(c)
            if k == "enter":
                if op.get("l", 0) >= nlog:
                    return False
                depth[c] += 1
            elif k == "exit":
                if depth[c] < 1:
                    return False
                depth[c] -= 1
            elif k == "raise":
                if depth[c] < op["k"]:
                    return False
                depth[c] -= op["k"]
            elif k == "cancel":
                x = op["target"]
                if x == c or x not in alive or x not in begun or depth[x] < op["k"]:
                    return False
                depth[x] -= op["k"]
            elif k in ("bind", "patch", "opt"):
                if op["l"] >= nlog:
                    return False
                lcore_.append(lcore_[op["l"]])
                nlog += 1
            elif k == "deepcopy":
                if op["l"] >= nlog:
                    return False
                newk = max(nh) + 1
                nh[newk] = nh[lcore_[op["l"]]]
                lcore_.append(newk)
                nlog += 1
            elif k == "log":
                if op["l"] >= nlog:
                    return False
            elif k == "spawn":
                if op["new"] in depth:
                    return False
                depth[op["new"]] = 0
                alive.add(op["new"])
            elif k == "add":
                if op.get("core", 0) not in nh:
                    return False
                nh[op.get("core", 0)] += 1
            elif k == "remove":
                if op.get("core", 0) not in nh or op["i"] >= nh[op.get("core", 0)]:
                    return False
                nh[op.get("core", 0)] -= 1
            elif k == "configure":
                if op.get("core", 0) not in nh:
                    return False
            elif k == "end":
                if depth[c] != 0:
                    return False
                alive.discard(c)
        return not alive

    def drop_ctx(t, x):
        """remove context x (its spawn and all its operations), renumber the later ones"""
        out = []
        for op in t:
            if op["c"] == x or (op["op"] == "spawn" and op["new"] == x) or \
                    (op["op"] == "cancel" and op["target"] == x):
                continue
            op = dict(op)
            if op["op"] == "cancel" and op["target"] > x:
                op["target"] -= 1
            if op["c"] > x:
                op["c"] -= 1
            if op["op"] == "spawn" and op["new"] > x:
                op["new"] -= 1
            out.append(op)
        return out

    def drop_op(t, i):
        """remove operation i; when it created a logger, later references are renumbered (references to the
        removed logger go to its receiver)"""
        op = t[i]
        if op["op"] == "enter":
            # remove the block: the enter and the share of the operation that closes it
            c, d = op["c"], 1
            out = t[:i]
            rest = t[i + 1:]
            for j, o in enumerate(rest):
                tgt = o["target"] if o["op"] == "cancel" else o["c"]
                if d > 0 and tgt == c and o["op"] in ("enter", "exit", "raise", "cancel"):
                    if o["op"] == "enter":
                        d += 1
                    elif o["op"] == "exit":
                        d -= 1
                        if d == 0:
                            continue
                    else:
                        if o["k"] >= d:
                            o = dict(o)
                            o["k"] -= 1
                            d = 0
                            if o["k"] == 0 and o["op"] == "raise":
                                continue
                        else:
                            d -= o["k"]
                out.append(o)
            return out
        if op["op"] not in ("bind", "patch", "opt"):
            return t[:i] + t[i + 1:]
        idx = 1 + sum(1 for o in t[:i] if o["op"] in ("bind", "patch", "opt"))   # index of the logger it made
        out = t[:i]
        for o in t[i + 1:]:
            if "l" in o:
                o = dict(o)
                if o["l"] == idx:
                    o["l"] = op["l"]
                elif o["l"] > idx:
                    o["l"] -= 1
            out.append(o)
        return out

    cur = list(trace)
    budget = 200
    x = max(op["c"] for op in cur)
    while x >= 1 and budget > 0:
        # a context can go only if none of its descendants stays
        cand = drop_ctx(cur, x)
        if valid(cand):
            budget -= 1
            if still(cand):
                cur = cand
        x -= 1
    changed = True
    while changed and budget > 0:
        changed = False
        i = len(cur) - 1
        while i >= 0 and budget > 0:
            if cur[i]["op"] not in ("end", "deepcopy"):     # a copied core stays (its number is referred to)
                cand = drop_op(cur, i)
                if valid(cand):
                    budget -= 1
                    if still(cand):
                        cur = cand
                        changed = True
            i -= 1
    return cur


# ============================================================================ cv stream
def gen_cv(rng, n):
    ops, nctx, ntok = [], 1, 0
    for _ in range(n):
        c = rng.below(nctx)
        r = rng.below(10)
        if r < 3:
            ops.append("%d:get" % c)
        elif r < 6:
            ops.append("%d:set:%d" % (c, rng.below(100)))
            ntok += 1
        elif r < 8 and ntok:
            ops.append("%d:reset:%d" % (c, rng.below(ntok)))
        elif nctx < 5:
            ops.append("%d:spawn:%d" % (c, rng.below(2)))
            nctx += 1
        else:
            ops.append("%d:get" % c)
    return ops


def run_cv(ops):
    var = contextvars.ContextVar("c12_probe")
    ctxs = [contextvars.Context()]
    toks = []
    out = []
    for o in ops:
        f = o.split(":")
        c = int(f[0])
        if f[1] == "get":
            v = ctxs[c].run(var.get, None)
            out.append("-" if v is None else str(v))
        elif f[1] == "set":
            toks.append(ctxs[c].run(var.set, int(f[2])))
            out.append("t%d" % (len(toks) - 1))
        elif f[1] == "reset":
            try:
                ctxs[c].run(var.reset, toks[int(f[2])])
                out.append("ok")
            except Exception as e:  # noqa
                out.append(core.err_kind(e))
        elif f[1] == "spawn":
            ctxs.append(ctxs[c].run(contextvars.copy_context) if f[2] == "1" else contextvars.Context())
            out.append("c%d" % (len(ctxs) - 1))
    return " ".join(out)


# ============================================================================ tasks the LIBRARY creates: coroutine sinks
def gen_sink_scenario(rng):
    """A coroutine sink (added with loop=None or with the documented loop=<loop>) whose BODY uses
    logger.contextualize() and logs (re-entrantly, into another handler); several sink tasks – one per emitted
    message – interleaved step by step in a PRNG-chosen order, while the emitter enters / leaves blocks of its own.
    Returned as the EQUIVALENT programme in the ordinary trace format (a sink task = a context spawned, with a copy
    of the emitter's context, at the moment of the emission), so that Spec and the Lean model judge it."""
    st = {"serial": 0}
    njobs = rng.range(2, 4)
    trace = [{"c": 0, "op": "add"}]
    for j in range(1, njobs + 1):          # the audit loggers: logger #j = logger.bind(k5=1000+j)
        trace.append({"c": 0, "op": "bind", "l": 0, "kw": [[NKEYS, 1000 + j]]})
    # per context: its remaining steps
    todo = {0: []}
    depth0 = 0
    for j in range(1, njobs + 1):
        if rng.chance(40) and depth0 < 2:
            todo[0].append({"op": "enter", "kw": gen_kw(rng, st, 1, 2), "style": "with"})
            depth0 += 1
        todo[0].append({"op": "spawn", "copy": True, "new": j})
        if depth0 and rng.chance(40):
            todo[0].append({"op": "exit"})
            depth0 -= 1
        steps = []
        for _ in range(rng.range(1, 2)):
            steps.append({"op": "enter", "kw": gen_kw(rng, st, 1, 2), "style": "with"})
            if rng.chance(80):
                steps.append({"op": "log", "l": j, "kw": gen_kw(rng, st, 0, 1), "via": "info"})
        for _ in range(sum(1 for x in steps if x["op"] == "enter")):
            steps.append({"op": "exit"})
            if rng.chance(70):
                steps.append({"op": "log", "l": j, "kw": [], "via": "info"})
        steps.append({"op": "end"})
        todo[j] = steps
    todo[0] += [{"op": "exit"}] * depth0
    todo[0] += [{"op": "log", "l": 0, "kw": [], "via": "info"}]
    started = {0}
    while any(todo[c] for c in started):
        c = rng.choice(sorted(x for x in started if todo[x]))
        op = dict(todo[c].pop(0))
        op["c"] = c
        trace.append(op)
        if op["op"] == "spawn":
            started.add(op["new"])
    trace.append({"c": 0, "op": "end"})
    return {"trace": trace, "explicit_loop": rng.chance(50)}


def _two_sink_tasks(explicit):
    """enter#1, enter#2, log#1, exit#1, log#1, log#2, exit#2, log#2, the emitter logs"""
    return {"explicit_loop": explicit, "trace": [
        {"c": 0, "op": "add"}, {"c": 0, "op": "bind", "l": 0, "kw": [[NKEYS, 1001]]},
        {"c": 0, "op": "bind", "l": 0, "kw": [[NKEYS, 1002]]},
        {"c": 0, "op": "spawn", "copy": True, "new": 1}, {"c": 0, "op": "spawn", "copy": True, "new": 2},
        {"c": 1, "op": "enter", "kw": [[0, 1]], "style": "with"}, {"c": 2, "op": "enter", "kw": [[0, 2]], "style": "with"},
        {"c": 1, "op": "log", "l": 1, "kw": [], "via": "info"}, {"c": 1, "op": "exit"},
        {"c": 1, "op": "log", "l": 1, "kw": [], "via": "info"}, {"c": 2, "op": "log", "l": 2, "kw": [], "via": "info"},
        {"c": 2, "op": "exit"}, {"c": 2, "op": "log", "l": 2, "kw": [], "via": "info"},
        {"c": 1, "op": "end"}, {"c": 2, "op": "end"},
        {"c": 0, "op": "log", "l": 0, "kw": [], "via": "info"}, {"c": 0, "op": "end"}]}


SINK_CORPUS = [_two_sink_tasks(False), _two_sink_tasks(True)]


def run_sink_scenario(sc):
    """-> events [("d", ctx, 0, extra)] observed by the collecting sink"""
    from loguru._logger import Core, Logger
    trace, explicit = sc["trace"], sc["explicit_loop"]
    events = []
    cur = [0]

    async def main():
        loop = asyncio.get_running_loop()
        lg0 = Logger(core=Core(), exception=None, depth=0, record=False, lazy=False, colors=False, raw=False,
                     capture=True, patchers=[], extra={})
        loggers = [lg0]
        turn, done = {}, {}
        for i, op in enumerate(trace):
            turn[i], done[i] = loop.create_future(), loop.create_future()
        mine = {}
        for i, op in enumerate(trace):
            mine.setdefault(op["c"], []).append(i)

        def collect(message):
            events.append(("d", cur[0], 0, Run.canon({k: v for k, v in message.record["extra"].items()})))

        async def body(c):
            cms = []
            for i in mine.get(c, []):
                await turn[i]
                op = trace[i]
                cur[0] = c
                k = op["op"]
                if k == "enter":
                    cm = lg0.contextualize(**{key_name(a): b for a, b in op["kw"]})
                    cm.__enter__()
                    cms.append(cm)
                elif k == "exit":
                    cms.pop().__exit__(None, None, None)
                elif k == "log":
                    loggers[op["l"]].info("m", **{key_name(a): b for a, b in op["kw"]})
                elif k == "bind":
                    loggers.append(loggers[op["l"]].bind(**{key_name(a): b for a, b in op["kw"]}))
                elif k == "add":
                    lg0.add(collect, filter=lambda r: "sinkjob" not in r["extra"], format="{message}", level=0,
                            colorize=False, catch=False)

                    async def sink(message):
                        await body(message.record["extra"]["sinkjob"])
                    kw = {"loop": loop} if explicit else {}
                    lg0.add(sink, filter=lambda r: "sinkjob" in r["extra"], format="{message}", level=0,
                            colorize=False, catch=False, **kw)
                elif k == "spawn":
                    # the emission: the library creates the task of the coroutine sink for this message
                    lg0.bind(sinkjob=op["new"]).info("job")
                done[i].set_result(None)

        main_task = loop.create_task(body(0), context=contextvars.Context())
        for i in range(len(trace)):
            turn[i].set_result(None)
            await asyncio.wait_for(done[i], TIMEOUT)
        await asyncio.wait_for(main_task, TIMEOUT)
        await asyncio.wait_for(lg0.complete(), TIMEOUT)
        lg0.remove()

    box = {}

    def target():
        try:
            asyncio.run(main())
        except BaseException as e:  # noqa
            box["exc"] = e
    t = threading.Thread(target=target, daemon=True)
    t.start()
    t.join(TIMEOUT * 3)
    if t.is_alive():
        raise Hang("coroutine-sink scenario did not finish")
    if "exc" in box:
        if isinstance(box["exc"], (asyncio.TimeoutError, Exception)) and not isinstance(box["exc"], (ImportError, AttributeError, NameError)):
            events.append(("e", cur[0], type(box["exc"]).__name__))
        else:
            raise box["exc"]
    return events


def judge_sink_scenario(sc):
    spec = Spec()
    for op in sc["trace"]:
        spec.apply(op)
    got = run_sink_scenario(sc)
    if got != spec.expected:
        i = 0
        while i < len(got) and i < len(spec.expected) and got[i] == spec.expected[i]:
            i += 1
        return ("record #%d logged by the body of a coroutine sink (loop=%s): the property requires %r, observed %r "
                "(ctx 0 = the emitting task, ctx j = the task the library created for the j-th message; each sink "
                "task enters its own contextualize() blocks, interleaved with the others)"
                % (i, "<loop>" if sc["explicit_loop"] else "None",
                   spec.expected[i] if i < len(spec.expected) else None, got[i] if i < len(got) else None)), got
    return None, got


# ============================================================================ entry points
def load_corpus():
    d = os.path.join(core.VERIF, "corpus", "C12")
    out = []
    if os.path.isdir(d):
        for f in sorted(os.listdir(d)):
            if f.endswith(".json"):
                out.append((f, json.load(open(os.path.join(d, f)))))
    return out


BASELINE = [{"c": 0, "op": "add"}, {"c": 0, "op": "log", "l": 0, "kw": []}, {"c": 0, "op": "end"}]


def fresh_problem(trace, mode, kind):
    """judge the programme in a FRESH interpreter; -> text of the problem of that kind, or None"""
    import subprocess
    import sys
    code = ("import json,sys\nfrom harness import c12\nd=json.load(sys.stdin)\n"
            "pr,_,_=c12.judge(None,d['trace'],d['mode'])\nprint('RESULT'+json.dumps(pr))\n")
    try:
        p = subprocess.run([sys.executable, "-c", code], cwd=core.VERIF, input=json.dumps({"trace": trace, "mode": mode}),
                           capture_output=True, text=True, timeout=120)
    except subprocess.TimeoutExpired:
        return None
    for line in p.stdout.splitlines():
        if line.startswith("RESULT"):
            for k, t in json.loads(line[6:]):
                if k == kind:
                    return t
    return None


def evaluate(trace, mode):
    """one programme on the implementation, judged by the specification -> picklable result"""
    problems, r, spec = judge(None, trace, mode)
    return {"trace": trace, "mode": mode, "problems": problems, "events": r.events,
            "lsnaps": [tuple(r.lsnaps[i]) for i in model_order(trace)] if len(r.lsnaps) == len(model_order(trace))
            else [tuple(x) for x in r.lsnaps],
            "ncores": len(r.cores), "finals": dict(r.finals), "nworkers": len(r.workers),
            "nontrivial": spec.nontrivial, "repeated_patcher": spec.repeated_patcher,
            "hline": heap_line(trace, r.mut_res), "hobs": r.hobs, "mut_res": dict(r.mut_res)}


def _job(args):
    """worker process of the thorough tier: programmes i0..i1-1 of the stream rooted at rng state `s`"""
    state, i0, i1 = args
    root = core.Rng(0)
    root.s = state
    out = []
    for i in range(i0, i1):
        trace, mode = nth_program(root, i)
        out.append((i, evaluate(trace, mode)))
    return out


def nth_program(root, i):
    mode = "asyncio" if i % 2 else "threads"
    sub = root.fork("p%d" % i)
    trace = gen_program(sub, maxops=sub.range(6, 34), maxctx=sub.range(1, 4), asyncio_mode=(mode == "asyncio"))
    return trace, mode


def run(ctx):
    rng = ctx.rng
    drv = core.Driver(DRIVER)
    boost = 2 if getattr(ctx, "search_boost", False) else 1
    cases = []
    lines = []
    reported = [0]
    f30_seen = []

    def account(res, origin):
        trace, mode = res["trace"], res["mode"]
        ctx.case((mode, prog_line(trace)), nontrivial=res["nontrivial"])
        ctx.stat("programs:" + mode)
        ctx.stat("ops", len(trace))
        ctx.stat("records_delivered", sum(1 for e in res["events"] if e[0] == "d"))
        ctx.stat("patcher_calls", sum(1 for e in res["events"] if e[0] == "p"))
        ctx.stat("contexts", res["nworkers"])
        if res.get("ncores", 1) > 1:
            ctx.stat("programs_with_deepcopied_loggers")
            ctx.stat("cores", res["ncores"])
        if res.get("repeated_patcher"):
            ctx.stat("programs_logging_through_a_chain_with_a_repeated_patcher")
        ctx.stat("max_block_depth_%d" % max_depth(trace))
        for op in trace:
            ctx.stat("op:" + op["op"] + (":" + op["style"] if op["op"] == "enter" else "")
                     + (":" + op.get("exc", "exception") if op["op"] == "raise" else ""))
        for kind, text in res["problems"]:
            ctx.stat("problems:" + kind)
            if kind == F30:
                if not f30_seen:
                    f30_seen.append(1)
                    what = "configured patcher not called [%s, %s]: %s" % (mode, origin, text)
                    rep = {"mode": mode, "trace": trace, "line": prog_line(trace), "kind": F30}
                    if F30 in PENDING_FINDINGS:
                        ctx.note("PENDING finding %s (not yet in known_findings.json): %s" % (F30, what))
                    else:
                        ctx.violation(what, rep, key=F30, kind="oracle")
                continue
            if len(pending[kind]) < 2:
                # A defect may leave state behind in the PROCESS (a mutated ContextVar default, a global):
                # then trivial programmes "fail" here but not in a fresh interpreter.  Shrink only while the
                # trivial programme still passes, and keep a shrunk trace only if it reproduces in a fresh
                # interpreter (else fall back to the programme as it was found).
                small = trace
                if len(trace) > 4 and not judge(ctx, BASELINE, mode)[0]:
                    cand = shrink(trace, mode, {kind})
                    if cand is not trace and fresh_problem(cand, mode, kind):
                        small = cand
                else:
                    ctx.stat("shrink_skipped_process_state_contaminated")
                text2 = fresh_problem(small, mode, kind) or text
                pending[kind].append(("%s [%s, %s]: %s" % (HEAD[kind], mode, origin, text2),
                                      {"mode": mode, "trace": small, "line": prog_line(small), "kind": kind}))
            else:
                ctx.stat("violations_not_reported")
        lines.append(prog_line(trace))
        cases.append(res)

    HEAD = {"oracle": "delivered extra / patcher calls differ from the property",
            "alias": "an existing logger or delivered record was mutated",
            "final": "contextualize() values not restored",
            "options": "derived logger differs from what bind/opt/patch must return"}
    pending = {k: [] for k in ("oracle", "alias", "final", "options")}

    def flush():
        # what handlers and patchers observed first, internal option tuples last
        for kind in ("oracle", "alias", "final", "options"):
            for what, rep in pending[kind]:
                ctx.violation(what, rep, key=None, kind="oracle")
            pending[kind] = []

    # ---- corpus first
    for name, item in load_corpus():
        account(evaluate(item["trace"], item.get("mode", "threads")), "corpus/" + name)
        ctx.stat("corpus")

    # ---- random programmes (thorough: spread over worker processes; sub-seeds do not depend on order)
    n = ctx.n(1000, 40000) * boost
    state = rng.s
    if ctx.quick or os.environ.get("VERIF_C12_SERIAL") == "1":
        for i in range(n):
            trace, mode = nth_program(rng, i)
            account(evaluate(trace, mode), "random #%d" % i)
            if i < 2:
                ctx.sample({"mode": mode, "line": prog_line(trace)})
    else:
        import concurrent.futures
        import multiprocessing
        nproc = int(os.environ.get("VERIF_C12_PROCS", "4"))
        chunk = 500
        jobs = [(state, i0, min(n, i0 + chunk)) for i0 in range(0, n, chunk)]
        with concurrent.futures.ProcessPoolExecutor(max_workers=nproc,
                                                    mp_context=multiprocessing.get_context("fork")) as ex:
            for part in ex.map(_job, jobs):
                for i, res in part:
                    account(res, "random #%d" % i)
                    if i < 2:
                        ctx.sample({"mode": res["mode"], "line": prog_line(res["trace"])})

    flush()

    # ---- tasks the library creates: coroutine sinks whose bodies use contextualize() and log
    sink_cases = []
    nrep = 0
    nsink = ctx.n(60, 1000) * boost
    for i in range(nsink + len(SINK_CORPUS)):
        sc = SINK_CORPUS[i] if i < len(SINK_CORPUS) else gen_sink_scenario(rng.fork("sink%d" % i))
        problem, got = judge_sink_scenario(sc)
        ctx.case(("sinktasks", sc["explicit_loop"], prog_line(sc["trace"])), nontrivial=True)
        ctx.stat("sink_scenarios:loop=%s" % ("explicit" if sc["explicit_loop"] else "None"))
        ctx.stat("sink_tasks", sum(1 for o in sc["trace"] if o["op"] == "spawn"))
        sink_cases.append((sc, got))
        if problem:
            ctx.stat("problems:sinktasks")
            if nrep < 2:
                nrep += 1
                ctx.violation("contextualize() values leak between the tasks of a coroutine sink: " + problem,
                              {"kind": "sinktasks", "scenario": sc, "line": prog_line(sc["trace"])}, kind="oracle")
    sink_lines = [prog_line(sc["trace"]) for sc, _ in sink_cases]

    # ---- cv stream
    cv_cases = []
    for i in range(ctx.n(500, 20000)):
        ops = gen_cv(rng, rng.range(3, 25))
        cv_cases.append((ops, run_cv(ops)))
    cv_lines = ["cv " + " ".join(ops) for ops, _ in cv_cases]

    hcases = [res for res in cases if res.get("hobs") is not None and not any(e[0] == "e" for e in res["events"])]
    hlines = [res["hline"] for res in hcases]
    out = drv.run(lines + cv_lines + hlines + sink_lines)
    badsink = 0
    for (sc, got), o in zip(sink_cases, out[len(lines) + len(cv_lines) + len(hlines):]):
        mev, _mlg, _mfin = parse_model(o)
        ctx.traces_validated += 1
        if mev != got:
            badsink += 1
            ctx.stat("disagreements:sinktasks")
            if badsink <= 2:
                ctx.broke("correspondence Context.run (sink tasks)", "%s\nmodel %r\nimplementation %r"
                          % (prog_line(sc["trace"]), mev, got))
                ctx.violation("implementation and model disagree on a coroutine-sink scenario: model %r, "
                              "implementation %r" % (mev, got),
                              {"kind": "sinktasks", "scenario": sc, "line": prog_line(sc["trace"])},
                              kind="correspondence")
    bad = 0
    for res, o in zip(cases, out):
        mev, mlg, mfin = parse_model(o)
        ctx.traces_validated += 1
        fin = [res["finals"].get(c) or {} for c in range(len(mfin))]
        if mev != res["events"] or mlg != res["lsnaps"] or [f or {} for f in mfin] != fin:
            bad += 1
            ctx.stat("disagreements")
            if bad <= 3:
                ev = res["events"]
                i = 0
                while i < len(ev) and i < len(mev) and ev[i] == mev[i]:
                    i += 1
                detail = "event #%d: model %r, implementation %r" % (
                    i, mev[i] if i < len(mev) else None, ev[i] if i < len(ev) else None) \
                    if mev != ev else "logger options / final context values: model %r %r, implementation %r %r" % (
                        mlg, mfin, res["lsnaps"], fin)
                ctx.broke("correspondence Context.run", "%s\n%s\n%s" % (res["mode"], prog_line(res["trace"]), detail))
                ctx.violation("implementation and model disagree [%s]: %s" % (res["mode"], detail),
                              {"mode": res["mode"], "trace": res["trace"], "line": prog_line(res["trace"]),
                               "kind": "correspondence"}, kind="correspondence")
    # ---- object-level correspondence: contents of the dict OBJECTS (core.extra, every logger's bound extra, every
    # record's extra) at the end of the programme, after every in-place change made by loguru, patchers and caller
    badh = 0
    for res, o in zip(hcases, out[len(lines) + len(cv_lines):]):
        ctx.stat("heap_programs")
        ctx.traces_validated += 1
        m = parse_heap(o)
        if m != res["hobs"]:
            badh += 1
            ctx.stat("heap_disagreements")
            if badh <= 2:
                which = [k for k in ("core", "loggers", "records") if m[k] != res["hobs"][k]]
                detail = "dict objects (%s) at the end of the programme: model %r, implementation %r" % (
                    ", ".join(which), {k: m[k] for k in which}, {k: res["hobs"][k] for k in which})
                ctx.broke("correspondence Context.Heap.hrun", "%s\n%s\n%s" % (res["mode"], res["hline"], detail))
                ctx.violation("implementation and object-level model disagree [%s]: %s" % (res["mode"], detail),
                              {"mode": res["mode"], "trace": res["trace"], "line": prog_line(res["trace"]),
                               "hline": res["hline"], "kind": "correspondence-heap"}, kind="correspondence")
    badcv = 0
    for (ops, exp), o in zip(cv_cases, out[len(lines):]):
        ctx.case(("cv", " ".join(ops)))
        ctx.stat("cv_programs")
        if exp != o:
            badcv += 1
            if badcv <= 2:
                ctx.broke("correspondence Py.ContextVars", "ops=%s\ncpython=%s\nmodel  =%s" % (" ".join(ops), exp, o))


def max_depth(trace):
    d, m = {}, 0
    for op in trace:
        c = op["c"]
        if op["op"] == "enter":
            d[c] = d.get(c, 0) + 1
            m = max(m, d[c])
        elif op["op"] == "exit":
            d[c] -= 1
        elif op["op"] == "raise":
            d[c] -= op["k"]
        elif op["op"] == "cancel":
            d[op["target"]] = d.get(op["target"], 0) - op["k"]
    return m


def replay(ctx, rep):
    r = rep["replay"]
    if r.get("kind") == "sinktasks":
        problem, got = judge_sink_scenario(r["scenario"])
        print("scenario:", prog_line(r["scenario"]["trace"]), "explicit loop:", r["scenario"]["explicit_loop"])
        print("observed:", got)
        print(problem or "no disagreement with the property")
        print("REPRODUCED" if problem else "not reproduced")
        return 1 if problem else 0
    trace, mode = r["trace"], r["mode"]
    out = None
    try:
        out = core.Driver(DRIVER).run([prog_line(trace)])[0]
    except Exception as e:  # the model may be unavailable when a proof obligation is broken
        print("model unavailable:", str(e)[:200])
    problems, run_, spec = judge(ctx, trace, mode, model_out=out)
    try:
        if run_.hobs is not None and not any(e[0] == "e" for e in run_.events):
            hl = heap_line(trace, run_.mut_res)
            hm = parse_heap(core.Driver(DRIVER).run([hl])[0])
            if hm != run_.hobs:
                problems.append(("correspondence-heap", "dict objects at the end: model %r, implementation %r"
                                 % (hm, run_.hobs)))
    except Exception as e:  # noqa
        print("object-level model unavailable:", str(e)[:200])
    print("mode:", mode)
    print("programme:", prog_line(trace))
    print("implementation events:", run_.events)
    print("required events:      ", spec.expected)
    for kind, text in problems:
        print("%s: %s" % (kind, text))
    want = r.get("kind", "oracle")
    bad = any(k == want or (want == "oracle" and k in ("oracle", "alias", "final", "options", F30)) for k, _ in problems)
    print("REPRODUCED" if bad else "not reproduced")
    return 1 if bad else 0
