"""C08 – file sink loses nothing across rotation / compression / retention, even under injected I/O
faults (DESIGN §4 C08).  Also hosts the execution engine shared with C18 (harness/c18.py).

One *execution* = a scenario (sink configuration, pre-existing files, a list of API-level operations
with their oracles) + a set of primitive-call indices that raise OSError.  It is run on the real
loguru objects over a real scratch directory through `harness/fsshim.py`, and the same line is given
to the Lean model (`lean/drivers/C08.lean`).  After every operation the directory is canonicalised
(archives decompressed with the stdlib) and compared with the model; independent monitors judge the
real directory against the property itself.
"""
import bz2
import datetime as pydt
import gzip
import io
import lzma
import os
import re
import shutil
import sys
import tarfile
import tempfile
import time
import zipfile

from harness import core
import errno as errno_mod

from harness.fsshim import ERRNOS, Shim

PROP = "C08"
LEAN_TARGETS = ["LoguruModel.Props.C08"]
AUDIT_FILE = "LoguruModel/Audit/C08.lean"
DRIVER = "C08"
RULE = ("executions = (scenario, fault set): scenario = sink configuration (callable rotation, nine "
        "compression formats or callable or none, count/callable retention or none, watch, delay, timed or "
        "fixed path, pre-existing colliding files, restarts, external delete/replace) x operation list; for "
        "every scenario all single faults (thorough: also all pairs) over the N primitive calls it performs; "
        "non-trivial = at least one rotation or stop with compression/retention/collision executed or a fault "
        "fired; distinct by (scenario, fault set).  Round 5: + name sets with holes (subsets of the counters 1..6 for "
        "rotation and archive-collision renames), watch with a replacement file that has content, a seeded sample of "
        "fault pairs in the quick tier; + rename_path cases = (root, ext, ctime, set of existing paths) run through the "
        "real generate_rename_path over a real directory (non-trivial = non-empty set); + report_race runs = two "
        "threads failing at once on one sink, one suspended inside its error report (non-trivial = both faults fired)")
TRUSTED = [
    "harness/fsshim.py: faults are OSError(EIO) raised instead of the primitive; partial writes are not injected",
    "retention policy and rotation predicate are oracles of the model (their decisions are read from the real run)",
    "codecs (gzip/bz2/lzma/tarfile/zipfile) are checked by decompression on every archive, not proved",
    "harness speed: sysconfig.get_path is memoised in the harness process; executions of one scenario share one emptied scratch tree",
]
ASSUMPTIONS = ["append mode (default)", "one sink per directory, no concurrent writer",
               "os.path.exists/isfile never raise (CPython swallows OSError there)"]

CEXTS = ["gz", "bz2", "xz", "lzma", "tar", "tar.gz", "tar.bz2", "tar.xz", "zip"]
KIND = {"gz": "copy", "bz2": "copy", "xz": "copy", "lzma": "copy", "tar": "add", "tar.gz": "add",
        "tar.bz2": "add", "tar.xz": "add", "zip": "write"}
DATE_RE = r"\d{4}-\d\d-\d\d_\d\d-\d\d-\d\d_\d{6}"
DATE_FMT = "%Y-%m-%d_%H-%M-%S_%f"
T0 = 1600000000
PRE = 100000


def date_str(d):
    return pydt.datetime.fromtimestamp(T0 + d).strftime(DATE_FMT)


def date_inv(s):
    return int(round(pydt.datetime.strptime(s, DATE_FMT).timestamp())) - T0


def clk_dt(k):
    from loguru._datetime import datetime as ldt
    base = pydt.datetime(2020, 1, 1, tzinfo=pydt.timezone.utc) + pydt.timedelta(seconds=k)
    return ldt(base.year, base.month, base.day, base.hour, base.minute, base.second, 0, tzinfo=pydt.timezone.utc)


def clk_str(k):
    return clk_dt(k).strftime(DATE_FMT)


def clk_inv(s):
    d = pydt.datetime.strptime(s, DATE_FMT).replace(tzinfo=pydt.timezone.utc)
    return int(round((d - pydt.datetime(2020, 1, 1, tzinfo=pydt.timezone.utc)).total_seconds()))


PAYLOADS = {
    "ascii": lambda i: "x" * (i % 5) + "#%d" % (i * 7919 % 1000),
    "uni": lambda i: ["é€", "😀 tab\there", "日本語", "ß" * 3, "a b", ""][i % 6] + "~%d" % i,
    "big": lambda i: ("0123456789abcdef" * 600)[: 3000 + 977 * (i % 5)] + "!%d" % i,
    "empty": lambda i: "",
    # control characters: lone CR, CR before the line end (= CRLF on disk), NUL, VT/FF – bytes that a text-mode
    # reader would translate or a C-string API would cut
    "ctl": lambda i: ["a\rb\r", "x\x00y\r", "\r", "t\x0b\x0c\x00\x00end", "\r\r", "plain"][i % 6] + "~%d\r" % i,
    # every character fits in latin-1 but the bytes 0x80-0xff are not valid UTF-8 on their own
    "latin": lambda i: ["\xe9\xe8", "\xff\xa0", "\xdf" * 3, "\xc3\xa9", "a b", ""][i % 6] + "~%d" % i,
}


def msg_text(sc, i):
    return "M%d:%s" % (i, PAYLOADS[sc.get("payload", "ascii")](i))


# ----------------------------------------------------------------------------- names
def parse_name_enc(s):
    """model encoding -> nested tuple"""
    toks = s.split("_")

    def go(i):
        t = toks[i]
        if t == "b":
            return ("b", int(toks[i + 1])), i + 2
        if t == "o":
            return ("o", int(toks[i + 1])), i + 2
        if t == "R":
            n, j = go(i + 3)
            return ("R", int(toks[i + 1]), int(toks[i + 2]), n), j
        if t == "A":
            n, j = go(i + 1)
            return ("A", n), j
        raise ValueError(s)

    n, j = go(0)
    if j != len(toks):
        raise ValueError(s)
    return n


def enc_name(n):
    if n[0] in ("b", "o"):
        return "%s_%d" % n
    if n[0] == "R":
        return "R_%d_%d_%s" % (n[1], n[2], enc_name(n[3]))
    return "A_" + enc_name(n[1])


def real_name(sc, n):
    """base file name (inside the log directory) of a structured name"""
    if n[0] == "b":
        stem = sc.get("stem", "app")
        return "%s_%s.log" % (stem, clk_str(n[1])) if sc["timed"] else stem + ".log"
    if n[0] == "o":
        return "zzz%d.dat" % n[1]
    if n[0] == "R":
        root, ext = os.path.splitext(real_name(sc, n[3]))
        return "%s.%s%s%s" % (root, date_str(n[1]), "" if n[2] == 1 else ".%d" % n[2], ext)
    return real_name(sc, n[1]) + "." + arc_ext(sc)


def arc_ext(sc):
    c = sc.get("comp")
    return c if c in CEXTS else "gz"


def name_of_real(sc, fname):
    """inverse of real_name; unknown names come back as ('?', fname)"""
    ext = "." + arc_ext(sc)
    m = re.fullmatch(r"zzz(\d+)\.dat", fname)
    if m:
        return ("o", int(m.group(1)))
    if fname.endswith(ext) and not fname.endswith(".log"):
        inner = name_of_real(sc, fname[: -len(ext)])
        return ("A", inner) if inner[0] != "?" else ("?", fname)
    if not fname.endswith(".log"):
        return ("?", fname)
    root = fname[:-4]
    stem = sc.get("stem", "app")
    if sc["timed"]:
        m = re.match(r"%s_(%s)" % (re.escape(stem), DATE_RE), root)
        if not m:
            return ("?", fname)
        n = ("b", clk_inv(m.group(1)))
        rest = root[m.end():]
    else:
        if not root.startswith(stem):
            return ("?", fname)
        n = ("b", 0)
        rest = root[len(stem):]
    while rest:
        m = re.match(r"\.(%s)(?:\.(\d+)(?![\d-]))?" % DATE_RE, rest)
        if not m:
            return ("?", fname)
        ctr = int(m.group(2)) if m.group(2) else 1
        if m.group(2) and ctr < 2:
            return ("?", fname)
        n = ("R", date_inv(m.group(1)), ctr, n)
        rest = rest[m.end():]
    return n


def enc_any(n):
    return "?" + n[1] if n[0] == "?" else enc_name(n)


# ----------------------------------------------------------------------------- directory canonicaliser
LINE_M = re.compile(r"M(\d+):(.*)\Z", re.S)
LINE_P = re.compile(r"P(\d+)\Z")


def ids_of_bytes(sc, data):
    """(ids, problems): every line must be a whole message of this scenario or a pre-existing line"""
    try:
        text = data.decode(sc.get("encoding", "utf8"))
    except UnicodeDecodeError:
        return [-1], ["undecodable content"]
    ids, problems = [], []
    if text and not text.endswith("\n"):
        problems.append("content does not end with a line end")
    for line in (text.split("\n")[:-1] if text.endswith("\n") else (text.split("\n") if text else [])):
        m = LINE_M.match(line)
        p = LINE_P.match(line)
        if m and line == msg_text(sc, int(m.group(1))):
            ids.append(int(m.group(1)))
        elif p:
            ids.append(PRE + int(p.group(1)))
        else:
            ids.append(-1)
            problems.append("torn or foreign line %r" % line[:60])
    return ids, problems


def read_archive(sc, path):
    """('s', None, bytes) | ('n', None, b'') | ('m', member, bytes) | ('junk', why, b'')"""
    ext = arc_ext(sc)
    try:
        if ext == "gz":
            return ("s", None, gzip.open(path, "rb").read())
        if ext == "bz2":
            return ("s", None, bz2.open(path, "rb").read())
        if ext == "xz":
            return ("s", None, lzma.open(path, "rb", format=lzma.FORMAT_XZ).read())
        if ext == "lzma":
            return ("s", None, lzma.open(path, "rb", format=lzma.FORMAT_ALONE).read())
        if ext.startswith("tar"):
            mode = {"tar": "r:", "tar.gz": "r:gz", "tar.bz2": "r:bz2", "tar.xz": "r:xz"}[ext]
            with tarfile.open(path, mode) as t:
                members = t.getmembers()
                if not members:
                    return ("n", None, b"")
                if len(members) != 1:
                    return ("junk", "%d members" % len(members), b"")
                return ("m", members[0].name, t.extractfile(members[0]).read())
        if ext == "zip":
            with zipfile.ZipFile(path) as z:
                names = z.namelist()
                if not names:
                    return ("n", None, b"")
                if len(names) != 1:
                    return ("junk", "%d members" % len(names), b"")
                return ("m", names[0], z.read(names[0]))
    except Exception as e:  # noqa: a broken archive is an observation, not an infrastructure error
        return ("junk", type(e).__name__, b"")
    return ("junk", "unknown format", b"")


def write_archive(sc, path, member, data):
    ext = arc_ext(sc)
    if ext == "gz":
        with gzip.open(path, "wb") as f:
            f.write(data)
    elif ext == "bz2":
        with bz2.open(path, "wb") as f:
            f.write(data)
    elif ext == "xz":
        with lzma.open(path, "wb", format=lzma.FORMAT_XZ) as f:
            f.write(data)
    elif ext == "lzma":
        with lzma.open(path, "wb", format=lzma.FORMAT_ALONE) as f:
            f.write(data)
    elif ext.startswith("tar"):
        mode = {"tar": "w:", "tar.gz": "w:gz", "tar.bz2": "w:bz2", "tar.xz": "w:xz"}[ext]
        with tarfile.open(path, mode) as t:
            ti = tarfile.TarInfo(member)
            ti.size = len(data)
            t.addfile(ti, io.BytesIO(data))
    else:
        with zipfile.ZipFile(path, "w") as z:
            z.writestr(member, data)


def snapshot(sc, logdir):
    """name_enc -> (entry_enc, ids, problems)"""
    out = {}
    if not os.path.isdir(logdir):
        return out
    for fname in sorted(os.listdir(logdir)):
        path = os.path.join(logdir, fname)
        if not os.path.isfile(path):
            out["?dir:" + fname] = ("dir", [], [])
            continue
        n = name_of_real(sc, fname)
        key = enc_any(n)
        if n[0] == "A":
            kind, member, data = read_archive(sc, path)
            if kind == "junk":
                # debris of an interrupted archive creation: holds nothing (the monitors on the
                # acknowledged messages decide whether anything was lost)
                out[key] = ("x:", [], [])
                continue
            ids, problems = ids_of_bytes(sc, data)
            if kind == "m":
                tag = "m/" + enc_any(name_of_real(sc, member))
            else:
                tag = kind
            out[key] = ("%s:%s" % (tag, ",".join(map(str, ids))), ids, problems)
        else:
            with open(path, "rb") as f:
                ids, problems = ids_of_bytes(sc, f.read())
            out[key] = ("f:" + ",".join(map(str, ids)), ids, problems)
    return out


# ----------------------------------------------------------------------------- one execution
def cfg_token(sc):
    c = sc.get("comp")
    comp = "none" if c is None else ("call" if c == "call" else KIND[c])
    return "%d,%s,%d,%d,%d" % (1 if sc["rot"] else 0, comp, 1 if sc.get("ret") else 0, 1 if sc["watch"] else 0, 4)


def pre_entry_enc(sc, name_enc_, kind, ids):
    if kind == "f":
        return "f:" + ",".join(map(str, ids))
    n = parse_name_enc(name_enc_)
    if KIND[arc_ext(sc)] == "copy":
        return "s:" + ",".join(map(str, ids))
    return "m/%s:%s" % (enc_name(n[1]), ",".join(map(str, ids)))


def make_pre(sc, logdir):
    os.makedirs(logdir, exist_ok=True)
    for name_enc_, kind, ids in sc.get("pre", []):
        n = parse_name_enc(name_enc_)
        path = os.path.join(logdir, real_name(sc, n))
        data = "".join("P%d\n" % (i - PRE) for i in ids).encode(sc.get("encoding", "utf8"))
        if kind == "f":
            with open(path, "wb") as f:
                f.write(data)
        else:
            write_archive(sc, path, real_name(sc, n[1]), data)


class Exec:
    """result of one execution"""

    def __init__(self):
        self.ops = []          # per executed op: dict(op, res, trace, snap, acked, fired)
        self.monitors = []     # (oracle name, text, op index)
        self.nprims = 0
        self.line = None
        self.acked = []
        self.deleted = set()


def err_of_stderr(text):
    if "Logging error in Loguru Handler" not in text:
        return "ok"
    kinds = re.findall(r"^(\w+(?:\.\w+)*)(?::|$)", text, re.M)
    for k in reversed(kinds):
        k = k.split(".")[-1]
        if k in ("OSError", "Injected", "FileNotFoundError", "FileExistsError", "PermissionError",
                 "IsADirectoryError", "NotADirectoryError"):
            return "OSError"
        if k in ("ValueError", "AttributeError", "TypeError", "KeyError", "RuntimeError"):
            return k
    return "Other"


def err_of_exc(e):
    if isinstance(e, OSError):
        return "OSError"
    for cls in (ValueError, AttributeError, TypeError, KeyError, RuntimeError):
        if isinstance(e, cls):
            return cls.__name__
    return "Other"


def norm_faults(faults):
    """faults are given as primitive indices (errno EIO) or [index, errno name] pairs"""
    out = []
    for f in faults:
        if isinstance(f, (list, tuple)):
            out.append((int(f[0]), str(f[1])))
        else:
            out.append((int(f), "EIO"))
    return tuple(out)


_CACHED = {}


def _speedups():
    """`logger.add()` builds an ExceptionFormatter, whose `_get_lib_dirs` asks `sysconfig.get_path` 36 times (9 ms per
    add, a quarter of a run): the stdlib function is memoised for the process (pure for fixed arguments).  Nothing of
    loguru is touched."""
    import functools
    import sysconfig
    if "get_path" not in _CACHED:
        _CACHED["get_path"] = sysconfig.get_path
        orig = sysconfig.get_path

        @functools.lru_cache(maxsize=None)
        def _memo(*args):
            return orig(*args)

        def get_path(*args, **kwargs):
            if kwargs:
                return orig(*args, **kwargs)
            try:
                return _memo(*args)
            except TypeError:
                return orig(*args)

        sysconfig.get_path = get_path


def clear_files(root):
    """empty a scratch tree but keep its directories (rmdir is the expensive call on the shared disk; the log
    directory always exists before the sink is added, so a re-used empty tree is indistinguishable from a new one)"""
    for d, _dirs, files in os.walk(root):
        for f in files:
            try:
                os.remove(os.path.join(d, f))
            except OSError:
                pass


def execute(sc, faults=(), reuse_root=None):
    from loguru._logger import Core, Logger

    _speedups()
    faults = norm_faults(faults)
    fault_at = tuple(k for k, _e in faults)
    ex = Exec()
    root = reuse_root if reuse_root is not None else tempfile.mkdtemp(prefix="c08_")
    # directory and file names are part of the scenario: glob metacharacters are ordinary characters there
    logdir = os.path.join(root, *sc.get("dir", "logs").split("/"))
    # a second directory tree with files of the same relative names: what a relative path would resolve to
    # after the process changed its working directory (must never be touched)
    elsewhere = os.path.join(root, "elsewhere")
    decoy = {}
    saved_cwd = os.getcwd()
    saved_tz = os.environ.get("TZ")
    env = sc.get("env") or {}
    shim = Shim()
    shim.fault_at = {k: getattr(errno_mod, e) for k, e in faults}
    state = {"clk": 0, "ct1": 0, "ct2": 0, "rot": False, "msg": 0}
    ext = "." + arc_ext(sc)

    def ctime(path):
        return float(T0 + (state["ct2"] if path.endswith(ext) and sc.get("comp") in CEXTS else state["ct1"]))

    shim.clock = lambda: clk_dt(state["clk"])
    shim.ctime = ctime

    def on_remove(path, phase):
        base = os.path.basename(path)
        with open(path, "rb") as f:
            data = f.read()
        ids, _ = ids_of_bytes(sc, data) if not base.endswith(ext) or sc.get("comp") not in CEXTS else \
            ids_of_bytes(sc, read_archive(sc, path)[2])
        if phase == "retention":
            age_limit = (sc.get("real") or {}).get("retention_seconds")
            if age_limit is not None and env.get("now") is not None:
                true_age = env["now"] - os.stat(path).st_mtime
                if true_age < age_limit:
                    ex.monitors.append(("no_message_lost", "age retention (%s s) deleted %s although it was written "
                                        "only %d s before (TZ=%s)" % (age_limit, base, true_age, env.get("tz")), len(ex.ops)))
                    return          # not a deliberate deletion: its messages count as lost
            ex.deleted.update(ids)
        elif sc.get("comp") in CEXTS and base.endswith(ext):
            pass  # an archive (debris) deleted by the sink itself: the no-loss monitors judge the consequences
        elif sc.get("comp") in CEXTS:
            # C18 monitor: at the moment the source is removed the archive must hold exactly its bytes
            kind, member, got = read_archive(sc, path + ext)
            if kind == "junk" or got != data:
                ex.monitors.append(("archive_roundtrip", "source %s removed but archive %s yields %d bytes (%s) "
                                    "instead of %d" % (base, base + ext, len(got), kind, len(data)), len(ex.ops)))
            if KIND[sc["comp"]] != "copy" and member != base:
                ex.monitors.append(("archive_member_name", "member is %r, expected base name %r" % (member, base),
                                    len(ex.ops)))
    shim.on_remove = on_remove

    def rotation(message, file):
        shim.prim("rotcall")
        return state["rot"]

    comp_calls = []

    def compression_callable(path):
        shim.prim("compcall", path)
        comp_calls.append((len(ex.ops), path))
        if not os.path.isfile(path):
            ex.monitors.append(("callable_once_with_current_path",
                                "compression callable got %r which is not an existing file" % os.path.basename(path),
                                len(ex.ops)))
        if sum(1 for i, _p in comp_calls if i == len(ex.ops)) > 1:
            ex.monitors.append(("callable_once_with_current_path", "compression callable invoked twice in one call",
                                len(ex.ops)))

    def retention_callable(logs):
        import loguru._file_sink as fsm
        for p in sorted(logs)[: sc["ret"][1]]:
            fsm.os.stat(p)
            fsm.os.remove(p)
    shim.retention_codes.add(retention_callable.__code__)

    logger = Logger(core=Core(), exception=None, depth=0, record=False, lazy=False, colors=False, raw=False,
                    capture=True, patchers=[], extra={})
    stem = sc.get("stem", "app")
    template = os.path.join(logdir, stem + "_{time}.log" if sc["timed"] else stem + ".log")
    if sc.get("rel"):
        template = os.path.relpath(template, root)      # the sink is given a path relative to the cwd
    kwargs = {"format": "{message}", "catch": True, "encoding": sc.get("encoding", "utf8")}
    real = sc.get("real") or {}
    if real.get("rotation") is not None:
        kwargs["rotation"] = real["rotation"]      # loguru's own size predicate (monitors only, no model)
    elif sc["rot"]:
        kwargs["rotation"] = rotation
    c = sc.get("comp")
    if c == "call":
        kwargs["compression"] = compression_callable
    elif c is not None:
        kwargs["compression"] = sc.get("spelling", c)
    r = sc.get("ret")
    if real.get("retention") is not None:
        kwargs["retention"] = real["retention"]
    elif r:
        kwargs["retention"] = r[1] if r[0] == "count" else retention_callable
    if sc["watch"]:
        kwargs["watch"] = True

    hid = [None]
    pre_ids = set()
    for _n, _k, ids in sc.get("pre", []):
        pre_ids.update(ids)
    env_deleted = set()
    model_ops = []
    saved_err = sys.stderr
    try:
        make_pre(sc, logdir)
        if sc.get("rel"):
            os.makedirs(elsewhere, exist_ok=True)
            os.chdir(root)
            dd = os.path.join(elsewhere, os.path.relpath(logdir, root))
            os.makedirs(dd, exist_ok=True)
            for j, n in enumerate([("b", 0), ("A", ("b", 0)), ("R", 5, 1, ("b", 0))]):
                if n[0] == "b" and sc["timed"]:
                    continue
                path = os.path.join(dd, real_name(sc, n))
                with open(path, "wb") as f:
                    f.write(b"P%d\n" % (900 + j))
                decoy[path] = b"P%d\n" % (900 + j)
        if env.get("tz"):
            os.environ["TZ"] = env["tz"]
            time.tzset()
        shim.install()
        if env.get("now") is not None:
            import loguru._file_sink as fsm_
            fsm_.datetime = _FrozenDatetimeModule(env["now"])
        for idx, op in enumerate(sc["ops"]):
            kind = op[0]
            k0 = shim.k
            fired0 = len(shim.faulted)
            shim.begin_call()
            res = "ok"
            acked_id = None
            if kind in ("i", "w", "s"):
                state["rot"], state["clk"], state["ct1"], state["ct2"] = bool(op[1]), op[2], op[3], op[4]
            buf = io.StringIO()
            sys.stderr = buf
            try:
                if kind == "i" or (kind in ("w", "s") and hid[0] is None):
                    try:
                        with shim.openers():
                            hid[0] = logger.add(template, delay=(kind != "i"), **kwargs)
                    except OSError as e:
                        if kind != "i":
                            raise      # add(delay=True) performs no I/O: cannot be an injected fault
                        res = err_of_exc(e)
                    except Exception as e:  # noqa: the scenario only uses documented configurations
                        res = "ADD:" + err_of_exc(e)
                        ex.monitors.append(("format_table_total", "logger.add(compression=%r, ...) was rejected: %r"
                                            % (kwargs.get("compression"), e), idx))
                if res.startswith("ADD:"):
                    pass
                elif kind == "w":
                    mid = state["msg"]
                    state["msg"] += 1
                    try:
                        logger.info(msg_text(sc, mid))
                    except Exception as e:  # noqa: with catch=True nothing may escape
                        res = "RAISED:" + err_of_exc(e)
                        ex.monitors.append(("faults_are_reported_not_propagated",
                                            "logging call raised %r to the caller" % (e,), idx))
                    else:
                        res = err_of_stderr(buf.getvalue())
                        if res == "ok":
                            acked_id = mid
                elif kind == "s":
                    try:
                        logger.remove(hid[0])
                    except Exception as e:  # noqa
                        res = err_of_exc(e)
                    hid[0] = None
                elif kind == "r":
                    if hid[0] is not None:
                        raise RuntimeError("scenario: restart with a live handler")
                elif kind == "cd":
                    os.chdir(elsewhere)      # the application changes its working directory
                elif kind == "age":
                    # time passes: every file of the directory was last written op[1] seconds before `now`
                    for fname in os.listdir(logdir) if os.path.isdir(logdir) else []:
                        t = env["now"] - op[1]
                        os.utime(os.path.join(logdir, fname), (t, t))
                elif kind in ("xd", "xr"):
                    path = os.path.join(logdir, real_name(sc, ("b", op[1])))
                    if os.path.isfile(path):
                        with open(path, "rb") as f:
                            env_deleted.update(ids_of_bytes(sc, f.read())[0])
                        if kind == "xd":
                            os.remove(path)
                        else:
                            # the replacement may have content of its own (op[2] foreign lines): an existing file
                            # that nothing the sink does may truncate or overwrite
                            tmp = path + ".tmp-new"
                            nforeign = op[2] if len(op) > 2 else 0
                            ids = [PRE + 700 + 10 * idx + j for j in range(nforeign)]
                            with open(tmp, "wb") as f:
                                f.write("".join("P%d\n" % (i - PRE) for i in ids).encode(sc.get("encoding", "utf8")))
                            pre_ids.update(ids)
                            os.replace(tmp, path)
            finally:
                sys.stderr = saved_err
            # ---- what happened
            calls = shim.calls[k0:]
            trace = [enc_call(sc, logdir, cl) for cl in calls]
            fired = shim.faulted[fired0:]
            if kind in ("i", "w", "s"):
                ret = []
                for cl in calls:
                    if cl[0] == "retstat":
                        ret.append("s")
                    elif cl[0] == "remove" and cl[1][1] == "retention":
                        ret.append("d/" + enc_any(name_of_real(sc, os.path.basename(cl[1][0]))))
                model_ops.append("%s:%d:%d:%d:%d:%s" % (kind, op[1], op[2] if sc["timed"] else 0, op[3], op[4],
                                                       ",".join(ret) or "-"))
            elif kind == "r":
                model_ops.append("r")
            elif kind in ("cd", "age"):
                model_ops.append("xd:o_999")     # nothing happens to the sink or its directory
            else:
                model_ops.append("%s:b_%d" % (kind, op[1] if sc["timed"] else 0))
            if acked_id is not None:
                ex.acked.append(acked_id)
            snap = snapshot(sc, logdir)
            rec = {"op": op, "res": res, "trace": trace, "snap": snap, "acked": acked_id, "fired": fired}
            ex.ops.append(rec)
            # ---- direct monitors on the real directory (model-independent)
            run_monitors(sc, ex, idx, rec, pre_ids, env_deleted, bool(fault_at))
            for path, data in decoy.items():
                try:
                    with open(path, "rb") as f:
                        now_ = f.read()
                except OSError:
                    now_ = None
                if now_ != data:
                    ex.monitors.append(("rename_never_overwrites", "a file OUTSIDE the sink's directory (same relative "
                                        "name under the new working directory) was %s: %s"
                                        % ("removed" if now_ is None else "modified", os.path.relpath(path, root)), idx))
            listing = sorted(os.listdir(os.path.dirname(next(iter(decoy)))) ) if decoy else []
            if decoy and listing != sorted(os.path.basename(p_) for p_ in decoy):
                ex.monitors.append(("rename_never_overwrites", "the sink created files outside its directory after a "
                                    "chdir: %r" % listing, idx))
            # usability: a call in which no injected fault fired must succeed (the sink recovered) – this
            # includes the call after a failed file.close() (finding F26, fixed in e6154e8)
            if kind == "w" and not fired and res != "ok" and not res.startswith("RAISED"):
                ex.monitors.append(("sink_usable_after_any_fault",
                                    "call #%d reported %s although no fault was injected in it" % (idx, res), idx))
            if (kind == "i" and res != "ok") or res.startswith("ADD:"):
                break   # add() failed: there is no sink
        if hid[0] is not None:
            sys.stderr = io.StringIO()
            try:
                shim.fault_at = {}
                logger.remove(hid[0])
            except Exception:  # noqa
                pass
            finally:
                sys.stderr = saved_err
    finally:
        sys.stderr = saved_err
        shim.uninstall()
        os.chdir(saved_cwd)
        if env.get("tz"):
            if saved_tz is None:
                os.environ.pop("TZ", None)
            else:
                os.environ["TZ"] = saved_tz
            time.tzset()
        if reuse_root is not None:
            clear_files(root)
        else:
            shutil.rmtree(root, ignore_errors=True)
    ex.nprims = shim.k
    bits = "".join("1" if j in fault_at else "0" for j in range(max(list(fault_at) + [-1]) + 1)) or "-"
    pre = ";".join("%s=%s" % (n, pre_entry_enc(sc, n, k, ids)) for n, k, ids in sc.get("pre", [])) or "-"
    ex.line = "run %s %s 0 %s %s" % (cfg_token(sc), pre, bits, " ".join(model_ops))
    return ex


class _FrozenDatetimeModule:
    """stands for the `datetime` module inside loguru._file_sink: `datetime.datetime.now()` is frozen at a chosen
    instant (everything else is the real module; local-time conversions follow the process's TZ)"""

    def __init__(self, now):
        frozen = now

        class datetime(pydt.datetime):  # noqa: N801
            @classmethod
            def now(cls, tz=None):
                return cls.fromtimestamp(frozen, tz)

        self.datetime = datetime

    def __getattr__(self, name):
        return getattr(pydt, name)


def enc_call(sc, logdir, cl):
    kind, args = cl

    def nm(p):
        return enc_any(name_of_real(sc, os.path.basename(p)))

    if kind in ("open", "openr", "getctime", "copen", "compcall"):
        return kind + "/" + nm(args[0])
    if kind == "rename":
        return "rename/%s/%s" % (nm(args[0]), nm(args[1]))
    if kind == "remove":
        return "remove/" + nm(args[0])
    return kind


def run_monitors(sc, ex, idx, rec, pre_ids, env_deleted, faulted_run):
    snap = rec["snap"]
    gone = ex.deleted | env_deleted
    plain_count, total_count = {}, {}
    for key, (entry, ids, problems) in snap.items():
        for p in problems:
            ex.monitors.append(("message_whole", "%s: %s" % (key, p), idx))
        ms = [i for i in ids if 0 <= i < PRE]
        if any(a >= b for a, b in zip(ms, ms[1:])):
            ex.monitors.append(("order_preserved", "%s holds ids out of logging order: %r" % (key, ms[:20]), idx))
        ps = [j for j, i in enumerate(ids) if i >= PRE]
        if ps and ms and max(ps) > min(j for j, i in enumerate(ids) if 0 <= i < PRE):
            ex.monitors.append(("order_preserved", "%s: pre-existing content after new messages" % key, idx))
        for i in ids:
            total_count[i] = total_count.get(i, 0) + 1
            if entry.startswith("f:"):
                plain_count[i] = plain_count.get(i, 0) + 1
    for i in ex.acked:
        if i in gone:
            continue
        if total_count.get(i, 0) == 0:
            ex.monitors.append(("no_message_lost", "acknowledged message %d is in no file or archive" % i, idx))
        if plain_count.get(i, 0) > 1:
            ex.monitors.append(("no_message_lost", "message %d occurs in %d plain files" % (i, plain_count[i]), idx))
        if not faulted_run and total_count.get(i, 0) > 1:
            ex.monitors.append(("no_message_lost", "message %d occurs %d times (fault-free run)" % (i, total_count[i]), idx))
    for i in pre_ids:
        if i not in gone and total_count.get(i, 0) == 0:
            ex.monitors.append(("rename_never_overwrites", "pre-existing content P%d disappeared (a file was "
                                "overwritten or removed outside retention)" % (i - PRE), idx))
    # across files: the id ranges of distinct files do not interleave (copies archive/source excepted)
    runs = sorted({tuple(i for i in ids if 0 <= i < PRE) for _e, ids, _p in snap.values()} - {()})
    for a, b in zip(runs, runs[1:]):
        if b[0] <= a[-1] and not (set(a) <= set(b) or set(b) <= set(a)):
            ex.monitors.append(("order_preserved", "files interleave: %r / %r" % (a[:10], b[:10]), idx))
    # C18: a log file is compressed when it is closed at sink stop iff NO rotation is configured (fault-free runs)
    if (not faulted_run and idx > 0 and rec["op"][0] == "s" and rec["res"] == "ok" and sc.get("comp") in CEXTS
            and not (sc.get("real") or {}).get("rotation")):
        before = ex.ops[idx - 1]["snap"]
        if not sc["rot"]:
            # files this sink has written messages to (a pre-existing file of another name is none of its business)
            left = sorted(k for k, v in snap.items() if k.startswith("b_") and v[0].startswith("f:") and k in before
                          and any(0 <= i < PRE for i in v[1]))
            if left:
                ex.monitors.append(("archive_roundtrip", "stop() of a sink without rotation left %s uncompressed (no "
                                    "archive produced at the final stop)" % left, idx))
        else:
            new = sorted(k for k in snap if k.startswith("A_") and k not in before)
            if new:
                ex.monitors.append(("compression_only_at_rotation_or_final_stop", "stop() of a sink WITH a rotation "
                                    "function produced %s" % new, idx))
    if not faulted_run and rec["op"][0] in ("w", "s", "i") and rec["res"] != "ok":
        ex.monitors.append(("sink_usable_after_any_fault", "fault-free run: call #%d reported %s" % (idx, rec["res"]), idx))


# ----------------------------------------------------------------------------- model side
def parse_model(out):
    parts = out.split(" # ")
    ops = []
    for p in parts[:-1]:
        res, trace, fs = p.split("|")
        d = {}
        for item in fs.split(";") if fs else []:
            n, e = item.split("=")
            d[n] = e
        ops.append((res, trace.split(",") if trace else [], d))
    return ops, parts[-1]


def compare(ex, out):
    """list of (observable, text, op index)"""
    if out == "bad-op":
        return [("driver", "model rejected the line: " + ex.line, 0)]
    mops, _ghost = parse_model(out)
    diffs = []
    for idx, rec in enumerate(ex.ops):
        if idx >= len(mops):
            diffs.append(("length", "model has %d steps, run has %d" % (len(mops), len(ex.ops)), idx))
            break
        mres, mtrace, mfs = mops[idx]
        res = rec["res"]
        if res.startswith("RAISED:"):
            res = res[7:]
        if res != mres:
            diffs.append(("result", "op %d %r: implementation %s, model %s" % (idx, rec["op"], rec["res"], mres), idx))
        real_fs = {k: v[0] for k, v in rec["snap"].items()}
        if real_fs != mfs:
            diffs.append(("directory", "op %d %r: implementation %r, model %r" % (idx, rec["op"], real_fs, mfs), idx))
        if rec["trace"] != mtrace:
            diffs.append(("trace", "op %d %r: implementation %r, model %r" % (idx, rec["op"], rec["trace"], mtrace), idx))
        if diffs:
            break
    return diffs


# ----------------------------------------------------------------------------- scenarios
def W(rot=0, clk=0, ct1=5, ct2=6):
    return ["w", rot, clk, ct1, ct2]


def S(clk=0, ct1=5, ct2=6):
    return ["s", 0, clk, ct1, ct2]


def I(clk=0):
    return ["i", 0, clk, 5, 6]


def base_sc(**kw):
    sc = {"rot": True, "comp": None, "ret": None, "watch": False, "timed": False, "pre": [], "payload": "ascii",
          "encoding": "utf8", "ops": []}
    sc.update(kw)
    return sc


# directory / file names: glob metacharacters (and bracket expressions that are valid character classes,
# negated classes, unbalanced brackets) are ordinary characters of a path
DIRS = ["logs", "[worker-1]", "lo*gs", "l?gs/sub[0-9]", "[[]x]", "a[!b]c", "un[balanced", "logs"]
STEMS = ["app", "a[p]p", "app*", "ap?p", "[app]", "app[1", "app"]
# file-name length and script are part of "every file": long ASCII, long CJK (3 bytes per character in UTF-8),
# mixed; the rotated name adds the 27-character date, the archive its extension (file systems allow 255 bytes)
LONG_STEMS = ["service-" + "x" * 104, "日志记录" * 10, "журнал-" + "ü" * 40 + "-application-log"]


def with_names(scs, shift=0):
    """spread the name alphabets over a list of scenarios (deterministic)"""
    for i, sc in enumerate(scs):
        sc.setdefault("dir", DIRS[(i + shift) % len(DIRS)])
        sc.setdefault("stem", STEMS[(i * 3 + shift) % len(STEMS)])
    return scs


def curated():
    return with_names(_curated())


def _curated():
    out = []
    # plain rotation, fixed path: same-name rename twice with the same creation date -> counter
    out.append(base_sc(ops=[W(), W(1), W(), W(1), W(), S()]))
    # every kind of compression with a pre-existing archive under the target name and under the renamed name
    for comp in ("gz", "tar.gz", "zip"):
        out.append(base_sc(comp=comp, pre=[["A_R_5_1_b_0", "a", [PRE + 1]], ["A_R_6_1_R_5_1_b_0", "a", [PRE + 2]]],
                           ops=[W(), W(1), W(), W(1), W(), S()]))
    # no rotation: compression + retention at stop, restart appends
    out.append(base_sc(rot=False, comp="bz2", ret=["count", 1], pre=[["b_0", "f", [PRE + 3]]],
                       ops=[I(), W(), W(), S(), ["r"], W(), S()]))
    # timed path: new path differs from the old one, count retention
    out.append(base_sc(timed=True, comp="tar", ret=["count", 2],
                       ops=[W(0, 1), W(1, 2), W(0, 2), W(1, 3), W(1, 4), W(0, 4), S(4)]))
    # timed path with a frozen clock: same-name rename
    out.append(base_sc(timed=True, comp="xz", ops=[I(7), W(0, 7), W(1, 7), W(1, 7), S(7)]))
    # callable compression and callable retention
    out.append(base_sc(comp="call", ret=["call", 1], ops=[W(), W(1), W(1), W(), S()]))
    # watch: deleted and replaced externally
    out.append(base_sc(watch=True, comp="lzma", ops=[I(), W(), ["xd", 0], W(), W(1), ["xr", 0], W(), W(1), S()]))
    out.append(base_sc(watch=True, rot=False, ops=[W(), ["xr", 0], W(), ["xd", 0], W(), S()]))
    # watch: the file is replaced by one that HAS content (another process's file): re-opening appends to it, nothing
    # may truncate it (monitors only: the model's replacement file is empty)
    out.append(base_sc(watch=True, rot=False, monitors_only=True, ops=[W(), ["xr", 0, 2], W(), W(), S()]))
    out.append(base_sc(watch=True, comp="gz", monitors_only=True, ops=[I(), W(), ["xr", 0, 3], W(), W(1), W(), S()]))
    # rename target collisions: pre-existing files under the renamed names
    out.append(base_sc(pre=[["R_5_1_b_0", "f", [PRE + 4]], ["R_5_2_b_0", "f", [PRE + 5]], ["o_1", "f", [PRE + 6]]],
                       ret=["count", 3], ops=[W(), W(1), W(1), W(), S()]))
    out.append(base_sc(comp="tar.bz2", ret=["count", 0], payload="uni", ops=[I(), W(), W(1), W(), S()]))
    out.append(base_sc(comp="tar.xz", payload="uni", ops=[W(), W(), W(1, 0, 5, 5), W(1, 0, 5, 5), S(0, 5, 5)]))
    out += chdir_scenarios(["bz2", None])
    return out


def chdir_scenarios(comps):
    """the sink is given a RELATIVE path and the application changes its working directory between add() and the
    end of the file's life (files of the same relative names exist under the new cwd); no rotation / lazy creation
    / retention after the chdir (new files legitimately follow the cwd there)"""
    out = []
    for i, comp in enumerate(comps):
        out.append(base_sc(rot=(i % 2 == 1), rel=True, comp=comp,
                           ops=[I(), W(), W(1 if i % 2 == 1 else 0), ["cd"], W(), W(), S()]))
    return out


def subsets_of_counters(quick, rng, hi=6):
    """subsets of the counters {1 (= name without counter), 2, …, hi}: all of them (thorough) or a fixed family
    with holes at the start, in the middle and at the end plus a few random ones (quick)"""
    import itertools
    allsets = [set(c) for r in range(hi + 1) for c in itertools.combinations(range(1, hi + 1), r)]
    if not quick:
        return allsets
    fixed = [{1, 3}, {1, 2, 4}, {1, 3, 5}, {2, 3}, set(range(1, hi + 1)), {1, 4, 5, 6}, {1, 2, 3, 5, 6}]
    return fixed + [rng.choice(allsets) for _ in range(3)]


def hole_scenarios(quick, rng, comps=(None, "gz", "tar", "zip")):
    """pre-existing names with HOLES in the counter sequence, for the rotation rename (`app.<date>[.N].log`) and
    for the archive collision rename (`app.<date>.<date'>[.N].log.<ext>`): whatever subset of the numbered names
    exists, the content of every pre-existing file must still be there afterwards and names stay unique"""
    out = []
    k = 0
    for comp in comps:
        for sub in subsets_of_counters(quick, rng):
            k += 1
            if comp is None:
                pre = [["R_5_%d_b_0" % c, "f", [PRE + 20 + c]] for c in sorted(sub)]
            else:
                if quick and k % 2:
                    continue
                pre = [["A_R_5_1_b_0", "a", [PRE + 1]]] + \
                      [["A_R_6_%d_R_5_1_b_0" % c, "a", [PRE + 20 + c]] for c in sorted(sub)]
            sc = base_sc(comp=comp, pre=pre, ops=[W(), W(1), W(), S()])
            # every scenario fault-free; a few of them also under every single fault
            if not (k % (9 if quick else 16) == 0):
                sc["nofaults"] = True
            out.append(sc)
    return out


def real_policy_scenarios(quick):
    """loguru's own size rotation and count/age retention combined with compression, under faults; judged by
    the monitors only (the rotation/retention predicates themselves belong to C19/C10)"""
    n = 10 if quick else 16
    out = [
        base_sc(comp="gz", real={"rotation": "60 B", "retention": 2}, ret=["count", 2],
                ops=[W() for _ in range(n)] + [S()]),
        base_sc(comp=None, watch=True, real={"rotation": "45 B", "retention": 1}, ret=["count", 1],
                ops=[W() for _ in range(n // 2)] + [["xd", 0]] + [W() for _ in range(n // 2)] + [S()]),
    ]
    # age retention in zones with daylight-saving switches: files last written shortly before / after a switch,
    # ages on both sides of the configured limit ("time passes" = the `age` operation); a file may only be
    # deleted when it really is older than the limit
    zones = [("CET-1CEST,M3.5.0,M10.5.0/3", 1616895000),      # 2021-03-28 01:30Z, 30 min after spring forward
             ("CET-1CEST,M3.5.0,M10.5.0/3", 1635643800),      # 2021-10-31 01:30Z, 30 min after falling back
             ("AEST-10AEDT,M10.1.0,M4.1.0/3", 1633192200),    # 2021-10-02 16:30Z, southern spring forward
             ("UTC0", 1616895000)]
    for zi, (tz, now) in enumerate(zones if not quick else zones[:2]):
        out.append(base_sc(comp=(None if zi % 2 == 0 else "gz"), env={"tz": tz, "now": now},
                           real={"retention": "1 hour", "retention_seconds": 3600}, ret=["count", 0],
                           ops=[W(), W(1), W(), ["age", 2400], W(1), W(), ["age", 3300], W(1), ["age", 4000], W(1),
                                W(), S()]))
    if not quick:
        out.append(base_sc(timed=True, comp="tar.gz", real={"rotation": "60 B", "retention": "0 seconds"}, ret=["count", 0],
                           ops=[W(0, k) for k in range(n)] + [S(n)]))
        out.append(base_sc(comp="zip", payload="uni", real={"rotation": "80 B"},
                           pre=[["R_5_1_b_0", "f", [PRE + 8]], ["A_R_5_2_b_0", "a", [PRE + 9]]],
                           ops=[I()] + [W() for _ in range(n)] + [S(), ["r"], W(), S()]))
    return out


def gen_scenario(rng):
    comp = rng.choice([None, None, "call"] + CEXTS + CEXTS)
    sc = base_sc(rot=rng.chance(80), comp=comp, watch=rng.chance(25), timed=rng.chance(35),
                 payload=rng.choice(["ascii", "ascii", "uni"]))
    if rng.chance(60):
        sc["dir"] = rng.choice(DIRS)
        sc["stem"] = rng.choice(STEMS + LONG_STEMS[:1]) if rng.chance(85) else rng.choice(LONG_STEMS)
    if rng.chance(45):
        sc["ret"] = ["count", rng.below(4)] if rng.chance(75) else ["call", rng.range(1, 2)]
    clk = rng.below(3)
    ops = []
    if rng.chance(40):
        ops.append(I(clk))
    n = rng.range(3, 8)
    cts = [5, 5, 6, rng.range(3, 9)]
    stopped = False
    for _ in range(n):
        if stopped:
            ops.append(["r"])
            stopped = False
            if rng.chance(40):
                ops.append(I(clk))
        r = rng.below(100)
        if sc["timed"] and rng.chance(50):
            clk += rng.below(3)
        if r < 70:
            ops.append(["w", 1 if sc["rot"] and rng.chance(45) else 0, clk, rng.choice(cts), rng.choice(cts)])
        elif r < 80:
            ops.append(["s", 0, clk, rng.choice(cts), rng.choice(cts)])
            stopped = True
        elif sc["watch"]:
            ops.append([rng.choice(["xd", "xr"]), clk])
        else:
            ops.append(["w", 1 if sc["rot"] else 0, clk, rng.choice(cts), rng.choice(cts)])
    if not stopped:
        ops.append(["s", 0, clk, rng.choice(cts), rng.choice(cts)])
    sc["ops"] = ops
    pre = []
    cands = ["b_%d" % (clk if sc["timed"] else 0), "R_5_1_b_0", "R_5_2_b_0", "R_6_1_b_0", "o_1", "o_2"]
    if comp in CEXTS:
        cands += ["A_b_0", "A_R_5_1_b_0", "A_R_6_1_R_5_1_b_0", "A_R_5_1_R_5_1_b_0", "A_R_6_1_b_0"]
    j = 10
    for cnd in cands:
        if rng.chance(22):
            if sc["timed"] and "b_0" in cnd:
                continue
            pre.append([cnd, "a" if cnd.startswith("A_") else "f", [PRE + j, PRE + j + 1][: rng.range(0, 2)]])
            j += 2
    sc["pre"] = pre
    return sc


def sc_key(sc, faults):
    return core.hashlib.sha256(repr((sorted(sc.items()), tuple(faults))).encode()).hexdigest()[:16]


def nontrivial(ex):
    for rec in ex.ops:
        if rec["fired"]:
            return True
        if any(t.startswith(("rename/", "copen/", "remove/", "compcall/")) or t == "glob" for t in rec["trace"]):
            return True
    return False


# ----------------------------------------------------------------------------- generate_rename_path (strings)
RP_ROOTS = ["app", "a.b", "logs/app", "lo*gs/[w]/ap?p", "日志", "x" * 40, ".hidden", "a b", "app.2020", "r.", "/abs/dir.d/f",
            "[x]/a[0-9]b", "a.b/c.d/e"]
RP_EXTS = ["", ".log", ".log.gz", ".tar.gz", ".", ".l g", ".日"]


def rename_case(rng):
    """(root, ext, ctime, taken): the taken set is built around the candidate family – runs of counters, holes,
    the digit boundary 9/10, and decoys that only look like candidates"""
    root, ext = rng.choice(RP_ROOTS), rng.choice(RP_EXTS)
    ct = rng.range(0, 2 * 10 ** 9) + rng.below(10 ** 6) / 10 ** 6
    date = pydt.datetime.fromtimestamp(ct).strftime(DATE_FMT)

    def cand(c):
        return "%s.%s%s%s" % (root, date, "" if c == 1 else ".%d" % c, ext)

    r = rng.below(100)
    if r < 15:
        counters = set()
    elif r < 45:
        counters = set(range(1, rng.range(1, 14) + 1))                      # a full run (crosses 9 -> 10)
    elif r < 75:
        hi = rng.range(2, 15)
        counters = {c for c in range(1, hi + 1) if rng.chance(70)}          # holes
    elif r < 98:
        counters = set(range(2, rng.range(2, 12) + 1))                      # first name free, later ones taken
    else:
        counters = set(range(1, rng.range(97, 104)))                        # long chain (99 -> 100)
    taken = [cand(c) for c in sorted(counters)]
    decoys = [root + ext, "%s.%s.01%s" % (root, date, ext), "%s.%s.+3%s" % (root, date, ext), cand(3) + ".gz",
              "%s.%s.%s" % (root, date, ext.lstrip(".")), "%s.%s.1%s" % (root, date, ext), "%s.%s.0%s" % (root, date, ext),
              "%s.%sX%s" % (root, date, ext), cand(2).upper(), "%s.%s. 2%s" % (root, date, ext)]
    for d in decoys:
        if rng.chance(30) and d not in taken:
            taken.append(d)
    return {"root": root, "ext": ext, "ct": ct, "taken": rng.shuffle(taken)}


def rename_oracle(case):
    """the property itself: creation date, plus the least counter >= 2 if needed, never an existing name"""
    date = pydt.datetime.fromtimestamp(case["ct"]).strftime(DATE_FMT)
    taken = set(case["taken"])
    c = 1
    while True:
        name = "%s.%s%s%s" % (case["root"], date, "" if c == 1 else ".%d" % c, case["ext"])
        if name not in taken:
            return name
        c += 1


def rename_impl(case, base=None):
    """the real `generate_rename_path` over a REAL scratch directory that holds exactly `taken` (whatever the
    implementation uses to look – os.path.exists, glob, listdir – sees the same directory); a probing loop that
    does not end is cut by a probe budget"""
    import loguru._file_sink as fsm
    tmp = tempfile.mkdtemp(prefix="c08rp_")
    budget = [len(case["taken"]) + 8]

    class _Path:
        def exists(self, p):
            budget[0] -= 1
            if budget[0] < 0:
                raise RuntimeError("probe budget exhausted")
            return os.path.exists(p)

        def __getattr__(self, name):
            return getattr(os.path, name)

    class _Os:
        path = _Path()

        def __getattr__(self, name):
            return getattr(os, name)

    def real(p):
        return os.path.join(tmp, p.lstrip("/"))

    saved = fsm.__dict__.get("os")
    try:
        for t in case["taken"]:
            os.makedirs(os.path.dirname(real(t)), exist_ok=True)
            with open(real(t), "wb") as f:
                f.write(b"taken\n")
        os.makedirs(os.path.dirname(real(case["root"] + "x")), exist_ok=True)
        fsm.os = _Os()
        try:
            got = fsm.generate_rename_path(real(case["root"]), case["ext"], case["ct"])
        finally:
            fsm.os = saved
        if not isinstance(got, str) or not got.startswith(tmp + os.sep):
            return ("ok", repr(got))
        rel = got[len(tmp) + 1:]
        return ("ok", ("/" + rel) if case["root"].startswith("/") else rel)
    except RuntimeError as e:
        return ("loop", str(e))
    except Exception as e:  # noqa: an observation
        return ("err", core.err_kind(e))
    finally:
        shutil.rmtree(tmp, ignore_errors=True)


def rename_line(case):
    date = pydt.datetime.fromtimestamp(case["ct"]).strftime(DATE_FMT)
    return ("gen %s %s %s %s" % (core.enc(case["root"]), core.enc(date), core.enc(case["ext"]),
                                " ".join(core.enc(t) for t in case["taken"]))).rstrip()


def rename_judge(case, got, model=None):
    """list of (kind, text); kind "oracle" = the property itself is violated (the name exists already, the loop
    does not end, or the name is not root + … creation date … + ext), kind "model" = the implementation merely
    differs from the Lean model's exact shape (root.date[.N]ext with the least free N)"""
    out = []
    want = rename_oracle(case)
    date = pydt.datetime.fromtimestamp(case["ct"]).strftime(DATE_FMT)
    head = "generate_rename_path(%r, %r, %r) with %d existing paths %r..." % (
        case["root"], case["ext"], case["ct"], len(case["taken"]), sorted(case["taken"])[:4])
    if got[0] == "loop":
        out.append(("oracle", "rename_never_overwrites: %s gave no result within |existing|+8 probes (the counter loop "
                    "does not find a free name); expected %r" % (head, want)))
    elif got[0] != "ok":
        out.append(("oracle", "rename_never_overwrites: %s raised %s; expected %r" % (head, got[1], want)))
    elif got[1] in set(case["taken"]):
        out.append(("oracle", "rename_never_overwrites: %s returned %r, an EXISTING path (the following os.rename "
                    "overwrites it); expected %r" % (head, got[1], want)))
    elif not (got[1].startswith(case["root"]) and got[1].endswith(case["ext"]) and date in got[1]
              and got[1] != case["root"] + case["ext"]):
        out.append(("oracle", "rename_never_overwrites: %s returned %r, which is not the old name with the creation "
                    "date %s inserted before the extension" % (head, got[1], date)))
    if model is not None and model != "bad-op" and got[0] == "ok":
        m = core.dec(model[3:]) if model.startswith("ok ") else None
        if m != got[1]:
            out.append(("model", "%s: implementation %r, model (generate_rename_path_least_free) %r" % (head, got[1], m)))
    return out


def rename_path_stream(ctx, drv):
    rng = ctx.rng.fork("rename_path")
    fixed = [{"root": "app", "ext": ".log", "ct": 1600000000.5, "taken": []}]
    d0 = pydt.datetime.fromtimestamp(1600000000.5).strftime(DATE_FMT)
    fixed.append({"root": "app", "ext": ".log", "ct": 1600000000.5,
                  "taken": ["app.%s.log" % d0, "app.%s.2.log" % d0, "app.%s.4.log" % d0]})
    fixed.append({"root": "a", "ext": "", "ct": 1600000000.5, "taken": ["a.%s" % d0] + ["a.%s.%d" % (d0, c) for c in range(2, 11)]})
    cases = fixed + [rename_case(rng) for _ in range(ctx.n(100, 6000))]
    gots = [rename_impl(c) for c in cases]
    try:
        outs = drv.run([rename_line(c) for c in cases])
    except core.DriverError as e:
        ctx.broke("driver:" + drv.name + " (gen)", str(e))
        outs = [None] * len(cases)
    nbad = 0
    for case, got, out in zip(cases, gots, outs):
        ctx.case(("rename_path", case["root"], case["ext"], case["ct"], tuple(case["taken"])),
                 nontrivial=bool(case["taken"]))
        ctx.stat("rename_path_cases")
        ctx.stat("rename_path_taken:%s" % ("0" if not case["taken"] else "1-9" if len(case["taken"]) < 10 else "10+"))
        if out is not None:
            ctx.traces_validated += 1
        if out == "bad-op":
            ctx.broke("driver:" + drv.name + " (gen)", "model rejected the line " + rename_line(case)[:200])
        for kind, text in rename_judge(case, got, out):
            nbad += 1
            if nbad <= 3:
                if kind == "model":
                    # a different (still fresh) naming scheme is not a violation of the property by itself
                    ctx.broke("correspondence FileSink.generateRenamePath", text)
                else:
                    ctx.violation(text, {"stream": "rename_path", "case": case}, kind="oracle")



# ----------------------------------------------------------------------------- two threads failing at once
class _GateStream:
    """stands for sys.stderr: the thread named `gated` is suspended inside its first write() until released (the
    pre-emption point is INSIDE the error report), everything written is kept"""

    def __init__(self, gated):
        import threading
        self.gated, self.entered, self.release = gated, threading.Event(), threading.Event()
        self._done, self._lock, self._buf = False, threading.Lock(), io.StringIO()

    def write(self, text):
        import threading
        if threading.current_thread().name == self.gated and not self._done:
            self._done = True
            self.entered.set()
            self.release.wait(20)
        with self._lock:
            self._buf.write(text)
        return len(text)

    def flush(self):
        pass

    def getvalue(self):
        with self._lock:
            return self._buf.getvalue()


def report_race(sc, faults):
    """ops of `sc` must be [w, w(1), w(1), w]: message 0 normally, messages 1 and 2 by two THREADS whose calls both
    fail (injected faults), T1 being suspended inside its error report while T2 runs, message 3 normally, then the sink
    is removed.  Returns (problems, info): every message must be readable from the directory or have ITS OWN report."""
    import threading
    from loguru._logger import Core, Logger
    root = tempfile.mkdtemp(prefix="c08_")
    logdir = os.path.join(root, *sc.get("dir", "logs").split("/"))
    shim = Shim()
    shim.fault_at = {k: getattr(errno_mod, e) for k, e in norm_faults(faults)}
    state = {"rot": False}
    shim.clock = lambda: clk_dt(0)
    shim.ctime = lambda path: float(T0 + 5)

    def rotation(message, file):
        shim.prim("rotcall")
        return state["rot"]

    logger = Logger(core=Core(), exception=None, depth=0, record=False, lazy=False, colors=False, raw=False,
                    capture=True, patchers=[], extra={})
    stem = sc.get("stem", "app")
    kwargs = {"format": "{message}", "catch": True, "rotation": rotation}
    if sc.get("comp") in CEXTS:
        kwargs["compression"] = sc["comp"]
    gate = _GateStream("T1")
    saved_err = sys.stderr
    problems, info = [], {}
    try:
        make_pre(sc, logdir)
        shim.install()
        sys.stderr = gate
        with shim.openers():
            hid = logger.add(os.path.join(logdir, stem + ".log"), **kwargs)
        logger.info(msg_text(sc, 0))
        state["rot"] = True
        t1 = threading.Thread(target=lambda: logger.info(msg_text(sc, 1)), name="T1")
        t2 = threading.Thread(target=lambda: logger.info(msg_text(sc, 2)), name="T2")
        t1.start()
        info["t1_parked"] = gate.entered.wait(10)
        t2.start()
        t2.join(10)
        info["t2_finished_while_t1_parked"] = not t2.is_alive()
        gate.release.set()
        t1.join(20)
        t2.join(20)
        if t1.is_alive() or t2.is_alive():
            problems.append("a logging thread did not finish within 20 s")
        state["rot"] = False
        logger.info(msg_text(sc, 3))
        shim.fault_at = {}
        try:
            logger.remove(hid)
        except Exception as e:  # noqa: no fault is pending here: the sink must stop normally
            problems.append("sink_usable_after_any_fault: remove() of the sink raised %r although no fault was pending "
                            "(after two concurrent failed calls)" % (e,))
        snap = snapshot(sc, logdir)
        present = {i for _e, ids, _p in snap.values() for i in ids}
        text = gate.getvalue()
        reports = text.split("--- Logging error in Loguru Handler")[1:]
        info["reports"] = len(reports)
        info["fired"] = list(shim.faulted)
        for i in range(4):
            reported = any(("M%d:" % i) in r for r in reports)
            if i not in present and not reported:
                problems.append("faults_are_reported_not_propagated: message %d is in no file or archive and no error "
                                "report names it (reports: %d, injected faults fired: %r; T1 was suspended inside its "
                                "report while T2 failed)" % (i, len(reports), shim.faulted))
    except Exception as e:  # noqa: nothing here may raise on a tree where the property holds (catch=True, no fault at add/remove)
        problems.append("sink_usable_after_any_fault: the two-thread scenario raised %r" % (e,))
    finally:
        sys.stderr = saved_err
        gate.release.set()
        shim.uninstall()
        shutil.rmtree(root, ignore_errors=True)
    return problems, info


def report_race_stream(ctx):
    """class of seed C08-p (the reporting path must be per call): two threads fail on the same file sink at the same
    time; fault kinds: rotation rename, re-creation open, compression opener / copy, source remove"""
    rng = ctx.rng.fork("report-race")
    variants = [(None, "rename"), ("gz", "copen"), ("zip", "ccopy"), (None, "open"), ("tar", "remove"), ("gz", "getctime")]
    for comp, kind in variants if not ctx.quick else variants[:3] + [rng.choice(variants[3:])]:
        sc = base_sc(comp=comp, ops=[W(), W(1), W(1), W()], dir=rng.choice(DIRS), stem=rng.choice(STEMS))
        if kind == "getctime" and comp:
            sc["pre"] = [["A_R_5_1_b_0", "a", [PRE + 1]]]
        # where the chosen primitive sits in call 1, and – after call 1 failed there – in call 2 (sequential runs:
        # T1 is suspended only after all its primitives, so the indices are those of the concurrent run)
        ex0 = execute(sc)
        tr = [(j, t.split("/")[0]) for j, t in enumerate(sum((r["trace"] for r in ex0.ops[:2]), []))]
        base1 = len(ex0.ops[0]["trace"])
        k1 = [j for j, t in tr if j >= base1 and t == kind]
        if not k1:
            continue
        ex1 = execute(sc, ((k1[0], "EACCES"),))
        n01 = len(ex1.ops[0]["trace"]) + len(ex1.ops[1]["trace"])
        k2 = [n01 + j for j, t in enumerate(ex1.ops[2]["trace"]) if t.split("/")[0] == kind]
        faults = [(k1[0], "EACCES")] + ([(k2[0], "EIO")] if k2 else [])
        problems, info = report_race(sc, faults)
        ctx.case(("report_race", comp, kind, sc["dir"], sc["stem"]), nontrivial=len(info.get("fired", [])) >= 2)
        ctx.stat("report_race_runs")
        ctx.stat("report_race_faults_fired:%d" % len(info.get("fired", [])))
        if not info.get("t1_parked"):
            ctx.stat("report_race_t1_never_reported")
        for ptext in problems[:2]:
            ctx.violation(ptext, {"stream": "report_race", "scenario": sc, "faults": [list(f) for f in faults]},
                          kind="oracle")



# ----------------------------------------------------------------------------- run
def explore(ctx, scenarios, pairs, errno_sweep=1):
    """runs every scenario fault-free, then with every single fault – the errno of fault k rotates through
    ERRNOS – then, for every `errno_sweep`-th scenario, the FIRST call of every primitive kind with every other
    errno (quick: ENOSPC, EDQUOT, EACCES besides the rotating one; thorough: all of ERRNOS), then pairs."""
    execs = []
    errnos = ERRNOS if not ctx.quick else ERRNOS[:4]
    for si, sc in enumerate(scenarios):
        shared = tempfile.mkdtemp(prefix="c08_")
        try:
            _explore_one(ctx, si, sc, pairs, errno_sweep, errnos, execs, shared)
        finally:
            shutil.rmtree(shared, ignore_errors=True)
    return execs


def _explore_one(ctx, si, sc, pairs, errno_sweep, errnos, execs, shared):
    def execute(sc_, faults=()):     # every execution of this scenario re-uses one (emptied) scratch tree
        return globals()["execute"](sc_, faults, reuse_root=shared)

    ex0 = execute(sc)
    execs.append((sc, (), ex0))
    n = ex0.nprims
    kinds = [t.split("/")[0] for rec in ex0.ops for t in rec["trace"]]
    ctx.stat("scenarios")
    ctx.stat("primitive_calls_fault_free", n)

    def eno(k):
        return ERRNOS[(k + si) % len(ERRNOS)]

    if sc.get("rel") or sc.get("nofaults"):
        # relative path + chdir: fault-free only (after a fault the sink re-creates its file lazily, and a
        # relative path then legitimately resolves against the new working directory); `nofaults`: members of
        # large families (name sets with holes, byte-content classes) of which only a sample runs under faults
        return
    for k in range(n):
        f = ((k, eno(k)),)
        execs.append((sc, f, execute(sc, f)))
    if errno_sweep and si % errno_sweep == 0:
        first = {}
        for k, kd in enumerate(kinds):
            first.setdefault(kd, k)
        for kd, k in sorted(first.items()):
            for e in errnos:
                if e != eno(k):
                    f = ((k, e),)
                    execs.append((sc, f, execute(sc, f)))
                    ctx.stat("errno_sweep_executions")
    if pairs:
        cap = pairs if isinstance(pairs, int) and not isinstance(pairs, bool) else None
        # the second fault may hit a call that only exists after the first one (up to 3 extra calls)
        todo = [(a, b) for a in range(n) for b in range(a + 1, n + 3)]
        if cap is not None and len(todo) > cap:
            todo = ctx.rng.fork("pairs%d" % si).shuffle(todo)[:cap]
        for a, b in todo:
            f = ((a, eno(a)), (b, eno(a + b)))
            execs.append((sc, f, execute(sc, f)))


def sample_pairs(ctx, scs, per_scenario, scenarios):
    rng = ctx.rng.fork("quick-pairs")
    out = []
    pool = [sc for sc in scs if not (sc.get("rel") or sc.get("nofaults") or sc.get("monitors_only"))]
    for _ in range(scenarios):
        sc = rng.choice(pool)
        shared = tempfile.mkdtemp(prefix="c08_")
        try:
            n = execute(sc, (), reuse_root=shared).nprims
            for _j in range(per_scenario):
                a = rng.below(max(n - 1, 1))
                b = rng.range(a + 1, n + 2)
                f = ((a, rng.choice(ERRNOS)), (b, rng.choice(ERRNOS)))
                out.append((sc, f, execute(sc, f, reuse_root=shared)))
                ctx.stat("quick_pair_executions")
        finally:
            shutil.rmtree(shared, ignore_errors=True)
    return out


def judge(ctx, execs, drv, prop):
    # 1. model-independent monitors first: they must be heard even when the model driver no longer builds
    for sc, faults, ex in execs:
        ctx.case(sc_key(sc, faults), nontrivial=nontrivial(ex))
        ctx.stat("executions")
        ctx.stat("faults:%d" % len(faults))
        for _k, e in norm_faults(faults):
            ctx.stat("errno:" + e)
        for rec in ex.ops:
            ctx.stat("op:" + rec["op"][0])
            ctx.stat("result:" + rec["res"].split(":")[0])
            if rec["fired"]:
                ctx.stat("fault_fired")
        rep = {"scenario": sc, "faults": [list(f) for f in norm_faults(faults)]}
        for name, text, idx in ex.monitors[:3]:
            ctx.violation("%s: %s" % (name, text), dict(rep, oracle=name, at=idx), kind="oracle")
    # 2. correspondence with the Lean model
    try:
        outs = drv.run([ex.line for _sc, _f, ex in execs])
    except core.DriverError as e:
        ctx.broke("driver:" + drv.name, str(e))
        return 0
    ndiff = 0
    for (sc, faults, ex), out in zip(execs, outs):
        if sc.get("real") or sc.get("monitors_only"):
            ctx.stat("executions_real_policies_monitors_only")
            continue
        ctx.traces_validated += 1
        rep = {"scenario": sc, "faults": [list(f) for f in norm_faults(faults)]}
        diffs = compare(ex, out)
        if diffs:
            ndiff += 1
            obs, text, idx = diffs[0]
            if ndiff <= 3:
                ctx.broke("correspondence FileSink.step (%s)" % obs, text + "\nline: " + ex.line + "\nmodel: " + out)
            if obs in ("result", "directory"):
                ctx.violation("implementation and model disagree on %s: %s" % (obs, text),
                              dict(rep, oracle="correspondence:" + obs, at=idx), kind="correspondence")
    return ndiff


def load_corpus(prop):
    d = os.path.join(core.VERIF, "corpus", prop)
    out = []
    if os.path.isdir(d):
        for f in sorted(os.listdir(d)):
            if f.endswith(".json"):
                out.append(core.json.load(open(os.path.join(d, f))))
    return out


def run(ctx):
    drv = core.Driver(DRIVER)
    boost = bool(getattr(ctx, "search_boost", False))
    execs = []
    for item in load_corpus(PROP):
        ex = execute(item["scenario"], tuple(item.get("faults", [])))
        execs.append((item["scenario"], tuple(item.get("faults", [])), ex))
        ctx.stat("corpus")
    nrand = ctx.n(6, 40) * (3 if boost else 1)
    rng = ctx.rng.fork("scenarios")
    # thorough: ALL pairs of faults on the curated scenarios, a sample of 150 pairs on each random one
    execs += explore(ctx, curated(), pairs=(False if ctx.quick else True), errno_sweep=(4 if ctx.quick else 1))
    execs += explore(ctx, [gen_scenario(rng) for _ in range(nrand)], pairs=(False if ctx.quick else 150),
                     errno_sweep=(0 if ctx.quick else 2))
    execs += explore(ctx, with_names(real_policy_scenarios(ctx.quick), shift=2), pairs=False, errno_sweep=0)
    execs += explore(ctx, with_names(hole_scenarios(ctx.quick, ctx.rng.fork("holes")), shift=4), pairs=False, errno_sweep=0)
    if ctx.quick:
        # quick tier: the thorough tier runs ALL pairs of faults; here a small seeded sample of pairs on three curated
        # scenarios (failure during the recovery from a failure)
        execs += sample_pairs(ctx, curated(), per_scenario=14, scenarios=3)
    ctx.exhaustive = False
    for sc, _f, ex in execs[:2]:
        ctx.sample({"scenario": sc, "line": ex.line})
    judge(ctx, execs, drv, PROP)
    close_fault_regression(ctx)
    rename_path_stream(ctx, drv)
    report_race_stream(ctx)


def close_fault_regression(ctx):
    """the Lean theorem `C08.close_fault_regression` replayed on the implementation: a fault at file.close()
    during a rotation; the next message must be acknowledged and land in app.log after message 0"""
    sc = base_sc(ops=[W(), W(1), W(), W()])
    ex0 = execute(sc)
    closes = [j for j, t in enumerate(sum((r["trace"] for r in ex0.ops), [])) if t == "close"]
    ctx.case(("regression", "F26"))
    if not closes:
        ctx.violation("close_fault_regression: the rotation performs no file.close()", {"scenario": sc, "faults": []})
        return
    ex = execute(sc, (closes[0],))
    rep = {"scenario": sc, "faults": [closes[0]], "oracle": "sink_usable_after_any_fault"}
    for name, text, idx in ex.monitors[:2]:
        ctx.violation("%s: %s" % (name, text), dict(rep, at=idx))
    if len(ex.ops) > 2 and ex.ops[2]["res"] == "ok" and ex.ops[2]["snap"].get("b_0", ("",))[0] != "f:0,2":
        ctx.violation("close_fault_regression: after the failed close the next message is not appended to the same "
                      "file: %r" % {k: v[0] for k, v in ex.ops[2]["snap"].items()}, dict(rep, at=2))


def replay(ctx, rep):
    r = rep["replay"]
    if r.get("stream") == "report_race":
        problems, info = report_race(r["scenario"], [tuple(f) for f in r["faults"]])
        print("scenario:", core.json.dumps(r["scenario"]))
        print("faults:  ", r["faults"], " info:", info)
        for ptext in problems:
            print("ORACLE:", ptext)
        print("REPRODUCED" if problems else "not reproduced")
        return 1 if problems else 0
    if r.get("stream") == "rename_path":
        case = r["case"]
        got = rename_impl(case)
        try:
            out = core.Driver(DRIVER).run([rename_line(case)])[0]
        except core.DriverError:
            out = None
        print("case:    ", core.json.dumps(case, ensure_ascii=False))
        print("impl:    ", got)
        print("expected:", rename_oracle(case))
        print("model:   ", out)
        found = rename_judge(case, got, out)
        for kind, text in found:
            print("%s: %s" % (kind.upper(), text))
        bad = [k for k, _t in found if k == "oracle"]
        print("REPRODUCED" if bad else "not reproduced")
        return 1 if bad else 0
    sc, faults = r["scenario"], tuple(r.get("faults", []))
    ex = execute(sc, faults)
    try:
        out = None if (sc.get("real") or sc.get("monitors_only")) else core.Driver(DRIVER).run([ex.line])[0]
    except core.DriverError:
        out = None
    print("scenario:", core.json.dumps(sc))
    print("faults:  ", list(faults))
    for idx, rec in enumerate(ex.ops):
        print("  op %d %r -> %s  trace=%s" % (idx, rec["op"], rec["res"], ",".join(rec["trace"])))
        print("       dir:", {k: v[0] for k, v in rec["snap"].items()})
    print("model:   ", out if out is not None else "(driver does not build on this tree)")
    for name, text, idx in ex.monitors:
        print("MONITOR %s at op %d: %s" % (name, idx, text))
    diffs = compare(ex, out) if out is not None else []
    for obs, text, idx in diffs:
        print("DISAGREE %s: %s" % (obs, text))
    want = r.get("oracle", "")
    bad = bool(ex.monitors) or any(d[0] in ("result", "directory") for d in diffs)
    if want.startswith("correspondence"):
        bad = bad or bool(diffs)
    print("REPRODUCED" if bad else "not reproduced")
    return 1 if bad else 0
