"""Shared machinery of every check: PRNG, Lean build + audit, driver pipe, evidence, replays,
known-findings filter, outcome/exit code.  See DESIGN.md §1.4.

A property module `harness/cXX.py` exposes

    PROP = "C11"
    LEAN_TARGETS = ["LoguruModel.Props.C11"]          # modules whose build is the proof obligation
    AUDIT_FILE   = "LoguruModel/Audit/C11.lean"       # `#print axioms` of every property theorem
    def run(ctx) -> None                              # corpus + correspondence + direct oracle

`run` reports through ctx: ctx.case(...), ctx.violation(...), ctx.stat(...), ctx.sample(...).
"""
import hashlib
import json
import os
import re
import subprocess
import sys
import time

VERIF = os.path.dirname(os.path.dirname(os.path.abspath(__file__)))
LEAN_DIR = os.path.join(VERIF, "lean")
REPO = os.environ.get("VERIF_REPO", "/repo")
ALLOWED_AXIOMS = {"propext", "Classical.choice", "Quot.sound"}
FORBIDDEN = re.compile(
    r"\b(sorry|admit|native_decide|bv_decide|implemented_by|unsafe)\b|^\s*axiom\s|maxHeartbeats\s+0\b"
)

if REPO not in sys.path:
    sys.path.insert(0, REPO)


# ----------------------------------------------------------------------------- PRNG
class Rng:
    """SplitMix64; every random choice of a run derives from one state (VERIF_SEED)."""

    M = (1 << 64) - 1

    def __init__(self, seed):
        # hash the seed: consecutive seeds must not give shifted copies of one stream
        self.s = int.from_bytes(hashlib.sha256(("seed:%d" % seed).encode()).digest()[:8], "big")

    def next(self):
        self.s = (self.s + 0x9E3779B97F4A7C15) & self.M
        z = self.s
        z = ((z ^ (z >> 30)) * 0xBF58476D1CE4E5B9) & self.M
        z = ((z ^ (z >> 27)) * 0x94D049BB133111EB) & self.M
        return z ^ (z >> 31)

    def below(self, n):
        return self.next() % n if n > 0 else 0

    def range(self, lo, hi):  # inclusive
        return lo + self.below(hi - lo + 1)

    def choice(self, seq):
        return seq[self.below(len(seq))]

    def chance(self, num, den=100):
        return self.below(den) < num

    def fork(self, tag):
        h = int.from_bytes(hashlib.sha256(("%d/%s" % (self.s, tag)).encode()).digest()[:8], "big")
        return Rng(h)

    def shuffle(self, lst):
        for i in range(len(lst) - 1, 0, -1):
            j = self.below(i + 1)
            lst[i], lst[j] = lst[j], lst[i]
        return lst


# ----------------------------------------------------------------------------- Lean side
def _run(cmd, cwd=None, timeout=None, input_=None):
    t0 = time.time()
    try:
        p = subprocess.run(
            cmd, cwd=cwd, input=input_, stdout=subprocess.PIPE, stderr=subprocess.STDOUT,
            text=True, timeout=timeout,
        )
        return p.returncode, p.stdout, time.time() - t0
    except subprocess.TimeoutExpired as e:
        out = e.stdout if isinstance(e.stdout, str) else (e.stdout or b"").decode("utf8", "replace")
        return 124, out + "\n[timeout]", time.time() - t0


def extract():
    """Tie G: regenerate lean/LoguruModel/Generated/*.lean from /repo's current source."""
    rc, out, dt = _run([sys.executable, os.path.join(VERIF, "tools", "extract.py"), REPO], cwd=VERIF,
                       timeout=120)
    return rc == 0, out, dt


def lean_build(targets, timeout=1500):
    """`lake build` under an exclusive file lock: two checks started at the same time in one /verif must not compile the
    same module into the same .lake directory concurrently (seen in round 5: `no such file … Stream.olean` when C07 and
    C19 both had to build a new Rotation module – reported as a broken tie although nothing was wrong)."""
    import fcntl
    lock_path = os.path.join(LEAN_DIR, ".lake-build.lock")
    t0 = time.time()
    try:
        lk = open(lock_path, "w")
    except OSError:
        lk = None
    try:
        if lk is not None:
            fcntl.flock(lk, fcntl.LOCK_EX)
        rc, out, dt = _run(["lake", "build"] + list(targets), cwd=LEAN_DIR, timeout=timeout)
    finally:
        if lk is not None:
            fcntl.flock(lk, fcntl.LOCK_UN)
            lk.close()
    return rc, out, time.time() - t0


def lean_audit(audit_file, timeout=600):
    """Run `#print axioms` for every property theorem.  Returns (ok, {theorem: [axioms]}, raw)."""
    rc, out, dt = _run(["lake", "env", "lean", audit_file], cwd=LEAN_DIR, timeout=timeout)
    axioms = {}
    cur = None
    for line in out.splitlines():
        m = re.match(r"'([^']+)' depends on axioms: \[(.*)\]?", line)
        m2 = re.match(r"'([^']+)' does not depend on any axioms", line)
        if m2:
            axioms[m2.group(1)] = []
            cur = None
        elif m:
            cur = m.group(1)
            axioms[cur] = [a.strip(" ]") for a in m.group(2).split(",") if a.strip(" ]")]
            if line.rstrip().endswith("]"):
                cur = None
        elif cur is not None:
            axioms[cur] += [a.strip(" ]") for a in line.split(",") if a.strip(" ]")]
            if line.rstrip().endswith("]"):
                cur = None
    bad = {k: [a for a in v if a not in ALLOWED_AXIOMS] for k, v in axioms.items()}
    bad = {k: v for k, v in bad.items() if v}
    ok = rc == 0 and not bad and len(axioms) > 0
    return ok, axioms, out


def lean_grep(paths):
    """Forbidden constructs in the given Lean files (comments stripped)."""
    hits = []
    for path in paths:
        try:
            src = open(path, encoding="utf8").read()
        except OSError:
            continue
        src = re.sub(r"/-.*?-/", lambda m: "\n" * m.group(0).count("\n"), src, flags=re.S)
        for i, line in enumerate(src.splitlines(), 1):
            line = line.split("--", 1)[0]
            line = re.sub(r'"(?:[^"\\]|\\.)*"', '""', line)
            if FORBIDDEN.search(line):
                hits.append("%s:%d: %s" % (os.path.relpath(path, VERIF), i, line.strip()))
    return hits


def lean_sources():
    out = []
    for root, _dirs, files in os.walk(os.path.join(LEAN_DIR, "LoguruModel")):
        for f in files:
            if f.endswith(".lean"):
                out.append(os.path.join(root, f))
    for root, _dirs, files in os.walk(os.path.join(LEAN_DIR, "drivers")):
        for f in files:
            if f.endswith(".lean"):
                out.append(os.path.join(root, f))
    return sorted(out)


def module_closure(targets):
    """Lean source files (inside our library) the targets import transitively."""
    seen, todo = set(), list(targets)
    while todo:
        m = todo.pop()
        if m in seen or not m.startswith("LoguruModel"):
            continue
        seen.add(m)
        p = os.path.join(LEAN_DIR, *m.split(".")) + ".lean"
        try:
            for line in open(p, encoding="utf8"):
                mm = re.match(r"\s*(?:public\s+)?import\s+(\S+)", line)
                if mm:
                    todo.append(mm.group(1))
        except OSError:
            pass
    return sorted(os.path.join(LEAN_DIR, *m.split(".")) + ".lean" for m in seen)


def theorem_names(props_file):
    names = []
    try:
        for line in open(props_file, encoding="utf8"):
            m = re.match(r"\s*theorem\s+([A-Za-z0-9_.']+)", line)
            if m:
                names.append(m.group(1))
    except OSError:
        pass
    return names


class Driver:
    """Line protocol to a Lean model driver: `lake env lean --run drivers/<name>.lean`.
    One input line -> exactly one output line."""

    def __init__(self, name):
        self.name = name
        self.path = os.path.join("drivers", name + ".lean")

    _built = set()

    def ensure_built(self):
        """`lean --run` loads the driver's imports from compiled files: build them (no-op when present).  A model
        that no longer builds (a regenerated table changed under it) shows as DriverError, like any driver failure."""
        if self.name in Driver._built:
            return
        mods = []
        try:
            for line in open(os.path.join(LEAN_DIR, self.path), encoding="utf8"):
                m = re.match(r"\s*import\s+(LoguruModel[\w.]*)", line)
                if m:
                    mods.append(m.group(1))
        except OSError:
            pass
        if mods:
            rc, out, dt = lean_build(mods)
            if rc != 0:
                raise DriverError("driver %s: its imports do not build\n%s" % (self.name, out[-3000:]))
        Driver._built.add(self.name)

    def run(self, lines, timeout=3000):
        self.ensure_built()
        data = "".join(l + "\n" for l in lines)
        assert all("\n" not in l and "\r" not in l for l in lines), "driver lines must be single lines"
        p = subprocess.run(
            ["lake", "env", "lean", "--run", self.path], cwd=LEAN_DIR, input=data.encode("utf8"),
            stdout=subprocess.PIPE, stderr=subprocess.PIPE, timeout=timeout,
        )
        out = p.stdout.decode("utf8", "replace").split("\n")
        if out and out[-1] == "":
            out.pop()
        if p.returncode != 0 or len(out) != len(lines):
            raise DriverError(
                "driver %s: rc=%s, %d lines in, %d lines out\n%s"
                % (self.name, p.returncode, len(lines), len(out), p.stderr.decode("utf8", "replace")[-3000:])
            )
        return out


class DriverError(Exception):
    pass


# ----------------------------------------------------------------------------- wire encoding
def enc(s):
    """Encode an arbitrary str as one space-free ASCII token: hex of code points, '-' for empty."""
    if s == "":
        return "-"
    return ".".join("%x" % ord(c) for c in s)


def dec(tok):
    if tok == "-":
        return ""
    return "".join(chr(int(x, 16)) for x in tok.split("."))


def err_kind(e):
    for cls in (KeyError, IndexError, ValueError, TypeError, AttributeError, RuntimeError, OSError):
        if isinstance(e, cls):
            return cls.__name__
    return "Other:" + type(e).__name__


# ----------------------------------------------------------------------------- context
class Ctx:
    def __init__(self, prop, tier, seed, replay=None):
        self.prop, self.tier, self.seed, self.replay = prop, tier, seed, replay
        self.rng = Rng(seed)
        self.t0 = time.time()
        self.evaluations = 0
        self.nontrivial = set()
        self.samples = []
        self.stats = {}
        self.violations = []       # dicts
        self.known_hits = []       # (finding, detail)
        self.broken = []           # names of broken proof obligations / correspondences
        self.notes = []
        self.rule = ""
        self.exhaustive = False
        self.traces_validated = 0
        self.findings = load_findings(prop)

    @property
    def quick(self):
        return self.tier == "quick"

    def n(self, quick, thorough):
        return quick if self.tier == "quick" else thorough

    def case(self, key=None, nontrivial=False, n=1):
        self.evaluations += n
        if nontrivial and key is not None:
            self.nontrivial.add(key if isinstance(key, (str, int, tuple)) else repr(key))

    def stat(self, name, inc=1):
        self.stats[name] = self.stats.get(name, 0) + inc

    def sample(self, obj, limit=6):
        if len(self.samples) < limit:
            self.samples.append(obj)

    def note(self, s):
        self.notes.append(s)

    def violation(self, what, replay, key=None, kind="oracle"):
        """A concrete failing input.  `key` classifies it for the known-findings filter."""
        for f in self.findings:
            if f.get("status") == "known" and key is not None and key == f.get("key"):
                if not any(k[0]["id"] == f["id"] for k in self.known_hits):
                    self.known_hits.append((f, what))
                self.stat("known_finding_hits:" + f["id"])
                return False
        if len(self.violations) < 50:
            self.violations.append({"what": what, "replay": replay, "key": key, "kind": kind})
        self.stat("violations_seen")
        return True

    def broke(self, name, detail=""):
        self.broken.append({"name": name, "detail": detail[-4000:]})


def load_findings(prop):
    p = os.path.join(VERIF, "known_findings.json")
    try:
        data = json.load(open(p))
    except OSError:
        return []
    return [f for f in data.get("findings", []) if f.get("property") == prop]


# ----------------------------------------------------------------------------- main flow
def write_json(path, obj):
    os.makedirs(os.path.dirname(path), exist_ok=True)
    tmp = path + ".tmp%d" % os.getpid()
    with open(tmp, "w", encoding="utf8") as f:
        json.dump(obj, f, indent=1, ensure_ascii=True, default=str)
        f.write("\n")
    os.replace(tmp, path)


def main(mod, argv):
    import argparse

    ap = argparse.ArgumentParser()
    ap.add_argument("--tier", default=os.environ.get("VERIF_TIER", "quick"), choices=["quick", "thorough"])
    ap.add_argument("--replay", default=None)
    ap.add_argument("--seed", type=int, default=int(os.environ.get("VERIF_SEED", "0") or 0))
    ap.add_argument("--no-lean", action="store_true", help="skip build/audit (development only)")
    args = ap.parse_args(argv)
    prop = mod.PROP
    ctx = Ctx(prop, args.tier, args.seed, args.replay)
    if args.replay:
        rep = json.load(open(args.replay))
        rc = mod.replay(ctx, rep)
        sys.exit(rc)

    try:
        rc = _check(mod, ctx, args)
    except DriverError as e:
        # the model driver no longer runs (for instance a Generated file is missing): this is a
        # broken tie, handled like a broken proof – but first let the direct oracle look.
        print("[%s] driver error: %s" % (prop, e), file=sys.stderr)
        ctx.broke("driver:" + getattr(mod, "DRIVER", "?"), str(e))
        rc = _finish(mod, ctx, args, {}, 0, 0, [], "")
    sys.exit(rc)


def _check(mod, ctx, args):
    prop = ctx.prop
    axioms, obligations, discharged, cmds = {}, 0, 0, []
    thms = []
    for t in mod.LEAN_TARGETS:
        thms += theorem_names(os.path.join(LEAN_DIR, *t.split(".")) + ".lean")
    obligations = len(thms)
    build_log = ""
    if not args.no_lean:
        ok, out, dt = extract()
        cmds.append("python3 tools/extract.py /repo")
        if not ok:
            # fail closed: a table that could not be extracted leaves its Generated file without
            # definitions, so the dependent build below fails if (and only if) this check needs it
            ctx.note("extract: " + " | ".join(l for l in out.splitlines() if "fail" in l or "crash" in l))
        targets = list(mod.LEAN_TARGETS) + [mod.AUDIT_FILE[:-5].replace("/", ".")]
        rc, out, dt = lean_build(targets)
        cmds.append("cd lean && lake build " + " ".join(targets))
        build_log = out
        if rc != 0:
            failed = sorted(set(re.findall(r"error: ([^\s:]+\.lean:\d+):", out)))
            ctx.broke("lake build " + " ".join(mod.LEAN_TARGETS), out)
            ctx.note("build failed at: " + ", ".join(failed[:20]))
        else:
            okA, axioms, rawA = lean_audit(mod.AUDIT_FILE)
            cmds.append("cd lean && lake env lean " + mod.AUDIT_FILE)
            missing = [t for t in thms if not any(k.split(".")[-1] == t.split(".")[-1] for k in axioms)]
            if not okA:
                ctx.broke("axiom audit", rawA)
            if missing:
                ctx.broke("audit incomplete: " + ",".join(missing))
            hits = lean_grep(module_closure(targets))
            if hits:
                ctx.broke("forbidden construct", "\n".join(hits))
            if okA and not missing and not hits:
                discharged = obligations
            if ctx.tier == "thorough" and os.environ.get("VERIF_SKIP_LEANCHECKER") != "1":
                rc2, out2, dt2 = _run(["lake", "env", "leanchecker"] + list(mod.LEAN_TARGETS),
                                      cwd=LEAN_DIR, timeout=3000)
                cmds.append("cd lean && lake env leanchecker " + " ".join(mod.LEAN_TARGETS))
                if rc2 != 0:
                    ctx.broke("leanchecker", out2)
                    discharged = 0
    # correspondence + oracle (always; with a broken obligation the budget is raised)
    if ctx.broken and ctx.tier == "quick":
        ctx.search_boost = True
    else:
        ctx.search_boost = False
    try:
        mod.run(ctx)
    except DriverError:
        raise
    except BINDING_ERRORS:
        # the harness can no longer drive the implementation (an attribute, import or signature it binds to is
        # gone): the correspondence is broken - not an infrastructure error, and not by itself a violation
        import traceback
        ctx.broke("correspondence harness (cannot drive the implementation)", traceback.format_exc())
    return _finish(mod, ctx, args, axioms, obligations, discharged, cmds, build_log)


BINDING_ERRORS = (AttributeError, ImportError, TypeError, NameError)


def unbound(prop, argv, tb):
    """The harness module could not even be imported against the current source (it binds to something the source
    no longer has).  Report it as a broken correspondence with no failing input: exit 1, replay names what broke."""
    import argparse
    import types
    ap = argparse.ArgumentParser()
    ap.add_argument("--tier", default=os.environ.get("VERIF_TIER", "quick"))
    ap.add_argument("--replay", default=None)
    ap.add_argument("--seed", type=int, default=int(os.environ.get("VERIF_SEED", "0") or 0))
    ap.add_argument("--no-lean", action="store_true")
    args = ap.parse_args(argv)
    mod = types.SimpleNamespace(PROP=prop, LEAN_TARGETS=[], RULE="(the harness could not be bound to the source)",
                                TRUSTED=[], ASSUMPTIONS=[])
    ctx = Ctx(prop, args.tier, args.seed, args.replay)
    ctx.broke("correspondence harness (cannot be bound to the implementation)", tb)
    return _finish(mod, ctx, args, {}, 0, 0, [], "")


def _finish(mod, ctx, args, axioms, obligations, discharged, cmds, build_log):
    prop = ctx.prop
    wall = time.time() - ctx.t0
    os.makedirs(os.path.join(VERIF, "replays"), exist_ok=True)
    lines = []
    for f, detail in ctx.known_hits:
        lines.append("KNOWN-FINDING: property=%s %s [%s]" % (prop, f["what"], f["id"]))
    exit_code = 0
    nviol = 0
    if ctx.violations:
        v = ctx.violations[0]
        path = os.path.join("replays", "%s-%d.json" % (prop, ctx.seed))
        write_json(os.path.join(VERIF, path), {
            "property": prop, "seed": ctx.seed, "tier": ctx.tier, "what": v["what"], "kind": v["kind"],
            "replay": v["replay"], "more": [x["what"] for x in ctx.violations[1:10]],
            "broken_obligations": [b["name"] for b in ctx.broken],
        })
        lines.append("VIOLATION property=%s replay=%s" % (prop, path))
        lines.append("  what: " + str(v["what"]).replace("\n", " ")[:600])
        exit_code = 1
        nviol = len(ctx.violations)
    elif ctx.broken:
        path = os.path.join("replays", "%s-%d-broken.json" % (prop, ctx.seed))
        write_json(os.path.join(VERIF, path), {
            "property": prop, "seed": ctx.seed, "tier": ctx.tier,
            "what": "proof obligation or correspondence no longer checks; no failing input found",
            "broken_obligations": ctx.broken,
            "searched": {"evaluations": ctx.evaluations, "stats": ctx.stats},
        })
        lines.append("VIOLATION property=%s replay=%s no-failing-input-found" % (prop, path))
        exit_code = 1
        nviol = 1
    level = getattr(mod, "LEVEL", "proof")
    cov = {
        "obligations": max(obligations, 1), "discharged": discharged,
        "checker_cmd": " && ".join(cmds) if cmds else "(lean steps skipped)",
        "trusted_base": getattr(mod, "TRUSTED", []) + [
            "Lean 4.33.0 kernel; axioms allowed: propext, Classical.choice, Quot.sound",
            "tools/extract.py (tables/kernels translator) and the correspondence harness (differential testing)",
        ],
        "theorem_axioms": axioms,
        "evaluations": max(ctx.evaluations, 1),
        "distinct_nontrivial": len(ctx.nontrivial),
        "rule": ctx.rule or getattr(mod, "RULE", ""),
        "samples": ctx.samples or ["(none)"],
        "traces_validated_against_impl": ctx.traces_validated or ctx.evaluations,
        "stats": dict(sorted(ctx.stats.items())),
        "exhaustive": ctx.exhaustive,
        "broken_obligations": [b["name"] for b in ctx.broken],
        "known_findings_reproduced": [f["id"] for f, _ in ctx.known_hits],
        "notes": ctx.notes,
    }
    if discharged == 0:
        # a proof-level record with nothing discharged is not a proof record: fall back to the
        # exploration-style keys (the VIOLATION line already says what broke)
        cov["obligations_total"] = cov.pop("obligations")
        cov.pop("discharged")
        cov["obligations_discharged"] = 0
    ev = {
        "property_id": prop, "tier": ctx.tier, "seed": ctx.seed, "level": level, "coverage": cov,
        "assumptions": getattr(mod, "ASSUMPTIONS", []), "wall_s": round(wall, 2), "violations": nviol,
    }
    write_json(os.path.join(VERIF, "evidence", prop + ".json"), ev)
    for l in lines:
        print(l)
    print("[%s] tier=%s seed=%d evaluations=%d nontrivial=%d obligations=%d/%d wall=%.1fs exit=%d"
          % (prop, ctx.tier, ctx.seed, ctx.evaluations, len(ctx.nontrivial), discharged, obligations,
             wall, exit_code))
    if ctx.broken and exit_code:
        for b in ctx.broken:
            print("  broken: " + b["name"])
            tail = b["detail"].strip().splitlines()[-15:]
            for t in tail:
                print("    | " + t)
    return exit_code
