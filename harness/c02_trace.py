"""Real scheduler trace -> line protocol of drivers/C02.lean (the acceptor for Conc.step).

Only the accesses the model knows are forwarded (locks, handlers_count, handlers registry,
Handler._stopped, sink begin/end/stop); `skip`/`early` – the free choices of the model – are
inferred from what the logging thread did next.  Threads are numbered t0->0, t1->1, …; the initial
handlers are created by a synthetic thread 99 with `start add` sequences so that the model state
(count, registry) matches the real one before the threads start.
"""
import json


def ids(t):
    return ",".join(str(x) for x in t) if t else "-"


def lines(run):
    s = run.sched
    if s.deadlock or s.errors or s.aborted:
        return None
    out = ["reset"]
    # initial handlers, added sequentially before scheduling
    for i, hid in enumerate(run.initial_ids):
        reg = run.initial_ids[:i]
        out += ["99 start add", "99 acqCore", "99 rCount %d" % hid, "99 rCount %d" % hid, "99 wCount %d" % (hid + 1),
                "99 relCore", "99 acqCore", "99 rReg " + ids(reg), "99 wReg " + ids(reg + [hid]), "99 relCore"]
    tag2hid = {snk.tag: hid for hid, snk in run.sinks.items()}
    st = {}  # per thread: {"op":..., "todo": list or None, "reads": n}
    tr = s.trace
    for pos, (tn, kind, obj, val) in enumerate(tr):
        if not tn.startswith("t"):
            return None
        t = int(tn[1:])
        cur = st.get(t)
        if kind == "invoke":
            op = json.loads(val)
            if op[0] == "log":
                out.append("%d start log %d" % (t, int(obj.split("/")[1])))
                st[t] = {"op": "log", "todo": None, "reads": 0}
            elif op[0] == "add":
                out.append("%d start add" % t)
                st[t] = {"op": "add"}
            elif op[0] == "remove":
                out.append("%d start remove %d" % (t, op[1]))
                st[t] = {"op": "remove", "raised": False}
            elif op[0] == "removeall":
                out.append("%d start removeall" % t)
                st[t] = {"op": "removeall"}
            elif op[0] == "fork":
                out.append("%d start fork" % t)
                # the order in which acquire_locks() will take the handler locks (WeakSet order)
                order = []
                for (tn2, k2, o2, v2) in tr[pos + 1:]:
                    if tn2 != tn:
                        continue
                    if k2 == "forked":
                        break
                    if k2 == "acquired" and o2.startswith("h"):
                        order.append(int(o2[1:]))
                st[t] = {"op": "fork", "order": order, "phase": 0}
            else:
                out.append("%d start other" % t)
                st[t] = {"op": "other"}
        elif kind == "return":
            if cur is None:
                return None
            if cur["op"] == "log":
                if cur["todo"] is not None:
                    for h in cur["todo"]:
                        out.append("%d skip %d" % (t, h))
                    out.append("%d early" % t)
                elif cur["reads"] == 1 and cur.get("nonempty"):
                    out.append("%d early" % t)
            st.pop(t, None)
        elif kind == "forked":
            out.append("%d forked" % t)
        elif kind == "acquired":
            if obj == "core" and cur and cur["op"] == "fork":
                out.append("%d forkAcq %s" % (t, ids(cur["order"])))
            elif obj == "core":
                out.append("%d acqCore" % t)
            elif obj.startswith("h"):
                h = int(obj[1:])
                if cur and cur["op"] == "log":
                    if cur["todo"] is None or h not in cur["todo"]:
                        return None
                    while cur["todo"][0] != h:
                        out.append("%d skip %d" % (t, cur["todo"].pop(0)))
                    cur["todo"].pop(0)
                out.append("%d acqH %d" % (t, h))
            else:
                return None
        elif kind == "rel":
            if obj == "core":
                if cur and cur["op"] == "remove" and cur.get("missing") and not cur["raised"]:
                    out.append("%d raise" % t)
                    cur["raised"] = True
                out.append("%d relCore" % t)
            elif obj.startswith("h"):
                out.append("%d relH %s" % (t, obj[1:]))
        elif kind == "Rv":
            if obj == "core.handlers":
                out.append("%d rReg %s" % (t, ids(val)))
                if cur and cur["op"] == "log":
                    cur["reads"] += 1
                    if cur["reads"] == 1:
                        cur["nonempty"] = len(val) > 0
                    elif cur["reads"] == 2:
                        cur["todo"] = list(val)
                if cur and cur["op"] == "remove" and "checked" not in cur:
                    cur["checked"] = True
                    target = None
                    for (tn2, k2, o2, v2) in reversed(tr[:pos]):
                        if tn2 == tn and k2 == "invoke":
                            target = json.loads(v2)[1]
                            break
                    cur["missing"] = target not in val
            elif obj == "core.handlers_count":
                out.append("%d rCount %d" % (t, val))
            elif obj.endswith("._stopped"):
                out.append("%d rStopped %s %d" % (t, obj[1:].split(".")[0], 1 if val else 0))
        elif kind == "W":
            if obj == "core.handlers":
                out.append("%d wReg %s" % (t, ids(val)))
            elif obj == "core.handlers_count":
                out.append("%d wCount %d" % (t, val))
            elif obj.endswith("._stopped"):
                out.append("%d wStopped %s" % (t, obj[1:].split(".")[0]))
        elif kind == "wbegin":
            out.append("%d wBegin %d" % (t, tag2hid[obj]))
        elif kind == "wend":
            out.append("%d wEnd %d" % (t, tag2hid[obj]))
        elif kind == "sstop":
            out.append("%d sinkStop %d" % (t, tag2hid[obj]))
    return out
