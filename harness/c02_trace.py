"""Real scheduler trace -> line protocol of drivers/C02.lean (the acceptor for Conc.step).

Only the accesses the model knows are forwarded (locks, handlers_count, handlers registry,
Handler._stopped, sink begin/end/stop); `skip`/`early` – the free choices of the model – are
inferred from what the logging thread did next.  Threads are numbered t0->0, t1->1, …; the initial
handlers are created by a synthetic thread 99 with `start add` sequences so that the model state
(count, registry) matches the real one before the threads start.
"""
import json


def ids(t):
    return ",".join(str(x) for x in t) if t else "-"


def lines(run):
    s = run.sched
    if s.deadlock or s.errors or s.aborted:
        return None
    out = ["reset"]
    # initial handlers, added sequentially before scheduling
    for i, hid in enumerate(run.initial_ids):
        reg = run.initial_ids[:i]
        out += ["99 start add", "99 acqCore", "99 rCount %d" % hid, "99 rCount %d" % hid, "99 wCount %d" % (hid + 1),
                "99 relCore", "99 acqCore", "99 rReg " + ids(reg), "99 wReg " + ids(reg + [hid]), "99 relCore"]
    tag2hid = {snk.tag: hid for hid, snk in run.sinks.items()}
    st = {}  # per thread: {"op":..., "todo": list or None, "reads": n}
    tr = s.trace
    for pos, (tn, kind, obj, val) in enumerate(tr):
        if not tn.startswith("t"):
            return None
        t = int(tn[1:])
        cur = st.get(t)
        if kind == "invoke":
            op = json.loads(val)
            if op[0] == "log":
                out.append("%d start log %d" % (t, int(obj.split("/")[1])))
                st[t] = {"op": "log", "todo": None, "reads": 0}
            elif op[0] == "add":
                out.append("%d start add" % t)
                st[t] = {"op": "add"}
            elif op[0] == "remove":
                out.append("%d start remove %d" % (t, op[1]))
                st[t] = {"op": "remove", "raised": False}
            elif op[0] == "removeall":
                out.append("%d start removeall" % t)
                st[t] = {"op": "removeall"}
            elif op[0] == "complete":
                out.append("%d start complete" % t)
                st[t] = {"op": "complete"}
            elif op[0] == "configure":
                # configure(levels=…, extra=…, patcher=…) is a SEQUENCE of lock-taking updates: each core-lock section
                # is one `other` operation of the model, started when the section is entered
                if any(k not in ("levels", "extra", "patcher") for k in op[1]):
                    return None
                st[t] = {"op": "configure"}
            elif op[0] == "fork":
                out.append("%d start fork" % t)
                # the order in which acquire_locks() will take the handler locks (WeakSet order)
                order = []
                for (tn2, k2, o2, v2) in tr[pos + 1:]:
                    if tn2 != tn:
                        continue
                    if k2 == "forked":
                        break
                    if k2 == "acquired" and o2.startswith("h"):
                        order.append(int(o2[1:]))
                st[t] = {"op": "fork", "order": order, "phase": 0}
            else:
                out.append("%d start other" % t)
                st[t] = {"op": "other"}
        elif kind == "return":
            if cur is None:
                return None
            if cur["op"] == "log":
                if cur["todo"] is not None:
                    for h in cur["todo"]:
                        out.append("%d skip %d" % (t, h))
                    out.append("%d early" % t)
                elif cur["reads"] == 1 and cur.get("nonempty"):
                    out.append("%d early" % t)
            st.pop(t, None)
        elif kind == "forked":
            out.append("%d forked" % t)
        elif kind == "acquired":
            if obj == "core" and cur and cur["op"] == "fork":
                out.append("%d forkAcq %s" % (t, ids(cur["order"])))
            elif obj == "core":
                if cur and cur["op"] == "configure":
                    out.append("%d start other" % t)
                out.append("%d acqCore" % t)
            elif obj.startswith("h"):
                h = int(obj[1:])
                if cur and cur["op"] == "log":
                    if cur["todo"] is None or h not in cur["todo"]:
                        return None
                    while cur["todo"][0] != h:
                        out.append("%d skip %d" % (t, cur["todo"].pop(0)))
                    cur["todo"].pop(0)
                out.append("%d acqH %d" % (t, h))
            else:
                return None
        elif kind == "rel":
            if obj == "core":
                if cur and cur["op"] == "remove" and cur.get("missing") and not cur["raised"]:
                    out.append("%d raise" % t)
                    cur["raised"] = True
                out.append("%d relCore" % t)
            elif obj.startswith("h"):
                out.append("%d relH %s" % (t, obj[1:]))
        elif kind == "Rv":
            if obj == "core.handlers":
                out.append("%d rReg %s" % (t, ids(val)))
                if cur and cur["op"] == "log":
                    cur["reads"] += 1
                    if cur["reads"] == 1:
                        cur["nonempty"] = len(val) > 0
                    elif cur["reads"] == 2:
                        cur["todo"] = list(val)
                if cur and cur["op"] == "remove" and "checked" not in cur:
                    cur["checked"] = True
                    target = None
                    for (tn2, k2, o2, v2) in reversed(tr[:pos]):
                        if tn2 == tn and k2 == "invoke":
                            target = json.loads(v2)[1]
                            break
                    cur["missing"] = target not in val
            elif obj == "core.handlers_count":
                out.append("%d rCount %d" % (t, val))
            elif obj.endswith("._stopped"):
                out.append("%d rStopped %s %d" % (t, obj[1:].split(".")[0], 1 if val else 0))
        elif kind == "W":
            if obj == "core.handlers":
                out.append("%d wReg %s" % (t, ids(val)))
            elif obj == "core.handlers_count":
                out.append("%d wCount %d" % (t, val))
            elif obj.endswith("._stopped"):
                out.append("%d wStopped %s" % (t, obj[1:].split(".")[0]))
        elif kind == "wbegin":
            out.append("%d wBegin %d" % (t, tag2hid[obj]))
        elif kind == "wend":
            out.append("%d wEnd %d" % (t, tag2hid[obj]))
        elif kind == "sstop":
            out.append("%d sinkStop %d" % (t, tag2hid[obj]))
    return out


# ----------------------------------------------------------------------------- what each returned call delivered
import re as _re

_RET = _re.compile(r"^ok ret (\d+) (\d+) wr=\[(.*?)\] skipped=\[(.*?)\] gone=\[(.*?)\] snap=\[(.*?)\]$")


def _idl(txt):
    return [int(x) for x in txt.split(",") if x.strip()]


def run_info(run, levelno, hspec, LEVELNO):
    """what `ret_judge` needs to know about one executed run"""
    prog = run.program
    thr = {}
    for i, hid in enumerate(run.initial_ids):
        thr[hid] = LEVELNO[hspec(prog["handlers"][i])[0]]
    for tn, j, op, inv, ret, res in run.ops:
        if op[0] == "add" and isinstance(res, int):
            thr[res] = LEVELNO[hspec(op[1])[0]]
    calls = {}
    for tn, j, op, inv, ret, res in run.ops:
        if op[0] == "log":
            try:
                calls[(int(tn[1:]), j)] = levelno(prog, op[2])
            except KeyError:
                pass
    return {"items": {hid: list(snk.items) for hid, snk in run.sinks.items()}, "thr": thr, "calls": calls}


def ret_judge(info, outs):
    """Compare the model's bookkeeping of every logging call that went through its handler loop (answer `ok ret …`
    of drivers/C02.lean: the partition of the registry snapshot proved by C02.snapshot_partition /
    exactly_once_if_stable) with the real run: the handlers the model says were WRITTEN are exactly the sinks that
    hold the message (once), the handlers it says were SKIPPED are exactly those whose threshold rejects the level
    (what the model's free choice `skip` stands for), and the four classes partition the snapshot."""
    bad, n = [], 0
    for o in outs:
        m = _RET.match(o)
        if not m:
            continue
        n += 1
        t, j = int(m.group(1)), int(m.group(2))
        wr, sk, gone, snap = (_idl(m.group(i)) for i in (3, 4, 5, 6))
        msg = "t%d-%d" % (t, j)
        got = sorted(h for h, items in info["items"].items() if msg in items)
        if sorted(wr) != got:
            bad.append("call %s: the model delivered to handlers %r, the real sinks holding the message are %r"
                       % (msg, sorted(wr), got))
        if any(items.count(msg) > 1 for items in info["items"].values()):
            bad.append("call %s: a sink holds the message more than once" % msg)
        if sorted(wr + sk + gone) != sorted(snap) or len(set(snap)) != len(snap):
            bad.append("call %s: written %r + skipped %r + found-stopped %r is not the snapshot %r" % (msg, wr, sk, gone, snap))
        lv = info["calls"].get((t, j))
        if lv is not None and all(h in info["thr"] for h in snap):
            want = sorted(h for h in snap if info["thr"][h] > lv and h not in gone)
            # a handler found stopped is never tested against the threshold by the model's trace (the threshold test
            # precedes the lock in the code: a rejected stopped handler shows as skipped)
            if sorted(sk) != want and sorted(sk) != sorted(h for h in snap if info["thr"][h] > lv):
                bad.append("call %s (level no %d): the model skipped %r, the handlers whose threshold rejects it are %r"
                           % (msg, lv, sorted(sk), want))
    return bad, n


# ----------------------------------------------------------------------------- at-fork hooks acceptor (drivers/C02hooks.lean)
def hooks_lines(run):
    """Projection of a real trace on Conc/ForkHooks.lean: forking threads (logger lock, the passes of the two hooks over
    handler_locks / queue_locks, the fork point) and adding threads (the logger-lock section in which – or the point
    at which – the new handler's lock is registered).  Returns (lines, meta) or None when the run is outside the model.
    meta[i] = real size of the iterated sets minus the locks of the initial handlers, for `hooks_judge`."""
    s = run.sched
    if s.deadlock or s.errors or s.aborted:
        return None
    tr = s.trace
    base = len(run.initial_ids)
    out, meta = ["reset"], [None]
    st = {}
    sizes = {"handler_locks": base, "queue_locks": 0}
    if not any(k == "iterbegin" and o in sizes for (_t, k, o, _v) in tr):
        return None          # no pass of a hook over a traced handler/queue lock set: nothing to replay
    nsets = len([n for n in getattr(run, "hook_sets", ("handler_locks", "queue_locks")) if n in sizes]) or 1

    def emit(line, m=None):
        out.append(line)
        meta.append(m)

    def section(pos, tn):
        """events of thread tn after pos up to (excluding) its next release of the core lock"""
        for e in tr[pos + 1:]:
            if e[0] == tn:
                if e[1] == "rel" and e[2] == "core":
                    return
                yield e

    for pos, (tn, kind, obj, val) in enumerate(tr):
        if not tn.startswith("t"):
            return None
        t = int(tn[1:])
        cur = st.get(t)
        if kind == "invoke":
            op = json.loads(val)
            st.pop(t, None)
            if op[0] == "fork":
                st[t] = {"op": "fork", "phase": "acquire", "n": 0}
                emit("%d startFork" % t)
            elif op[0] == "add":
                st[t] = {"op": "add", "locked": False, "started": False}
        elif kind == "lockreg" and obj in sizes:
            sizes[obj] = val
            if cur is None or cur["op"] != "add":
                return None                     # a lock registered by something else than add(): outside the model
            if not cur["started"]:
                cur["started"] = True
                emit("%d startAdd" % t)
            emit("%d register" % t, sizes["handler_locks"] + sizes["queue_locks"] - base)
        elif cur is None:
            continue
        elif kind == "return":
            st.pop(t, None)
        elif cur["op"] == "fork":
            if kind == "acquired" and obj == "core":
                emit("%d acq" % t)
            elif kind == "iterbegin" and obj in sizes:
                if cur["n"] == 0:
                    emit("%d iterBegin" % t, sizes["handler_locks"] + sizes["queue_locks"] - base)
            elif kind == "iterend" and obj in sizes:
                # a hook iterates each of the non-logger sets once, one after the other: the model's pass ends
                # with the last of them
                cur["n"] += 1
                if cur["n"] == nsets:
                    emit("%d iterEnd" % t, sizes["handler_locks"] + sizes["queue_locks"] - base)
                    cur["n"] = 0
            elif kind == "forked":
                emit("%d fork" % t)
                cur["phase"] = "release"
            elif kind == "rel" and obj == "core":
                emit("%d rel" % t)
        elif cur["op"] == "add":
            if kind == "acquired" and obj == "core":
                sect = list(section(pos, tn))
                registers = any(e[1] == "lockreg" for e in sect)
                publishes = any(e[1] == "W" and e[2] == "core.handlers" for e in sect)
                if registers or (publishes and cur["started"]):
                    if not cur["started"]:
                        cur["started"] = True
                        emit("%d startAdd" % t)
                    cur["locked"] = True
                    emit("%d acq" % t)
            elif kind == "rel" and obj == "core" and cur["locked"]:
                cur["locked"] = False
                emit("%d rel" % t)
    return out, meta


def hooks_judge(lines, meta, outs):
    bad = []
    for i, (m, o) in enumerate(zip(meta, outs)):
        if o.startswith(("reject", "bad-op")):
            bad.append("event %d %r rejected by ForkHooks.step: %s" % (i, lines[i], o))
            break
        w = o.split()
        if w[2] != "false":
            bad.append("event %d %r: the model's hook saw the lock sets change during its pass (the real run did not fail)"
                       % (i, lines[i]))
            break
        if m is not None and int(w[1]) != m:
            bad.append("event %d %r: the model's lock sets hold %s run-time lock(s), the real weak sets %d"
                       % (i, lines[i], w[1], m))
            break
    return bad


# ----------------------------------------------------------------------------- activation acceptor (drivers/C02act.lean)
def act_lines(run, mod):
    """Projection of a real trace on the activation protocol for ONE module name: every enable()/disable() of the
    run and the log calls made from module `mod` that reach the activation test.  Returns (lines, meta, rules) where
    meta[i] describes what the real code did at line i (None when there is nothing to compare) and rules[k] is the
    (name, status) of the k-th published change, or None when the run is outside the model."""
    s = run.sched
    if s.deadlock or s.errors or s.aborted:
        return None
    tr = s.trace
    fine = bool(run.program.get("fine"))
    out, meta, rules = ["reset"], [None], []
    dictnum = {}
    nextdict = [1]
    st = {}

    def emit(line, m=None):
        out.append(line)
        meta.append(m)

    def op_events(pos, tn):
        """events of thread tn from pos+1 up to (excluding) its next return"""
        for e in tr[pos + 1:]:
            if e[0] == tn:
                if e[1] == "return":
                    return
                yield e

    for pos, (tn, kind, obj, val) in enumerate(tr):
        if not tn.startswith("t"):
            return None
        t = int(tn[1:])
        cur = st.get(t)
        if kind == "invoke":
            op = json.loads(val)
            if op[0] in ("enable", "disable"):
                if not (op[1] is None or isinstance(op[1], str)):
                    return None
                st[t] = {"op": "change", "name": op[1], "status": op[0] == "enable"}
                emit("%d startChange" % t)
            elif op[0] == "log" and op[1] == mod:
                evs = list(op_events(pos, tn))
                nen = sum(1 for e in evs if e[1] == "Rv" and e[2] == "core.enabled")
                if nen == 0:
                    st.pop(t, None)          # returned before the activation test (no handler / below min_level)
                    continue
                seen_en, decided = False, False
                for e in evs:
                    if e[1] == "Rv" and e[2] == "core.enabled":
                        seen_en = True
                    elif seen_en and e[1] == "Rv" and e[2] == "core.handlers":
                        decided = True
                st[t] = {"op": "log", "reads": 0, "miss": nen >= 2, "enabled": decided, "id": obj}
                emit("%d startLog" % t)
            else:
                st.pop(t, None)
        elif cur is None:
            continue
        elif kind == "return":
            if cur["op"] == "log":
                emit("%d done" % t, ("done", cur["enabled"], cur["id"]))
            st.pop(t, None)
        elif cur["op"] == "change":
            if kind == "acquired" and obj == "core":
                emit("%d acq" % t)
            elif kind == "Rv" and obj == "core.enabled":
                cur["d"] = nextdict[0]
                nextdict[0] += 1
                emit("%d copy" % t, ("copy", cur["d"]))
            elif kind == "W" and obj in ("core.activation_list", "core.activation_none"):
                # a change naming None publishes `activation_none` instead of the rule list: same protocol step
                rules.append((cur["name"], cur["status"]))
                emit("%d pubAct" % t)
            elif kind == "W" and obj == "core.enabled":
                dictnum[val[1]] = cur["d"]
                emit("%d pubEn" % t)
            elif kind == "rel" and obj == "core":
                emit("%d rel" % t)
        elif cur["op"] == "log":
            if kind == "Rv" and obj == "core.enabled":
                d = dictnum.setdefault(val[1], 0)
                cur["reads"] += 1
                if cur["reads"] == 1:
                    emit("%d readEn %d" % (t, d), ("readEn", cur["miss"], cur["id"]))
                else:
                    emit("%d readEn2 %d" % (t, d))
            elif kind == "Rv" and obj in ("core.activation_list", "core.activation_none"):
                emit("%d readAct %d" % (t, len(rules)))
                if not fine:
                    emit("%d fill" % t)      # no scheduling point between the read and the cache fill
            elif kind == "Wfill" and fine:
                emit("%d fill" % t)          # "fine" programs: the fill is an event of its own, in its real position
    return out, meta, rules


def act_judge(lines, meta, rules, outs, mod, spec):
    """compare the acceptor's answers with the real run; returns a list of disagreement strings"""
    bad = []
    for i, (m, o) in enumerate(zip(meta, outs)):
        if o.startswith(("reject", "bad-op")):
            bad.append("event %d %r rejected by Activation.step: %s" % (i, lines[i], o))
            break
        if m is None:
            continue
        w = o.split()
        if m[0] == "copy":
            if w[1:] != ["dict", str(m[1])]:
                bad.append("event %d: dict numbering differs (%r vs %r)" % (i, o, m))
        elif m[0] == "readEn":
            model_miss = w[1] == "miss"
            if model_miss != m[1]:
                bad.append("log call %s of module %r: the model has a cache %s, the implementation a cache %s"
                           % (m[2], mod, "miss" if model_miss else "hit", "miss" if m[1] else "hit"))
        elif m[0] == "done":
            v, r = int(w[2]), int(w[3])
            want = spec(rules[:v], mod)
            if want != m[1]:
                bad.append("log call %s of module %r: the model's call used rule-set version %d (%r => %s), the "
                           "implementation treated the module as %s"
                           % (m[2], mod, v, rules[:v], "enabled" if want else "disabled", "enabled" if m[1] else "disabled"))
            if v < r:
                bad.append("log call %s: used version %d although version %d had been returned before it began" % (m[2], v, r))
    return bad


# ----------------------------------------------------------------------------- level-table acceptor (drivers/C02lvl.lean)
def lvl_lines(run):
    """Projection of a real trace on the level-table protocol (Conc/Levels.lean): creations of levels, add(),
    remove(id) and the log calls made at run-time levels.  Returns (lines, meta) or None when the run is outside the
    model (remove-all, errors).  meta[i] = what the real code did at line i, for `lvl_judge`."""
    s = run.sched
    if s.deadlock or s.errors or s.aborted:
        return None
    if any(op[0] == "removeall" for ops in run.program["threads"] for op in ops):
        return None
    tr = s.trace
    out, meta = ["reset"], [None]
    base = run.builtin_levels
    hmap = {}            # real handler id -> model handler number (construction order)
    lvl_index = {}       # level name -> number (creation order)
    published = [0]
    st = {}

    def emit(line, m=None):
        out.append(line)
        meta.append(m)

    def later(pos, tn, stop_kinds):
        """events of thread tn after pos up to (excluding) its next event of a kind in stop_kinds"""
        for e in tr[pos + 1:]:
            if e[0] == tn:
                if e[1] in stop_kinds:
                    return
                yield e

    # the initial handlers were built and registered before the threads started
    for hid in run.initial_ids:
        h = len(hmap)
        hmap[hid] = h
        for l in ("98 startAdd", "98 acq"):
            emit(l)
        emit("98 construct", ("construct", h, 0))
        emit("98 register")
        emit("98 rel")

    for pos, (tn, kind, obj, val) in enumerate(tr):
        if not tn.startswith("t"):
            return None
        t = int(tn[1:])
        cur = st.get(t)
        if kind == "invoke":
            op = json.loads(val)
            st.pop(t, None)
            if op[0] == "newlevel":
                st[t] = {"op": "level", "name": op[1], "locked": False}
                emit("%d startLevel" % t)
            elif op[0] == "add":
                st[t] = {"op": "add", "locked": False}
                emit("%d startAdd" % t)
            elif op[0] == "remove":
                # whether the call removes something - and which model handler - is only known when it holds the
                # lock (the handler may be registered by another thread between the invocation and that moment)
                st[t] = {"op": "remove", "locked": False, "target": op[1]}
            elif op[0] == "log" and op[2] in run.custom_levels:
                evs = list(later(pos, tn, ("return",)))
                if any(e[1] == "Rd" and e[2] == "core.levels_lookup" for e in evs):
                    st[t] = {"op": "log", "level": op[2], "id": obj}
                    # the level number is only known once the level exists; a log that precedes the creation reads
                    # a table without the name: give it the number the name WILL get (names are created once)
        elif cur is None:
            continue
        elif kind == "return":
            if cur["op"] == "log" and cur.get("started"):
                if cur.get("phase") in ("l1", "l2"):
                    emit("%d done" % t)
            st.pop(t, None)
        elif cur["op"] == "level":
            if kind == "acquired" and obj == "core":
                cur["locked"] = True
                emit("%d acq" % t)
            elif kind == "Wd" and obj == "core.levels_ansi_codes" and val[1]:
                lvl_index[val[0]] = len(lvl_index)
                emit("%d setAnsi" % t)
            elif kind == "Wd" and obj == "core.levels_lookup" and val[1]:
                published[0] += 1
                emit("%d pubLookup" % t)
            elif kind == "Rv" and obj == "core.handlers" and cur["locked"]:
                emit("%d readReg" % t, ("reg", [hmap.get(h) for h in val]))
            elif kind == "upd" and cur["locked"]:
                emit("%d upd %d" % (t, hmap[int(obj[1:])]))
            elif kind == "rel" and obj == "core":
                cur["locked"] = False
                emit("%d rel" % t)
        elif cur["op"] == "add":
            if kind == "construct":
                h = len(hmap)
                hmap[int(obj[1:])] = h
                emit("%d construct" % t, ("construct", h, val - base))
            elif kind == "acquired" and obj == "core":
                sect = list(later(pos, tn, ("rel",)))
                if any(e[1] == "construct" or (e[1] == "W" and e[2] == "core.handlers") for e in sect):
                    cur["locked"] = True
                    emit("%d acq" % t)
            elif kind == "W" and obj == "core.handlers":
                emit("%d register" % t)
            elif kind == "rel" and obj == "core" and cur["locked"]:
                cur["locked"] = False
                emit("%d rel" % t)
        elif cur["op"] == "remove":
            if kind == "acquired" and obj == "core":
                sect = list(later(pos, tn, ("rel",)))
                if any(e[1] == "W" and e[2] == "core.handlers" for e in sect):
                    if cur["target"] not in hmap:
                        return None
                    cur["locked"] = True
                    emit("%d startRemove %d" % (t, hmap[cur["target"]]))
                    emit("%d acq" % t)
            elif kind == "W" and obj == "core.handlers" and cur["locked"]:
                emit("%d unreg" % t)
            elif kind == "rel" and obj == "core" and cur["locked"]:
                cur["locked"] = False
                emit("%d rel" % t)
        elif cur["op"] == "log":
            if kind == "Rd" and obj == "core.levels_lookup" and not cur.get("started"):
                name = cur["level"]
                # number of the level: its creation index if it has been created, otherwise the next free one
                l = lvl_index.get(name, len(lvl_index))
                cur["l"] = l
                cur["started"] = True
                emit("%d startLog %d" % (t, l))
                emit("%d readLookup %d" % (t, published[0]), ("lookup", val[1], cur["id"]))
                cur["phase"] = "l1" if val[1] else "idle"
            elif kind == "Rv" and obj == "core.handlers" and cur.get("phase") == "l1":
                emit("%d readReg" % t, ("reg", [hmap.get(h) for h in val]))
                cur["phase"] = "l2"
            elif kind == "visit" and cur.get("phase") == "l2":
                hid = int(obj[1:])
                pre = None
                for e in later(pos, tn, ("visit", "return")):
                    if e[1] == "Rd" and e[2] == "h%d.pre" % hid:
                        pre = e[3][1]
                        break
                emit("%d emit %d" % (t, hmap[hid]), ("emit", cur["l"], pre, cur["id"], hid))
    return out, meta


def lvl_judge(lines, meta, outs):
    bad = []
    for i, (m, o) in enumerate(zip(meta, outs)):
        if o.startswith(("reject", "bad-op")):
            bad.append("event %d %r rejected by Levels.step: %s" % (i, lines[i], o))
            break
        if m is None:
            continue
        w = o.split()
        if m[0] == "construct":
            if w[1:] != ["construct", str(m[1]), str(m[2])]:
                bad.append("event %d: the model's new handler is %s, the implementation built handler %d knowing %d "
                           "run-time level(s)" % (i, " ".join(w[1:]), m[1], m[2]))
        elif m[0] == "reg":
            want = "[" + ", ".join(str(h) for h in m[1]) + "]"
            if " ".join(w[2:]) != want:
                bad.append("event %d: registry snapshot differs: model %s, implementation %s" % (i, " ".join(w[2:]), want))
        elif m[0] == "lookup":
            if (w[1] == "exists") != m[1]:
                bad.append("log call %s: the model finds the level %s, the implementation %s"
                           % (m[2], w[1], "exists" if m[1] else "missing"))
        elif m[0] == "emit" and m[2] is not None:
            known = int(w[2])
            if (m[1] < known) != m[2]:
                bad.append("log call %s at run-time level #%d, handler %d: the model's handler knows %d level(s), the "
                           "implementation's look-up in _precolorized_formats %s"
                           % (m[3], m[1], m[4], known, "succeeded" if m[2] else "failed"))
    return bad
