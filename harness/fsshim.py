"""Fault-injecting shim for `loguru._file_sink` (C08, C18; DESIGN §4 C08 Tie).

`Shim.install()` replaces, as seen by the module `loguru._file_sink` only, `os`, `glob`, `shutil`,
`open` (module attribute shadowing the builtin), `get_ctime`, `set_ctime`, `aware_now`; during
`logger.add` the compression openers (`gzip.open`, `bz2.open`, `lzma.open`, `tarfile.open`,
`zipfile.ZipFile`) are replaced as well (the sink captures them in `functools.partial`s).  All proxies
work on the REAL file system (a scratch directory); every call of a primitive is numbered and logged,
and call k raises `OSError(errno)` *instead of* acting when k is a key of `fault_at` (a dict
index -> errno; the errno is part of the quantifier: ENOSPC, EDQUOT, EIO, EACCES, EPERM, EROFS, EMFILE, …;
the exception is built with `OSError(errno, msg)` so that CPython picks the subclass – PermissionError
etc. – exactly as for a real failure).

A `stat`/`remove` counts as a RETENTION step when it is issued from inside the retention policy (a frame
of `Retention.retention_count/age` or of a registered retention callable is on the stack); this does not
depend on where the sink calls `glob.glob`.

Primitive kinds (same names as `FileSink.Ev` of the Lean model):
  mkdirs open fstat write flush close stat getctime rename remove glob openr copen ccopy rotcall
  compcall retstat
`os.path.*` (exists, isfile, splitext, …) never raise OSError in CPython and are left alone.
"""
import bz2
import builtins
import errno
import glob as real_glob
import gzip
import lzma
import os as real_os
import shutil as real_shutil
import sys
import tarfile
import zipfile


ERRNOS = ["EIO", "ENOSPC", "EDQUOT", "EACCES", "EPERM", "EROFS", "EMFILE"]


def is_injected(e):
    return isinstance(e, OSError) and getattr(e, "injected", False)


class Shim:
    def __init__(self):
        self.calls = []          # (kind, args tuple of str)
        self.fault_at = {}       # primitive index -> errno number
        self.retention_codes = set()   # code objects of user retention callables
        self.k = 0
        self.in_retention = False
        self.clock = None        # callable -> aware datetime (for `{time}` in paths)
        self.ctime = None        # callable(path) -> float timestamp
        self.on_remove = None    # callable(path, phase) called before a real remove
        self._saved = None
        self.faulted = []        # indices that actually fired
        self.exists_streak = 0   # consecutive os.path.exists probes with no primitive in between

    # ------------------------------------------------------------------ bookkeeping
    def begin_call(self):
        self.in_retention = False

    def in_retention_now(self):
        f = sys._getframe(1)
        while f is not None:
            co = f.f_code
            if co in self.retention_codes:
                return True
            if co.co_name in ("retention_count", "retention_age") and co.co_filename.endswith("_file_sink.py"):
                return True
            f = f.f_back
        return False

    def prim(self, kind, *args):
        self.exists_streak = 0
        idx = self.k
        self.k += 1
        self.calls.append((kind, tuple(args)))
        if idx in self.fault_at:
            self.faulted.append(idx)
            e = OSError(self.fault_at[idx], "injected fault at primitive #%d (%s)" % (idx, kind))
            e.injected = True
            raise e
        return idx

    # ------------------------------------------------------------------ install / remove
    def install(self):
        import loguru._file_sink as fsm

        self._saved = {name: fsm.__dict__.get(name, _MISSING) for name in
                       ("os", "glob", "shutil", "open", "get_ctime", "set_ctime", "aware_now", "datetime")}
        self._real_aware_now = fsm.aware_now
        fsm.os = _OsProxy(self)
        fsm.glob = _GlobProxy(self)
        fsm.shutil = _ShutilProxy(self)
        fsm.open = self._open
        fsm.get_ctime = self._get_ctime
        fsm.set_ctime = self._set_ctime
        fsm.aware_now = self._aware_now
        return self

    def uninstall(self):
        import loguru._file_sink as fsm

        for name, val in (self._saved or {}).items():
            if val is _MISSING:
                fsm.__dict__.pop(name, None)
            else:
                setattr(fsm, name, val)
        self._saved = None

    class _Openers:
        def __init__(self, shim):
            self.shim = shim

        def __enter__(self):
            s = self.shim
            self.saved = (gzip.open, bz2.open, lzma.open, tarfile.open, zipfile.ZipFile)
            gzip.open = s._stream_opener(self.saved[0])
            bz2.open = s._stream_opener(self.saved[1])
            lzma.open = s._stream_opener(self.saved[2])
            tarfile.open = s._member_opener(self.saved[3], "add")
            zipfile.ZipFile = s._member_opener(self.saved[4], "write")
            return self

        def __exit__(self, *exc):
            gzip.open, bz2.open, lzma.open, tarfile.open, zipfile.ZipFile = self.saved
            return False

    def openers(self):
        """context manager to wrap `logger.add(...)`"""
        return Shim._Openers(self)

    # ------------------------------------------------------------------ proxies
    def _open(self, path, mode="r", *args, **kwargs):
        if "r" in mode and "+" not in mode:
            self.prim("openr", path)
            return builtins.open(path, mode, *args, **kwargs)
        self.prim("open", path)
        return _FileProxy(self, builtins.open(path, mode, *args, **kwargs))

    def _get_ctime(self, path):
        self.prim("getctime", path)
        if not real_os.path.exists(path):
            raise FileNotFoundError(errno.ENOENT, "No such file or directory", path)
        return self.ctime(path)

    def _set_ctime(self, path, timestamp):
        return None

    def _aware_now(self):
        if self.clock is None:
            return self._real_aware_now()
        return self.clock()

    def _stream_opener(self, real):
        def opener(path, *args, **kwargs):
            self.prim("copen", path)
            return real(path, *args, **kwargs)
        return opener

    def _member_opener(self, real, meth):
        def opener(path, *args, **kwargs):
            self.prim("copen", path)
            return _ArchiveProxy(self, real(path, *args, **kwargs), meth)
        return opener


_MISSING = object()


class _FileProxy:
    def __init__(self, shim, f):
        self.__dict__["_shim"] = shim
        self.__dict__["_f"] = f

    def write(self, data):
        self._shim.prim("write")
        return self._f.write(data)

    def flush(self):
        self._shim.prim("flush")
        return self._f.flush()

    def close(self):
        try:
            self._shim.prim("close")
        except OSError:
            # CPython: a close() that fails still leaves the file object closed
            try:
                self._f.close()
            except Exception:
                pass
            raise
        return self._f.close()

    def __getattr__(self, name):
        return getattr(self._f, name)

    def __bool__(self):
        return True


class _ArchiveProxy:
    def __init__(self, shim, a, meth):
        self._shim, self._a, self._meth = shim, a, meth

    def __enter__(self):
        self._a.__enter__()
        return self

    def __exit__(self, *exc):
        return self._a.__exit__(*exc)

    def add(self, path, arcname=None, *args, **kwargs):
        self._shim.prim("ccopy", path, arcname)
        return self._a.add(path, arcname, *args, **kwargs)

    def write(self, path, arcname=None, *args, **kwargs):
        self._shim.prim("ccopy", path, arcname)
        return self._a.write(path, arcname, *args, **kwargs)

    def __getattr__(self, name):
        return getattr(self._a, name)


PROBE_LIMIT = 1000


class _PathProxy:
    """`os.path` as seen by loguru._file_sink: `exists` is counted so that a probing loop that never finds a free
    name (generate_rename_path) becomes a RuntimeError of the logging call instead of an endless run"""

    def __init__(self, shim):
        self._shim = shim

    def exists(self, path):
        s = self._shim
        s.exists_streak += 1
        if s.exists_streak > PROBE_LIMIT:
            raise RuntimeError("os.path.exists was probed %d times in a row: the rename loop does not terminate"
                               % PROBE_LIMIT)
        return real_os.path.exists(path)

    def __getattr__(self, name):
        return getattr(real_os.path, name)


class _OsProxy:
    def __init__(self, shim):
        self._shim = shim
        self.path = _PathProxy(shim)

    def makedirs(self, name, *args, **kwargs):
        self._shim.prim("mkdirs", name)
        return real_os.makedirs(name, *args, **kwargs)

    def rename(self, a, b):
        self._shim.prim("rename", a, b)
        return real_os.rename(a, b)

    def replace(self, a, b):
        self._shim.prim("rename", a, b)
        return real_os.replace(a, b)

    def remove(self, path):
        s = self._shim
        phase = "retention" if s.in_retention_now() else "compression"
        s.prim("remove", path, phase)
        if s.on_remove is not None:
            s.on_remove(path, phase)
        return real_os.remove(path)

    def unlink(self, path):
        return self.remove(path)

    def stat(self, path, *args, **kwargs):
        self._shim.prim("retstat" if self._shim.in_retention_now() else "stat", path)
        return real_os.stat(path, *args, **kwargs)

    def fstat(self, fd):
        self._shim.prim("fstat")
        return real_os.fstat(fd)

    def __getattr__(self, name):
        return getattr(real_os, name)


class _GlobProxy:
    def __init__(self, shim):
        self._shim = shim

    def glob(self, pattern, *args, **kwargs):
        self._shim.prim("glob", pattern)
        self._shim.in_retention = True
        return real_glob.glob(pattern, *args, **kwargs)

    def __getattr__(self, name):
        return getattr(real_glob, name)


class _ShutilProxy:
    def __init__(self, shim):
        self._shim = shim

    def copyfileobj(self, fsrc, fdst, *args, **kwargs):
        self._shim.prim("ccopy", getattr(fsrc, "name", None), None)
        return real_shutil.copyfileobj(fsrc, fdst, *args, **kwargs)

    def __getattr__(self, name):
        return getattr(real_shutil, name)
