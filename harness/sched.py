"""Deterministic baton scheduler for the REAL loguru code (DESIGN §4 C02/C03/C15).

Only the baton holder runs; it hands the baton back at every *shared access*:
  * lock acquire / release            (loguru._locks_machinery.threading -> shim `Lock`)
  * read / write of published Core attributes (tracing Core subclass)
  * read / write of Handler._stopped          (tracing Handler subclass)
  * sink begin / end, sink stop
  * queue put/get, event set/wait/clear, mp-lock (FakeContext for enqueue=True), worker start/join
A schedule is the list of thread names chosen at the scheduling points; a run is replayed exactly
from (program, schedule).  No source hook is needed.
"""
import re
import threading
import types

import loguru._handler as _hd
import loguru._locks_machinery as _lm
import loguru._logger as _lg
from multiprocessing.context import BaseContext

_real_threading = threading
CORE_SHARED = ("handlers", "handlers_count", "min_level", "enabled", "activation_list", "activation_none")


class SchedAbort(BaseException):
    pass


class Deadlock(Exception):
    pass


class Sched:
    """chooser(runnable_sorted, sched) -> name.  Records `choices` (only where >1 runnable)."""

    def __init__(self, chooser, max_events=20000):
        self.chooser = chooser
        self.cv = _real_threading.Condition()
        self.cur = None
        self.threads = {}          # name -> Thread
        self.idents = {}           # thread ident -> name
        self.blocked = {}          # name -> predicate (True while blocked)
        self.done = set()
        self.trace = []            # (thread, kind, obj, value)
        self.choices = []          # chosen names at points with > 1 runnable
        self.points = []           # (runnable tuple, chosen) at every scheduling point
        self.errors = []           # (thread, exception)
        self.deadlock = None
        self.deadlock_pos = None
        self.aborted = False
        self.max_events = max_events
        self.last = None
        self.preemptions = 0
        self.daemons = set()       # worker threads: the run ends when only these remain (blocked)
        self.finished = False

    # ---- thread management
    def spawn(self, name, fn):
        def body():
            with self.cv:
                self.idents[_real_threading.get_ident()] = name
                while self.cur != name:
                    if self.aborted:
                        return
                    self.cv.wait(0.05)
            try:
                fn()
            except SchedAbort:
                pass
            except BaseException as e:  # noqa: an exception escaping an operation is an observation
                self.errors.append((name, e))
            finally:
                with self.cv:
                    self.done.add(name)
                    self.trace.append((name, "exit", "", ""))
                    self._pick()
                    self.cv.notify_all()

        t = _real_threading.Thread(target=body, daemon=True, name="sched-" + name)
        self.threads[name] = t
        return t

    def spawn_running(self, name, fn):
        """spawn from inside a scheduled thread (worker threads): starts immediately, waits for baton"""
        t = self.spawn(name, fn)
        t.start()
        return t

    def me(self):
        return self.idents.get(_real_threading.get_ident())

    def _runnable(self):
        out = []
        for n in self.threads:
            if n in self.done:
                continue
            b = self.blocked.get(n)
            if b is not None and b():
                continue
            out.append(n)
        return sorted(out)

    def _pick(self):
        r = self._runnable()
        if r and all(n in self.daemons for n in r) and all(
                n in self.done or n in self.daemons for n in self.threads):
            # only workers are left and they still have work: let them run
            pass
        if not r:
            self.cur = None
            left = set(self.threads) - self.done
            if left and all(n in self.daemons for n in left):
                self.finished = True          # workers blocked on an empty queue: normal end of the run
                self.aborted = True
            elif left and self.deadlock is None:
                self.deadlock = sorted(left)
                self.deadlock_pos = len(self.trace)
                self.aborted = True
            return
        if len(self.trace) > self.max_events:
            self.aborted = True
            self.cur = None
            return
        c = self.chooser(r, self)
        if len(r) > 1:
            self.choices.append(c)
            if self.last in r and c != self.last:
                self.preemptions += 1
        self.points.append((tuple(r), c, self.last))
        self.cur = c
        self.last = c

    def point(self, kind, obj="", value="", blocked=None):
        """A scheduling point of the calling thread (no-op for threads the scheduler does not own)."""
        n = self.me()
        if n is None:
            return
        if self.aborted:
            raise SchedAbort()
        with self.cv:
            self.trace.append((n, kind, obj, value))
            if blocked is not None:
                self.blocked[n] = blocked
            self._pick()
            self.cv.notify_all()
            while self.cur != n:
                if self.aborted:
                    raise SchedAbort()
                self.cv.wait(0.05)
            self.blocked.pop(n, None)

    def log_event(self, kind, obj="", value=""):
        n = self.me()
        if n is None:
            return
        with self.cv:
            self.trace.append((n, kind, obj, value))

    def go(self, timeout=20.0):
        for t in list(self.threads.values()):
            t.start()
        with self.cv:
            # wait until every thread has registered its ident
            pass
        import time
        t0 = time.time()
        while len(self.idents) < len(self.threads) and time.time() - t0 < 5:
            time.sleep(0.0005)
        with self.cv:
            self._pick()
            self.cv.notify_all()
        deadline = time.time() + timeout
        for t in list(self.threads.values()):
            t.join(max(0.0, deadline - time.time()))
        # late-spawned workers
        for t in list(self.threads.values()):
            t.join(max(0.0, deadline - time.time()))
        hung = [n for n, t in self.threads.items() if t.is_alive()]
        if hung and not self.deadlock and not self.finished:
            with self.cv:
                self.aborted = True
                self.cv.notify_all()
            self.deadlock = self.deadlock or ("timeout", hung)
        return self


CUR = [None]  # the active scheduler (one run at a time per process)


def S():
    return CUR[0]


# ----------------------------------------------------------------------------- shims
class Lock:
    """replacement for threading.Lock inside loguru._locks_machinery"""

    _seq = [0]

    def __init__(self):
        self.owner = None
        Lock._seq[0] += 1
        self.serial = Lock._seq[0]
        self.tag = None  # resolved lazily: "core" / "h<i>" / "q<i>"

    def name(self):
        return self.tag or ("lock#%d" % self.serial)

    def acquire(self, blocking=True, timeout=-1):
        s = S()
        if s is not None and s.me() is not None:
            if not blocking:
                s.point("tryacq", self.name())
                if self.owner is not None:
                    return False
                self.owner = s.me()
                return True
            s.point("acq", self.name(), blocked=lambda: self.owner is not None)
            assert self.owner is None, "scheduler let a thread through a held lock"
            self.owner = s.me()
            s.log_event("acquired", self.name())
            return True
        if self.owner is not None:
            raise RuntimeError("unscheduled thread would block on a shim lock held by %r" % (self.owner,))
        self.owner = "ext"
        return True

    def release(self):
        s = S()
        if self.owner is None:
            raise RuntimeError("release unlocked lock")
        self.owner = None
        if s is not None and s.me() is not None:
            s.point("rel", self.name())

    def locked(self):
        return self.owner is not None

    __enter__ = acquire

    def __exit__(self, *a):
        self.release()


def install():
    """Redirect loguru's lock factory to the shim (idempotent).  at-fork hooks registered by the
    module keep working: they iterate the same WeakSets."""
    _lm.threading = types.SimpleNamespace(Lock=Lock)


def uninstall():
    _lm.threading = _real_threading


class TDict(dict):
    """dict that records (without a scheduling point) stores and look-ups of string keys: the level tables of the
    Core (`levels_ansi_codes`, `levels_lookup`) and a handler's `_precolorized_formats`"""

    def __init__(self, data, tag):
        super().__init__(data)
        self.tag = tag

    def __setitem__(self, k, v):
        new = k not in self
        super().__setitem__(k, v)
        s = S()
        if s is not None and isinstance(k, str) and s.me() is not None:
            s.log_event("Wd", self.tag, (k, new))

    def __getitem__(self, k):
        s = S()
        if s is not None and isinstance(k, str) and s.me() is not None:
            s.log_event("Rd", self.tag, (k, k in self))
        return super().__getitem__(k)

    def copy(self):
        return dict(self)


class TCore(_lg.Core):
    def __init__(self, *a, **kw):
        super().__init__(*a, **kw)
        object.__setattr__(self, "levels_ansi_codes", TDict(self.levels_ansi_codes, "core.levels_ansi_codes"))
        object.__setattr__(self, "levels_lookup", TDict(self.levels_lookup, "core.levels_lookup"))
        object.__setattr__(self, "builtin_levels", len(self.levels_ansi_codes))

    def __setattr__(self, k, v):
        s = S()
        if s is not None and k in CORE_SHARED:
            s.point("Wreq", "core." + k, _val(k, v))
            object.__setattr__(self, k, v)
            s.log_event("W", "core." + k, _val(k, v))   # logged when the store has taken effect
            return
        object.__setattr__(self, k, v)

    def __getattribute__(self, k):
        v = object.__getattribute__(self, k)
        if k in CORE_SHARED:
            s = S()
            if s is not None:
                s.point("R", "core." + k, _val(k, v))
                v = object.__getattribute__(self, k)
                s.log_event("Rv", "core." + k, _val(k, v))
        return v


def _val(k, v):
    if k == "handlers":
        return tuple(v.keys())
    if k == "enabled":
        return ("dict", id(v))
    if k == "activation_list":
        return tuple(v)
    return v


HANDLERS = []  # every THandler created during the current run, in creation order


class THandler(_hd.Handler):
    def __init__(self, **kw):
        object.__setattr__(self, "_verif_ready", False)
        super().__init__(**kw)
        HANDLERS.append(self)
        for attr, tag in (("_lock", "h%d"), ("_queue_lock", "q%d")):
            lk = getattr(self, attr, None)
            if isinstance(lk, Lock):         # a lock that did not come from the (shimmed) lock factory is left alone
                lk.tag = tag % self._id
        object.__setattr__(self, "_precolorized_formats", TDict(self._precolorized_formats, "h%d.pre" % self._id))
        object.__setattr__(self, "_verif_ready", True)
        s = S()
        if s is not None and s.me() is not None:
            # the snapshot of the level table the new handler was built from
            s.log_event("construct", "h%d" % self._id, len(self._levels_ansi_codes))

    def update_format(self, level_id):
        super().update_format(level_id)
        s = S()
        if s is not None and s.me() is not None and object.__getattribute__(self, "_verif_ready"):
            s.log_event("upd", "h%d" % self._id, level_id)

    def emit(self, record, level_id, *a, **kw):
        s = S()
        if s is not None and s.me() is not None:
            s.log_event("visit", "h%d" % self._id, level_id)
        return super().emit(record, level_id, *a, **kw)

    def __setattr__(self, k, v):
        if k == "_stopped":
            s = S()
            if s is not None and object.__getattribute__(self, "_verif_ready"):
                hid = object.__getattribute__(self, "_id")
                s.point("Wreq", "h%d._stopped" % hid, v)
                object.__setattr__(self, k, v)
                s.log_event("W", "h%d._stopped" % hid, v)
                return
        object.__setattr__(self, k, v)

    def __getattribute__(self, k):
        if k == "_stopped":
            s = S()
            if s is not None:
                hid = object.__getattribute__(self, "_id")
                s.point("R", "h%d._stopped" % hid)
                v = object.__getattribute__(self, k)
                s.log_event("Rv", "h%d._stopped" % hid, v)
                return v
        return object.__getattribute__(self, k)


_ANSI = re.compile(r"\x1b\[[0-9;]*m")


class TracingSink:
    """sink object: write/stop are bracketed by scheduling points; contents recorded"""

    def __init__(self, tag, yield_inside=True):
        self.tag = tag
        self.items = []
        self.stops = 0
        self.busy = None
        self.overlap = []
        self.yield_inside = yield_inside

    def write(self, message):
        s = S()
        me = s.me() if s is not None else None
        if self.busy is not None:
            self.overlap.append((self.busy, me))
        self.busy = me
        text = _ANSI.sub("", str(message)).strip()
        if s is not None:
            s.point("wbegin", self.tag, text)
        self.items.append(text)
        if s is not None and self.yield_inside:
            s.point("wend", self.tag, text)
        self.busy = None

    def stop(self):
        s = S()
        self.stops += 1
        if s is not None:
            s.point("sstop", self.tag)

    def tasks_to_complete(self):
        return []


class FailingSink(TracingSink):
    """TracingSink whose write raises for the messages selected by `fails(text)` (after the begin point)"""

    def __init__(self, tag, fails):
        super().__init__(tag)
        self.fails = fails
        self.failed = []

    def write(self, message):
        text = _ANSI.sub("", str(message)).strip()
        if not self.fails(text):
            return super().write(message)
        s = S()
        me = s.me() if s is not None else None
        self.busy = me
        if s is not None:
            s.point("wbegin", self.tag, text)
        self.busy = None
        self.failed.append(text)
        raise ValueError("sink %s refuses %r" % (self.tag, text))


class TracingStderr:
    """stands in for sys.stderr during a scheduled run: loguru's error reports are written here; the first and the
    last line of every report are scheduling points, and while a write is in progress `busy` names the writer"""

    def __init__(self):
        self.busy = None
        self.chunks = []

    def write(self, text):
        s = S()
        me = s.me() if s is not None else None
        if s is not None and me is not None and text.startswith("--- "):
            self.busy = me
            s.point("ewrite", "stderr", text.strip()[:40])
            self.busy = None
        self.chunks.append(text)
        return len(text)

    def flush(self):
        pass


def make_logger(core=None):
    core = core or TCore()
    lk = object.__getattribute__(core, "lock")
    if isinstance(lk, Lock):
        lk.tag = "core"
    return _lg.Logger(core=core, exception=None, depth=0, record=False, lazy=False, colors=False,
                      raw=False, capture=True, patchers=[], extra={})


class Env:
    """Installs the shims for one run and restores everything afterwards."""

    def __enter__(self):
        install()
        for name in ("logger_locks", "handler_locks", "queue_locks"):
            ws = getattr(_lm, name, None)
            if ws is not None:
                ws.clear()          # locks of earlier runs must not be swept up by acquire_locks()
        self.saved_handler = _lg.Handler
        _lg.Handler = THandler
        del HANDLERS[:]
        return self

    def __exit__(self, *a):
        CUR[0] = None
        _lg.Handler = self.saved_handler
        uninstall()
        del HANDLERS[:]


# ----------------------------------------------------------------------------- choosers
def replay_chooser(schedule, fallback=None):
    """follow `schedule` (list of names for points with >1 runnable); then first runnable / fallback"""
    it = {"i": 0}

    def choose(r, s):
        if len(r) == 1:
            return r[0]
        i = it["i"]
        if i < len(schedule) and schedule[i] in r:
            it["i"] = i + 1
            return schedule[i]
        it["i"] = i + 1
        if fallback is not None:
            return fallback(r, s)
        return s.last if s.last in r else r[0]

    return choose


def random_chooser(rng, switch_pct=35):
    def choose(r, s):
        if len(r) == 1:
            return r[0]
        if s.last in r and not rng.chance(switch_pct):
            return s.last
        return rng.choice(r)

    return choose


# ----------------------------------------------------------------------------- enqueue shims (C03 / C15)
REGISTRY = {}   # shared "cross-process" objects survive pickling by identity


def _lookup(key):
    return REGISTRY[key]


class _Shared:
    _n = [0]

    def _register(self, kind):
        _Shared._n[0] += 1
        self.key = "%s%d" % (kind, _Shared._n[0])
        REGISTRY[self.key] = self

    def __reduce__(self):
        return (_lookup, (self.key,))


class FakeQueue(_Shared):
    """multiprocessing.SimpleQueue stand-in: FIFO, atomic put, blocking get; `capacity` models the pipe"""

    poison = frozenset()        # texts of messages that cannot be un-pickled by the reader: get() consumes them and raises
    poison_exc = RuntimeError   # ... with this exception class (C03: any Exception subclass un-pickling can raise)
    putfail = frozenset()       # texts of messages whose record cannot be pickled by the writer: put() raises, nothing queued
    flaky = [0]                 # number of get() calls that still raise WITHOUT consuming anything (a read error)

    def __init__(self, capacity=None):
        self.items = []
        self.capacity = capacity
        self._register("queue")

    def put(self, item):
        s = S()
        if s is not None and s.me() is not None:
            if self.capacity is not None:
                s.point("put?", self.key, _item(item), blocked=lambda: len(self.items) >= self.capacity)
            else:
                s.point("put?", self.key, _item(item))
            if isinstance(item, str) and FakeQueue.putfail and str(item).strip() in FakeQueue.putfail:
                s.log_event("putfail", self.key, _item(item))
                import pickle as _pickle
                raise _pickle.PicklingError("the record could not be pickled")
            self.items.append(item)
            s.log_event("put", self.key, _item(item))
        else:
            self.items.append(item)

    def get(self):
        s = S()
        if s is not None and s.me() is not None:
            s.point("get?", self.key, blocked=lambda: not self.items)
            if FakeQueue.flaky[0] > 0:
                FakeQueue.flaky[0] -= 1
                s.log_event("getraise", self.key)
                raise OSError(4, "Interrupted system call")
            item = self.items.pop(0)
            if isinstance(item, str) and str(item).strip() in FakeQueue.poison:
                s.log_event("get", self.key, "poison:" + str(item).strip())
                raise FakeQueue.poison_exc("the item could not be un-pickled")
            s.log_event("get", self.key, _item(item))
            return item
        if not self.items:
            raise RuntimeError("unscheduled get on empty FakeQueue")
        return self.items.pop(0)

    def empty(self):
        return not self.items

    def close(self):
        pass


def _item(item):
    if item is None:
        return "sentinel"
    if item is True:
        return "confirm"
    return "msg:" + str(item).strip()


class FakeEvent(_Shared):
    def __init__(self):
        self.flag = False
        self._register("event")

    def set(self):
        s = S()
        if s is not None and s.me() is not None:
            s.point("set?", self.key)
            self.flag = True
            s.log_event("set", self.key)
        else:
            self.flag = True

    def clear(self):
        s = S()
        if s is not None and s.me() is not None:
            s.point("clear?", self.key)
            self.flag = False
            s.log_event("clear", self.key)
        else:
            self.flag = False

    def wait(self, timeout=None):
        s = S()
        if s is not None and s.me() is not None:
            s.point("wait?", self.key, blocked=lambda: not self.flag)
            s.log_event("waited", self.key)
            return True
        return self.flag

    def is_set(self):
        return self.flag


class FakeMPLock(_Shared):
    def __init__(self):
        self.owner = None
        self._register("mplock")

    def acquire(self, block=True, timeout=None):
        s = S()
        if s is not None and s.me() is not None:
            s.point("acq", self.key, blocked=lambda: self.owner is not None)
            self.owner = s.me()
            s.log_event("acquired", self.key)
            return True
        self.owner = "ext"
        return True

    def release(self):
        self.owner = None
        s = S()
        if s is not None and s.me() is not None:
            s.point("rel", self.key)

    __enter__ = acquire

    def __exit__(self, *a):
        self.release()


class FakeContext(BaseContext):
    _name = "fake"

    def __init__(self, capacity=None, start_method="fork"):
        self.capacity = capacity
        self.start_method = start_method

    def get_start_method(self, allow_none=False):
        return self.start_method

    def SimpleQueue(self):
        return FakeQueue(self.capacity)

    def Event(self):
        return FakeEvent()

    def Lock(self):
        return FakeMPLock()


class SchedThread:
    """replacement for threading.Thread inside loguru._handler: the enqueue worker becomes a scheduled
    thread named `w<k>`"""

    _n = [0]

    def __init__(self, target=None, daemon=None, name=None, args=(), kwargs=None):
        self.target, self.args, self.kwargs = target, args, kwargs or {}
        SchedThread._n[0] += 1
        self.sname = "w%d" % SchedThread._n[0]
        self.name = name

    def start(self):
        s = PENDING_SCHED[0] or S()
        if s is None:
            raise RuntimeError("SchedThread started without a scheduler")
        fn = lambda: self.target(*self.args, **self.kwargs)  # noqa: E731
        s.daemons.add(self.sname)
        if s.me() is not None:
            s.spawn_running(self.sname, fn)
        else:
            s.spawn(self.sname, fn)
        self.sched = s

    def join(self, timeout=None):
        s = S()
        if s is not None and s.me() is not None:
            s.point("join?", self.sname, blocked=lambda: self.sname not in s.done)
            s.log_event("joined", self.sname)

    def is_alive(self):
        return self.sname not in self.sched.done


PENDING_SCHED = [None]   # scheduler that adopts workers started while the program is being set up
PIDS = {}                # scheduled thread name -> emulated pid
import os as _real_os   # the shim below is installed as loguru._handler.os whether or not that module imports os


class _OsShim:
    def __getattr__(self, k):
        return getattr(_real_os, k)

    @staticmethod
    def getpid():
        s = S() or PENDING_SCHED[0]
        if s is not None:
            n = s.me()
            if n is not None and n in PIDS:
                return PIDS[n]
        return 1000


class _DeadThread:
    """the worker thread object as a forked child sees it: copied, but not running there"""

    def join(self, timeout=None):
        return None

    def is_alive(self):
        return False


def fork_copy_logger(logger, p, sink_of=None):
    """The logger as a child created by a raw os.fork() sees it: a memory copy.  Every object is copied attribute
    by attribute (whatever the attributes are called, so that bookkeeping such as the owner of an enqueue handler is
    inherited verbatim), the multiprocessing primitives (queue, events, mp locks of the FakeContext) stay shared,
    thread locks are fresh and released (the at-fork hooks released them), thread-locals are fresh, the worker
    thread does not run in the child, and the sink is the child's own copy (`sink_of(old)` gives the replacement of
    the user's sink object)."""
    def clone(o):
        c = object.__new__(type(o))
        for k, v in o.__dict__.items():
            object.__setattr__(c, k, v)
        return c

    core = logger._core
    ccore = clone(core)
    for k, v in list(core.__dict__.items()):
        if isinstance(v, Lock):
            nl = Lock()
            nl.tag = "core@%d" % p
            object.__setattr__(ccore, k, nl)
        elif isinstance(v, _real_threading.local):
            object.__setattr__(ccore, k, _real_threading.local())
        elif isinstance(v, dict) and k != "handlers":
            object.__setattr__(ccore, k, dict(v))
        elif isinstance(v, list):
            object.__setattr__(ccore, k, list(v))
    handlers = {}
    for hid, h in core.handlers.items():
        ch = clone(h)
        for k, v in list(h.__dict__.items()):
            if isinstance(v, Lock):
                nl = Lock()
                nl.tag = ("h@%d" if k == "_lock" else k.strip("_") + "@%d") % p
                object.__setattr__(ch, k, nl)
            elif isinstance(v, _real_threading.local):
                object.__setattr__(ch, k, _real_threading.local())
            elif isinstance(v, SchedThread):
                object.__setattr__(ch, k, _DeadThread())
            elif k == "_sink" and sink_of is not None:
                w = clone(v)
                for k2, v2 in list(v.__dict__.items()):
                    r = sink_of(v2)
                    if r is not None:
                        object.__setattr__(w, k2, r)
                object.__setattr__(ch, k, w)
        handlers[hid] = ch
    object.__setattr__(ccore, "handlers", handlers)
    child = clone(logger)
    object.__setattr__(child, "_core", ccore)
    return child


class QueueEnv(Env):
    """Env + enqueue shims: worker threads scheduled, per-thread pid"""

    def __enter__(self):
        super().__enter__()
        self.saved_thread = _hd.Thread
        self.saved_os = getattr(_hd, "os", None)
        _hd.Thread = SchedThread
        _hd.os = _OsShim()
        REGISTRY.clear()
        PIDS.clear()
        SchedThread._n[0] = 0
        _Shared._n[0] = 0
        return self

    def __exit__(self, *a):
        _hd.Thread = self.saved_thread
        if self.saved_os is None:
            del _hd.os
        else:
            _hd.os = self.saved_os
        PENDING_SCHED[0] = None
        super().__exit__(*a)
        REGISTRY.clear()
        PIDS.clear()
