"""C16 – catch() is transparent unless a matching exception escapes; then logs once (DESIGN §4 C16).

Random automata are materialised as REAL Python functions / generators / coroutines / async
generators (table-driven bodies), wrapped with `logger.catch(**config)` (possibly several times), and
the wrapped and the unwrapped object are driven with the same random driver sequence (async objects
by hand through `send/throw`, no event loop).

  * direct oracle (model-independent): step by step, as long as nothing escaped in the unwrapped run
    the wrapped run must give the same results and produce no record / onerror call; at the first
    step where the body raises an exception of its own, an executable reading of the property
    (`spec_escape`) says which records, onerror calls and result are due;
  * correspondence: results of both runs and the event trace are compared with the Lean model
    (drivers/C16.lean over Catch/Model.lean and Py/Generators.lean).
"""
import warnings

from harness import core

PROP = "C16"
LEAN_TARGETS = ["LoguruModel.Props.C16"]
AUDIT_FILE = "LoguruModel/Audit/C16.lean"
DRIVER = "C16"
RULE = ("(kind, catch configs, environment, automaton, driver sequence) tuples; kind in function / with / "
        "async with / generator / coroutine / async generator; automata <= 5 states given as tables "
        "(on send / on throw of class c: yield, echo, return, raise new, re-raise injected), drivers <= 10 "
        "operations (send, throw, close), 1-3 stacked catch() with random exception/exclude/reraise/level/"
        "default/onerror, environment = catch-wrapped callables invoked while the record is emitted + a sink "
        "that may raise; non-trivial = the body raised at least once or >= 3 operations were applied to a "
        "suspended object; distinct by the whole tuple")
TRUSTED = [
    "Py/Generators.lean (CPython 3.12 generator/coroutine/async-generator protocol, PEP 380 delegation) is "
    "modelled, validated on every run against the real objects (the unwrapped half of every case)",
    "subclass tests, onerror, the sink and callables invoked during formatting are oracles (tables)",
    "async generator bodies do not suspend to the event loop between yields",
]
ASSUMPTIONS = ["CPython 3.12 protocol behaviour (athrow() on a finished async generator completes with None)",
               "single thread; logger options depth=0; exceptions injected by throw() that escape are unspecified"]

K_F9 = "F9-asyncgen-athrow-bypasses-catcher"
K_GENEXIT = "C16-throw-generatorexit-becomes-close"
K_CLOSE_GE = "C16-close-logs-generatorexit-when-matched"
# genuine defects that the integrator has not listed in known_findings.json yet: counted, not raised, until
# the key appears there (then they print as KNOWN-FINDING like the others).  Empty: the defect found in
# round 5 (F31, stacked catch() on an async generator function: outer decorators inert) was repaired in
# /repo by 2c59ddf; its former failing input is corpus/C16/regression_stacked_asyncgen_outer_catches.json
PENDING_FINDINGS = []


def pending(ctx, key):
    return key in PENDING_FINDINGS and not any(f.get("key") == key for f in ctx.findings)


# message texts (the `message=` argument of catch()): `__exit__` hands `_log` args=() and kwargs={} but the
# options list carries record=True, so `_log` formats the text with `record=<the record>` and nothing else
# (documented: "it will be formatted with the record attribute"); markup is not interpreted (colors=False)
MSG_POOL = ["", "{record[level].name} ", "{{}} ", "{record[exception].type.__name__}|{record[extra]} ",
            "<red>t</red> ", "{record[level].no:>5} ", "\\<b> ", "%s%d{{ "]
# malformed templates: the formatting error is raised by `_log` INSIDE `__exit__` (after the level test, before
# any handler sees a record): it replaces the caught exception, no record, no onerror call, flag reset
MSG_BAD = {"{} ": (999, 0), "{x} ": (907, 0), "{ ": (908, 0), "} ": (908, 0), "{record[nope]} ": (907, 0)}


def message_of(c):
    if c.get("msgbad"):
        return c["msgbad"] + "M%d" % c["level"][1]
    return MSG_POOL[c.get("msg", 0)] + "M%d" % c["level"][1]


# ----------------------------------------------------------------------------- class universe
class E5(Exception):
    pass


class E6(E5):
    pass


class B9(BaseException):
    pass


class E11(Exception):
    pass


CLASSES = [GeneratorExit, StopIteration, StopAsyncIteration, TypeError, RuntimeError, E5, E6, KeyError,
           ValueError, B9, ZeroDivisionError, E11]
NC = len(CLASSES)
CLS_INDEX = {c: i for i, c in enumerate(CLASSES)}
NAMED = {"Exception": Exception, "BaseException": BaseException, "ArithmeticError": ArithmeticError,
         "LookupError": LookupError}
for _i, _c in enumerate(CLASSES):
    NAMED["c%d" % _i] = _c
USER = [5, 6, 7, 8, 9, 10, 11]
LEVELS = [("ERROR", 40), ("WARNING", 30), ("CRITICAL", 50), ("INFO", 20), (35, 35), ("DEBUG", 10), (0, 0)]
# levels that exist only once `logger.level(name, no=…)` has registered them
CUSTOM_LEVELS = [("VERIF33", 33), ("verif.audit", 27), ("Trace+", 7), ("NOTICE", 45)]

PROTO = {
    (TypeError, "can't send non-None value to a just-started generator"): (3, 10),
    (TypeError, "can't send non-None value to a just-started coroutine"): (3, 11),
    (TypeError, "can't send non-None value to a just-started async generator"): (3, 12),
    (RuntimeError, "generator ignored GeneratorExit"): (4, 20),
    (RuntimeError, "coroutine ignored GeneratorExit"): (4, 21),
    (RuntimeError, "async generator ignored GeneratorExit"): (4, 22),
    (RuntimeError, "asynchronous generator ignored GeneratorExit"): (4, 23),
    (RuntimeError, "generator raised StopIteration"): (4, 30),
    (RuntimeError, "coroutine raised StopIteration"): (4, 31),
    (RuntimeError, "async generator raised StopIteration"): (4, 32),
    (RuntimeError, "async generator raised StopAsyncIteration"): (4, 33),
    (RuntimeError, "cannot reuse already awaited coroutine"): (4, 40),
}


def pyval(v):
    return None if v == 0 else v


def canval(v):
    return 0 if v is None else v


def class_param(names):
    if names is None:
        return None
    cs = [NAMED[n] for n in names]
    return cs[0] if len(cs) == 1 else tuple(cs)


def bits_of(names):
    if names is None:
        return "0" * NC
    p = class_param(names)
    return "".join("1" if issubclass(c, p) else "0" for c in CLASSES)


# ----------------------------------------------------------------------------- generators of cases
def gen_exc_names(rng):
    m = rng.below(100)
    if m < 45:
        return ["Exception"]
    if m < 55:
        return ["BaseException"]
    if m < 80:
        return ["c%d" % rng.choice(USER + [4, 3])]
    if m < 85:
        return [rng.choice(["ArithmeticError", "LookupError"])]
    return ["c%d" % rng.choice(USER + [4]) for _ in range(rng.range(2, 3))]


def gen_cfg(rng, nested_calls=False):
    level = rng.choice(LEVELS[:3]) if rng.chance(70) else rng.choice(LEVELS)
    exclude = None
    if rng.chance(30):
        exclude = ["c%d" % rng.choice(USER + [4])] if rng.chance(70) else \
            [rng.choice(["LookupError", "c5", "Exception"]), "c%d" % rng.choice(USER)]
    onerr = "n"
    if rng.chance(55):
        onerr = "k" if rng.chance(80) else [rng.choice(USER), 300 + rng.below(5)]
        if nested_calls and rng.chance(30):
            # the callback itself runs catch()-protected code (decorated function / with block)
            calls = []
            for i in range(rng.range(1, 2)):
                out = ["r", rng.below(10)] if rng.chance(20) else ["e", rng.choice(USER), 700 + 10 * rng.below(5) + i]
                calls.append({"form": rng.choice(["f", "w"]), "cfg": gen_cfg(rng), "out": out})
            onerr = {"calls": calls, "raise": [rng.choice(USER), 310 + rng.below(5)] if rng.chance(15) else None}
    cfg = {"exc": gen_exc_names(rng), "excl": exclude, "reraise": rng.chance(35), "level": list(level),
           "default": rng.choice([0, 0, 1, 2, 7, 9]), "onerror": onerr}
    if rng.chance(18):
        # a custom level, registered before ("pre") or only after ("post") logger.catch(level=…) is called:
        # the name is resolved when the record is produced, e.g. a decorator applied at import time
        cfg["level"] = list(rng.choice(CUSTOM_LEVELS))
        cfg["level_when"] = rng.choice(["pre", "post"])
    if rng.chance(30):
        cfg["msg"] = rng.range(1, len(MSG_POOL) - 1)
    if onerr != "n" and rng.chance(25):
        # the callback is a callable OBJECT whose truth value is False (registry with __len__() == 0 /
        # __bool__() False): it was passed, so it must be called
        cfg["ofalsy"] = rng.choice(["len", "bool"])
    return cfg


def gen_action(rng, nstates, on_throw, kind, nexc):
    m = rng.below(100)
    nxt = rng.below(nstates)
    if on_throw:
        if m < 45:
            return ["x"]
        if m < 60:
            return ["y", rng.below(10), nxt]
        if m < 65:
            return ["Y", nxt]
        if m < 75:
            return ["r", 0 if kind == "agen" else rng.below(10)]
    else:
        if m < 45:
            return ["y", rng.below(10), nxt]
        if m < 57:
            return ["Y", nxt]
        if m < 75:
            return ["r", 0 if kind == "agen" else rng.below(10)]
    cls = rng.choice(USER) if rng.chance(93) else rng.below(5)
    if kind == "awith" and cls == 1:
        cls = 3     # the harness puts the block into a coroutine frame: PEP 479 would rewrite StopIteration
    nexc[0] += 1
    return ["e", cls, 100 + nexc[0]]


def gen_table(rng, kind):
    nexc = [0]
    if kind in ("fn", "with", "awith"):
        if rng.chance(30):
            return [[["r", rng.below(10)]]]
        return [[gen_action(rng, 1, False, kind, nexc)]]
    n = rng.range(1, 5)
    table = []
    for _s in range(n):
        row = [gen_action(rng, n, False, kind, nexc)]
        # sparse throw rows: classes without an entry re-raise the injected exception
        width = rng.choice([0, 1, NC, NC, NC])
        for _c in range(width):
            row.append(gen_action(rng, n, True, kind, nexc))
        table.append(row)
    if rng.chance(70) and table[0][0][0] in ("r", "e"):
        table[0][0] = ["y", rng.below(10), rng.below(n)]
    return table


def gen_ops(rng, kind):
    if kind in ("fn", "with", "awith"):
        return [["s", 0]]
    n = rng.range(0, 10) if rng.chance(90) else rng.range(0, 3)
    ops = []
    for i in range(n):
        m = rng.below(100)
        if i == 0 and m < 80:
            ops.append(["s", 0])
        elif m < 50:
            ops.append(["s", 0])
        elif m < 64:
            ops.append(["s", rng.range(1, 9)])
        elif m < 88:
            cls = 0 if rng.chance(8) else (rng.choice(USER) if rng.chance(90) else rng.choice([0, 3, 4]))
            ops.append(["t", cls, 200 + i])
        else:
            ops.append(["c"])
    return ops


def gen_env(rng):
    probes = []
    if rng.chance(25):
        for _ in range(rng.range(1, 2)):
            out = ["r", rng.below(10)] if rng.chance(25) else ["e", rng.choice(USER), 500 + len(probes)]
            probes.append({"cfg": gen_cfg(rng), "out": out})
    logbits = "0" * NC
    if rng.chance(12):
        logbits = "".join("1" if rng.chance(50) else "0" for _ in range(NC))
    m = rng.below(100)
    sink = "normal" if m < 80 else ("none" if m < 92 else "high")   # none: no handler at all; high: above every level
    return {"probes": probes, "logbits": logbits, "logexc": [rng.choice(USER), 400], "sink": sink}


def gen_scenario(rng):
    kind = rng.choice(["fn", "with", "awith", "gen", "gen", "gen", "coro", "coro", "agen", "agen", "agen"])
    depth = 1 if rng.chance(72) else rng.range(2, 3)
    if kind not in ("with", "awith") and rng.chance(4):
        depth = rng.range(4, 6)         # decorators stack to any height (Catch/Tower.lean)
    sc = {"kind": kind, "cfgs": [gen_cfg(rng, True) for _ in range(depth)], "env": gen_env(rng),
          "table": gen_table(rng, kind), "ops": gen_ops(rng, kind)}
    if depth == 1 and rng.chance(3) and bits_of(sc["cfgs"][0]["exc"])[0] == "0":
        # (not for configurations that match GeneratorExit: there close() itself reaches `_log`, finding F17)
        sc["cfgs"][0]["msgbad"] = rng.choice(sorted(MSG_BAD))
    return sc


# ----------------------------------------------------------------------------- wire format
MINLEVEL = {"normal": 0, "high": 100, "none": 1000000}


def env_minlevel(env):
    return MINLEVEL[env.get("sink", "normal")]


def cfg_token(c, sep=":"):
    o = c["onerror"]
    if isinstance(o, str):
        ot = o
    elif isinstance(o, dict):
        ot = "q" + "!".join("%s=%s=%s" % (k["form"], cfg_token(k["cfg"], "^"), act_token(k["out"])) for k in o["calls"])
        if o["raise"]:
            ot += "$%d.%d" % tuple(o["raise"])
    else:
        ot = "r%d.%d" % (o[0], o[1])
    if c.get("ofalsy"):
        ot = "F" + ot
    return sep.join([bits_of(c["exc"]), bits_of(c["excl"]), "1" if c["reraise"] else "0",
                     "%d" % c["level"][1], "%d" % c["default"], ot])


def act_token(a):
    t = a[0]
    if t == "y":
        return "y%d_%d" % (a[1], a[2])
    if t == "Y":
        return "Y_%d" % a[1]
    if t == "r":
        return "r%d" % a[1]
    if t == "e":
        return "e%d.%d" % (a[1], a[2])
    return "x"


def line_of(sc):
    kind = sc["kind"]
    env = sc["env"]
    probes = ",".join("%s~%s" % (cfg_token(p["cfg"]), act_token(p["out"])) for p in env["probes"]) or "-"
    envt = "%s@%s:%d.%d@%d" % (probes, env["logbits"], env["logexc"][0], env["logexc"][1], env_minlevel(env))
    table = "/".join(",".join(act_token(a) for a in row) for row in sc["table"])
    ops = ",".join("c" if o[0] == "c" else ("s%d" % o[1] if o[0] == "s" else "t%d.%d" % (o[1], o[2]))
                   for o in sc["ops"]) or "-"
    return "%s %s %s %s %s" % (kind, ";".join(cfg_token(c) for c in sc["cfgs"]), envt, table, ops)


def res_token(r):
    if r[0] in ("X", "K"):
        return "%s(%s)" % (r[0], r[1].replace(" ", "_").replace(",", ";"))
    if r[0] in ("y", "s", "r"):
        return "%s%d" % (r[0], r[1])
    if r[0] == "e":
        return "e%d.%d" % (r[1], r[2])
    return r[0]


def ev_token(ev, strip_depth):
    if ev[0] == "L":
        return "L%d.%d.%d.%s" % (ev[1], ev[2], ev[3], "?" if strip_depth else ev[4])
    if ev[0] == "O":
        return "O%d.%d" % (ev[1], ev[2])
    return "P" + res_token(ev[1])


def parse_answer(out, strip_depth):
    p = out.split(" ")
    if len(p) != 6 or p[0] != "W" or p[2] != "T" or p[4] != "U":
        raise core.DriverError("unexpected model answer: %r" % out)
    w = [] if p[1] == "-" else p[1].split(",")
    t = [] if p[3] == "-" else p[3].split(",")
    u = [] if p[5] == "-" else p[5].split(",")
    if strip_depth:
        t = [x.rsplit(".", 1)[0] + ".?" if x.startswith("L") else x for x in t]
    return w, t, u


# ----------------------------------------------------------------------------- implementation runner
class Run:
    """state of one execution (wrapped or unwrapped): exception objects, body actions, trace"""

    def __init__(self, sc):
        self.sc = sc
        self.objs = {}
        self.ids = {}
        self.actions = []
        self.trace = []
        self.nest = 0
        self.live = True
        self.finalising = False
        self.flip = False
        self.kind_problem = None

    def toggle(self):
        self.flip = not self.flip
        return self.flip

    def obj(self, cls, ident):
        key = (cls, ident)
        if key not in self.objs:
            o = CLASSES[cls]()
            self.objs[key] = o
            self.ids[id(o)] = key
        return self.objs[key]

    def canon(self, e):
        k = self.ids.get(id(e))
        if k is not None and self.objs[k] is e:
            return k
        if type(e) is GeneratorExit:
            return (0, 50)
        k = PROTO.get((type(e), str(e)))
        if k is not None:
            return k
        return (900 + CLS_INDEX.get(type(e), 99), 0)


class Suspend:
    def __init__(self, v):
        self.v = v

    def __await__(self):
        return (yield self.v)


def lookup(table, s, kind, exc):
    row = table[s] if s < len(table) else []
    if kind == "s":
        return row[0] if row else ["r", 0]
    c = CLS_INDEX.get(type(exc), NC + 50)
    return row[1 + c] if 1 + c < len(row) else ["x"]


def make_body(sc, run):
    table, kind = sc["table"], sc["kind"]

    if kind in ("fn", "with", "awith"):
        def body():
            act = lookup(table, 0, "s", None)
            run.actions.append(act[0])
            if act[0] == "e":
                raise run.obj(act[1], act[2])
            if act[0] in ("y", "r"):
                return pyval(act[1])
            return None
        return body

    if kind == "gen":
        def body():
            s, k, val, exc = 0, "s", None, None
            while True:
                act = lookup(table, s, k, exc)
                run.actions.append(act[0] if act[0] != "x" else ("x", exc))
                t = act[0]
                if t in ("y", "Y"):
                    out = pyval(act[1]) if t == "y" else (val if k == "s" else None)
                    try:
                        val = yield out
                        k = "s"
                    except BaseException as e:  # noqa
                        if run.finalising:
                            raise
                        exc, k = e, "t"
                    s = act[-1]
                elif t == "r":
                    return pyval(act[1])
                elif t == "e":
                    raise run.obj(act[1], act[2])
                else:
                    raise exc
        return body

    if kind == "coro":
        async def body():
            s, k, val, exc = 0, "s", None, None
            while True:
                act = lookup(table, s, k, exc)
                run.actions.append(act[0] if act[0] != "x" else ("x", exc))
                t = act[0]
                if t in ("y", "Y"):
                    out = pyval(act[1]) if t == "y" else (val if k == "s" else None)
                    try:
                        val = await Suspend(out)
                        k = "s"
                    except BaseException as e:  # noqa
                        if run.finalising:
                            raise
                        exc, k = e, "t"
                    s = act[-1]
                elif t == "r":
                    return pyval(act[1])
                elif t == "e":
                    raise run.obj(act[1], act[2])
                else:
                    raise exc
        return body

    async def body():
        s, k, val, exc = 0, "s", None, None
        while True:
            act = lookup(table, s, k, exc)
            run.actions.append(act[0] if act[0] != "x" else ("x", exc))
            t = act[0]
            if t in ("y", "Y"):
                out = pyval(act[1]) if t == "y" else (val if k == "s" else None)
                try:
                    val = yield out
                    k = "s"
                except BaseException as e:  # noqa
                    if run.finalising:
                        raise
                    exc, k = e, "t"
                s = act[-1]
            elif t == "r":
                return
            elif t == "e":
                raise run.obj(act[1], act[2])
            else:
                raise exc
    return body


# depth (as added by `Catcher.__exit__` to the logger's depth option) at which a frame sits, seen from
# the caller of `__exit__`; under `async with` the caller of `__exit__` is `__aexit__`
DEPTH_NAMES = {"catch_wrapper": 0, "asend": 0, "_with_block": 0, "_nested_with": 0, "_outcome": 1, "_call_depth1": 1,
               "onerror_cb": 1, "_drv_depth1": 2, "_call_depth2": 2}
DEPTH_NAMES_AWITH = dict(DEPTH_NAMES, **{"__aexit__": 0, "_with_block": 1, "_outcome": 2, "_drv_depth1": 3})


def new_logger(run):
    """a fresh Logger + Core (own thread-locals) with one sink that records, runs the probes, may raise"""
    from loguru._logger import Core, Logger
    lg = Logger(core=Core(), exception=None, depth=0, record=False, lazy=False, colors=False, raw=False,
                capture=True, patchers=[], extra={})
    env = run.sc["env"]
    probes = []
    register_levels(lg, run.sc, "pre")

    def sink(msg):
        if not run.live:
            return
        rec = msg.record
        ex = rec["exception"]
        c = run.canon(ex.value) if ex is not None else (998, 0)
        names = DEPTH_NAMES_AWITH if run.sc["kind"] == "awith" else DEPTH_NAMES
        run.trace.append(("L", rec["level"].no, c[0], c[1], names.get(rec["function"], 9)))
        if rec["message"] not in [(m + "M%d" % rec["level"].no).format(record=rec) for m in MSG_POOL]:
            run.trace.append(("BADMSG", rec["message"]))
        if ex is None or ex.type is not type(ex.value) or ex.traceback is None:
            run.trace.append(("BADEXC",))
        run.nest += 1
        try:
            if run.nest <= 3:
                for p in probes:
                    try:
                        r = ("r", canval(p()))
                    except BaseException as e:  # noqa
                        r = ("e",) + run.canon(e)
                    run.trace.append(("P", r))
        finally:
            run.nest -= 1
        if c[0] < NC and env["logbits"][c[0]] == "1":
            raise run.obj(*env["logexc"])

    which = env.get("sink", "normal")
    if which != "none":     # "none": the logger has no handler at all
        lg.add(sink, level=0 if which == "normal" else 100, format="{message}", catch=False, backtrace=False,
               diagnose=False, colorize=False)
    for p in env["probes"]:
        def raw(out=p["out"]):
            if out[0] == "e":
                raise run.obj(out[1], out[2])
            return pyval(out[1])
        probes.append(catcher_of(lg, p["cfg"], run)(raw))
    return lg


class BuildError(Exception):
    """logger.catch(**config) itself raised"""


class KindError(Exception):
    """the decorated function is not the kind of function the undecorated one is"""


def fn_kind(f):
    import inspect
    if inspect.iscoroutinefunction(f):
        return "coroutine"
    if inspect.isasyncgenfunction(f):
        return "asyncgen"
    if inspect.isgeneratorfunction(f):
        return "generator"
    return "plain"


def decorate(lg, cfgs, run, f, kind):
    """apply the stack of decorators, innermost first; a coroutine / generator / plain function must stay
    one under every decorator (that is what makes the NEXT decorator wrap its protocol: `inspect` is how
    `Catcher.__call__` itself chooses the wrapper)"""
    k0 = fn_kind(f)
    for i, c in enumerate(cfgs):
        f = catcher_of(lg, c, run)(f)
        if kind != "agen" and fn_kind(f) != k0 and run.kind_problem is None:
            # recorded, not fatal: the behaviour of the stack is judged first (that is where it shows)
            run.kind_problem = "decorator %d of %d: a %s function became a %s function" % (i + 1, len(cfgs), k0, fn_kind(f))
        # (the wrapper of an async generator function is a plain function returning a wrapper OBJECT; what a
        # stack of them owes is judged by behaviour: every decorator guards the iteration)
    return f


class FalsyLen:
    """an error registry: callable, and empty (hence falsy) until something is recorded"""

    def __init__(self, f):
        self.f, self.seen = f, []

    def __len__(self):
        return 0

    def __call__(self, e):
        return self.f(e)


class FalsyBool(FalsyLen):
    __len__ = None

    def __bool__(self):
        return False


def all_cfgs(sc):
    out = []

    def walk(c):
        out.append(c)
        if isinstance(c["onerror"], dict):
            for k in c["onerror"]["calls"]:
                walk(k["cfg"])
    for c in sc["cfgs"]:
        walk(c)
    for p in sc["env"]["probes"]:
        walk(p["cfg"])
    return out


def register_levels(lg, sc, when):
    done = set()
    for c in all_cfgs(sc):
        if c.get("level_when") is not None and isinstance(c["level"][0], str):
            name = c["level"][0]
            first = min((k.get("level_when") for k in all_cfgs(sc) if k["level"][0] == name and k.get("level_when")),
                        key=lambda w: 0 if w == "pre" else 1)
            if first == when and name not in done:
                done.add(name)
                lg.level(name, no=c["level"][1])


def catcher_of(lg, c, run):
    o = c["onerror"]
    if o == "n":
        onerror = None
    elif isinstance(o, dict):
        nested = []
        for k in o["calls"]:
            def raw(out=k["out"]):
                if out[0] == "e":
                    raise run.obj(out[1], out[2])
                return pyval(out[1])
            if k["form"] == "f":
                nested.append(catcher_of(lg, k["cfg"], run)(raw))
            else:
                def _nested_with(raw=raw, catcher=catcher_of(lg, k["cfg"], run)):
                    with catcher:
                        return raw()
                    return None
                nested.append(_nested_with)

        def onerror_cb(e):
            """user callback that itself relies on catch(): every call is reported; an exception a
            call lets through escapes the callback"""
            if not run.live:
                return
            run.trace.append(("O",) + run.canon(e))
            for call in nested:
                try:
                    v = call()
                except BaseException as x:  # noqa
                    run.trace.append(("P", ("e",) + run.canon(x)))
                    raise
                run.trace.append(("P", ("r", canval(v))))
            if o["raise"]:
                raise run.obj(o["raise"][0], o["raise"][1])
        onerror = onerror_cb
    else:
        def onerror(e, o=o):
            if not run.live:
                return
            run.trace.append(("O",) + run.canon(e))
            if o != "k":
                raise run.obj(o[0], o[1])
    if onerror is not None and c.get("ofalsy"):
        onerror = (FalsyLen if c["ofalsy"] == "len" else FalsyBool)(onerror)
    kw = {"exception": class_param(c["exc"]), "level": c["level"][0], "reraise": c["reraise"], "onerror": onerror,
          "default": pyval(c["default"]), "message": message_of(c)}
    if c["excl"] is not None or c["default"] % 2 == 0:
        kw["exclude"] = class_param(c["excl"])
    try:
        return lg.catch(**kw)
    except Exception as e:  # noqa  - building a catcher must never fail
        raise BuildError("%s: %s" % (type(e).__name__, e))


def _outcome(run, f, *a, closing=False, agen=False):
    try:
        v = f(*a)
        if closing:
            return ("c",)
        return ("y", canval(v))
    except StopIteration as e:
        if agen:
            return ("c",) if closing else ("y", canval(e.value))
        if run.ids.get(id(e)) is not None:
            return ("e",) + run.canon(e)
        return ("s", canval(e.value))
    except StopAsyncIteration as e:
        if run.ids.get(id(e)) is not None:
            return ("e",) + run.canon(e)
        return ("a",)
    except BaseException as e:  # noqa
        return ("e",) + run.canon(e)


def _drv_depth1(run, obj, op, kind):
    """the frame that calls into the (wrapped) object: depth 1 as seen from `Catcher.__exit__`"""
    if kind == "agen":
        if op[0] == "s" and op[1] == 0 and run.toggle():
            aw = obj.__anext__()            # what `async for` calls; must behave as asend(None)
        elif op[0] == "s":
            aw = obj.asend(pyval(op[1]))
        elif op[0] == "t":
            aw = obj.athrow(run.obj(op[1], op[2]))
        else:
            aw = obj.aclose()
        return _outcome(run, aw.send, None, closing=(op[0] == "c"), agen=True)
    if op[0] == "s":
        return _outcome(run, obj.send, pyval(op[1]))
    if op[0] == "t":
        return _outcome(run, obj.throw, run.obj(op[1], op[2]))
    return _outcome(run, obj.close, closing=True)


def _drv_depth2(run, obj, op, kind):
    return _drv_depth1(run, obj, op, kind)


def _call_depth1(run, f):
    try:
        return ("r", canval(f()))
    except BaseException as e:  # noqa
        return ("e",) + run.canon(e)


def _call_depth2(run, f):
    return _call_depth1(run, f)


def execute(sc, wrapped):
    """run the scenario on the implementation; returns (results, per-step action lists, trace)"""
    run = Run(sc)
    kind = sc["kind"]
    body = make_body(sc, run)
    results, acts, tlens = [], [], []
    try:
        lg = new_logger(run) if wrapped else None
    except BuildError as be:
        return [("X", str(be))], [[]], [], None, [0]

    def built():
        """everything is decorated / every context manager exists: levels registered only now"""
        if wrapped:
            register_levels(lg, sc, "post")
    try:
        if kind == "fn":
            f = decorate(lg, sc["cfgs"], run, body, kind) if wrapped else body
            built()
            results.append(_call_depth2(run, f))
            acts.append(run.actions[:])
            tlens.append(len(run.trace))
        elif kind == "with":
            catchers = [catcher_of(lg, c, run) for c in sc["cfgs"]] if wrapped else []

            def _with_block():  # nesting written out (an ExitStack would add frames)
                n = len(catchers)
                if n == 0:
                    return body()
                if n == 1:
                    with catchers[0]:
                        return body()
                elif n == 2:
                    with catchers[1]:
                        with catchers[0]:
                            return body()
                else:
                    with catchers[2]:
                        with catchers[1]:
                            with catchers[0]:
                                return body()
                return None
            built()
            results.append(_call_depth2(run, _with_block))
            acts.append(run.actions[:])
            tlens.append(len(run.trace))
        elif kind == "awith":
            catchers = [catcher_of(lg, c, run) for c in sc["cfgs"]] if wrapped else []

            async def _with_block():
                n = len(catchers)
                if n == 0:
                    return body()
                if n == 1:
                    async with catchers[0]:
                        return body()
                elif n == 2:
                    async with catchers[1]:
                        async with catchers[0]:
                            return body()
                else:
                    async with catchers[2]:
                        async with catchers[1]:
                            async with catchers[0]:
                                return body()
                return None
            built()
            co = _with_block()
            r = _drv_depth2(run, co, ["s", 0], "coro")
            results.append(("r", r[1]) if r[0] == "s" else r)
            acts.append(run.actions[:])
            tlens.append(len(run.trace))
        else:
            f = decorate(lg, sc["cfgs"], run, body, kind) if wrapped else body
            built()
            obj = f()
            for op in sc["ops"]:
                del run.actions[:]
                results.append(_drv_depth2(run, obj, op, kind))
                acts.append(run.actions[:])
                tlens.append(len(run.trace))
            # finalise deterministically, outside the observed trace
            run.live = False
            run.finalising = True
            try:
                if kind == "agen":
                    try:
                        obj.aclose().send(None)
                    except BaseException:  # noqa
                        pass
                else:
                    obj.close()
            except BaseException:  # noqa
                pass
        canary = None
        if wrapped:
            # the guard flag must be clear again: a fresh catch() on the same logger logs once
            run.live = True
            n0 = len(run.trace)
            probe_exc = E11()

            def raiser():
                raise probe_exc
            seen = []
            cres = _call_depth1(run, lg.catch(message="M40", onerror=seen.append)(raiser))
            logs = [ev for ev in run.trace[n0:] if ev[0] == "L"]
            if sc["env"].get("sink", "normal") != "normal":
                # no handler accepts the record: the onerror call is what shows the catcher worked
                canary = cres[0] == "r" and not logs and seen == [probe_exc]
            else:
                canary = (cres[0] == "r" and len(logs) == 1 and seen == [probe_exc]) or (
                    # the sink of this scenario may legitimately make _log raise for class 11
                    sc["env"]["logbits"][11] == "1" and len(logs) == 1 and not seen)
            if not canary:
                canary = ("canary", "result %s, %d record(s), %d onerror call(s)" % (res_token(cres), len(logs), len(seen)))
            del run.trace[n0:]
    except BuildError as be:
        return [("X", str(be))], [[]], run.trace, None, [0]
    except KindError as ke:
        return [("K", str(ke))], [[]], run.trace, None, [0]
    finally:
        run.live = False
        run.finalising = True
        if lg is not None:
            try:
                lg.remove()
            except BaseException:  # noqa
                pass
    return results, acts, run.trace, canary, tlens, run.kind_problem


# ----------------------------------------------------------------------------- the property, executable
def spec_catch(env, c, cur, depth):
    """ONE catcher meets the exception `cur` raised by the code it protects (guard flag clear).
    Returns (status, exception, events): 'pass' = not its business, propagates untouched;
    'suppressed'; 'reraise' = handled and re-raised; 'raise' = replaced by an error of `_log`/onerror."""
    m, x = bits_of(c["exc"]), bits_of(c["excl"])
    if cur[0] >= NC or m[cur[0]] != "1" or x[cur[0]] == "1":
        return "pass", cur, []
    events = []
    if c["level"][1] >= env_minlevel(env) and c.get("msgbad"):
        return "raise", MSG_BAD[c["msgbad"]], events       # the template cannot be formatted: `_log` raises
    if c["level"][1] >= env_minlevel(env):
        # some handler accepts the level: exactly one record ...
        events.append(("L", c["level"][1], cur[0], cur[1], depth))
        for p in env["probes"]:
            # ... a catch()-wrapped callable invoked while it is produced must see its own exception
            # propagate (no recursive catching) and must not produce records
            out = p["out"]
            events.append(("P", ("e", out[1], out[2]) if out[0] == "e" else ("r", out[1])))
        if env["logbits"][cur[0]] == "1":
            return "raise", tuple(env["logexc"]), events
    o = c["onerror"]
    if o != "n":
        # then onerror, exactly once - with or without a handler
        events.append(("O", cur[0], cur[1]))
        if isinstance(o, dict):
            # the callback calls catch()-protected code: each such call obeys the property itself
            for k in o["calls"]:
                out = k["out"]
                if out[0] == "r":
                    res = ("r", out[1])
                else:
                    st, exc2, ev2 = spec_catch(env, k["cfg"], tuple(out[1:]), 1 if k["form"] == "f" else 0)
                    events += ev2
                    res = ("r", k["cfg"]["default"] if k["form"] == "f" else 0) if st == "suppressed" else ("e",) + exc2
                events.append(("P", res))
                if res[0] == "e":
                    return "raise", res[1:], events
            if o["raise"]:
                return "raise", tuple(o["raise"]), events
        elif o != "k":
            return "raise", tuple(o), events
    return ("reraise" if c["reraise"] else "suppressed"), cur, events


def spec_escape(sc, e, depth):
    """An exception `e` = (cls, id) raised by the wrapped code itself escapes it (guard flag clear).
    Returns (('ret', default) | ('raise', exc), expected events) for the stack of catchers (every
    decorator of a stack protects the iteration - async generator functions included, see F31)."""
    env = sc["env"]
    cfgs = sc["cfgs"]
    events = []
    cur = tuple(e)
    handled = False
    for c in cfgs:
        st, cur, ev = spec_catch(env, c, cur, depth)
        events += ev
        handled = handled or st != "pass"
        if st == "suppressed":
            return ("ret", c["default"]), events, True
    return ("raise", cur), events, handled


# the record must identify: the frame that called / resumed the decorated callable (depth 1 from the
# wrapper), the frame containing the `with` block (depth 0), the frame containing the `async with`
# block (depth 1: `__aexit__`'s own frame lies between)
SPEC_DEPTH = {"fn": 1, "gen": 1, "coro": 1, "agen": 1, "with": 0, "awith": 1}


def suppressed_result(kind, default, op):
    if op[0] == "c":
        return ("c",)
    if kind == "fn":
        return ("r", default)
    if kind in ("with", "awith"):
        return ("r", 0)
    if kind in ("gen", "coro"):
        return ("s", default)
    return ("a",)


def finding_key(kind, op, acts, rw, ru, step_events, spec_handled):
    """classify a deviation as one of the recorded findings (by its shape), else None"""
    if kind in ("gen", "coro"):
        if op[0] == "t" and op[1] == 0:
            return K_GENEXIT     # `yield from`/`await` answer throw(GeneratorExit) with close() of the delegate
        if op[0] == "c" and any((t.startswith("L") and t.split(".")[1:3] == ["0", "50"]) or t == "O0.50"
                                for t in step_events):
            return K_CLOSE_GE    # close(): GeneratorExit re-raised inside `with catcher`, configuration matches it
    if kind == "agen":
        if op[0] in ("t", "c") and spec_handled and rw == ru and not step_events:
            return K_F9
    return None


def judge(sc, W, U):
    """direct oracle; returns list of (what, key)"""
    kind = sc["kind"]
    rw, aw, tw, canary, tlens = W[:5]
    ru, au = U[0], U[1]
    problems = []
    if len(W) > 5 and W[5]:
        problems = judge(sc, W[:5], U)
        if not problems:
            problems = [("%s - the next decorator of a stack (and every `inspect`-based framework) then treats it as a "
                         "different kind of callable: its iteration / awaiting is no longer protected" % W[5], None)]
        return problems
    strip = len(sc["cfgs"]) > 1

    def toks(evs):
        return [ev_token(ev, strip) if ev[0] in ("L", "O", "P") else repr(ev) for ev in evs]

    if rw and rw[0][0] == "X":
        return [("logger.catch(**config) itself raised %s - building the decorator / context manager must not fail "
                 "(a level name may be registered later, before the first record)" % rw[0][1], None)]
    if rw and rw[0][0] == "K":
        return [("%s - the next decorator of a stack (and every `inspect`-based framework) then treats it as a "
                 "different kind of callable: its iteration / awaiting is no longer protected" % rw[0][1], None)]
    if isinstance(canary, tuple):
        problems.append(("after the scenario, a fresh catch(onerror=cb)-decorated function raising on the same logger "
                         "gave %s; expected its default, %s record and exactly one onerror call (guard flag left "
                         "set / onerror skipped?)" % (canary[1], "one" if sc["env"].get("sink", "normal") == "normal" else "no"),
                         None))
    cfgs = sc["cfgs"]
    for i in range(len(ru)):
        body_raised = [a for a in au[i] if a == "e" or (isinstance(a, tuple) and a[0] == "x")]
        own = [a for a in au[i] if a == "e"]
        op = sc["ops"][i] if kind in ("gen", "coro", "agen") else ["s", 0]
        step_events = toks(tw[(tlens[i - 1] if i else 0):tlens[i]])
        if not body_raised and ru[i][0] != "e":
            # nothing has escaped so far: transparency (same result, no record, no onerror call)
            if rw[i] != ru[i] or step_events:
                key = finding_key(kind, op, au[i], rw[i], ru[i], step_events, None)
                problems.append(("step %d (%s): undecorated gives %s, decorated gives %s with events %s although "
                                 "nothing escaped" % (i, op, res_token(ru[i]), res_token(rw[i]), step_events), key))
                return problems
            continue
        # first escaping step
        if own and ru[i][0] == "e":
            e = ru[i][1:]
            (what, val), events, handled = spec_escape(sc, e, SPEC_DEPTH[kind])
            exp_res = suppressed_result(kind, val, op) if what == "ret" else ("e",) + tuple(val)
            exp_tok = toks(events)
            if rw[i] != exp_res or step_events != exp_tok:
                key = finding_key(kind, op, au[i], rw[i], ru[i], step_events, handled)
                problems.append(("step %d (%s): the wrapped code raised %s itself; expected result %s with events %s, "
                                 "observed %s with events %s" % (i, op, res_token(ru[i]), res_token(exp_res), exp_tok,
                                                                 res_token(rw[i]), step_events), key))
        elif body_raised and not own and op[0] == "c" and ru[i] == ("c",):
            # GeneratorExit injected by close() propagates through the body: a catcher that does not
            # match GeneratorExit must not log, close() returns None
            if all(bits_of(c["exc"])[0] == "0" or bits_of(c["excl"])[0] == "1" for c in cfgs):
                if rw[i] != ("c",) or step_events:
                    problems.append(("step %d: close() of the decorated object gives %s with events %s; undecorated "
                                     "returns None" % (i, res_token(rw[i]), step_events), None))
        # otherwise: an injected exception escapes / protocol misuse error: left unspecified
        return problems
    return problems



# ----------------------------------------------------------------------------- round 5: the guard flag across threads
def gen_thread_scenario(rng):
    """2-4 threads, each calling a catch()-decorated function that raises an exception of its own, on ONE
    logger; a schedule at the granularity the code offers (each activation of `__exit__` can be held INSIDE
    `_log` - flag set, record not yet emitted - and inside its onerror callback - flag reset)"""
    n = rng.range(2, 4) if rng.chance(85) else 2
    shared_decorator = rng.chance(35)       # all threads go through ONE decorated function (one Catcher object)
    base = None
    threads = []
    for t in range(n):
        if shared_decorator and base is not None:
            c = dict(base)
        else:
            c = {"exc": gen_exc_names(rng), "excl": ["c%d" % rng.choice(USER)] if rng.chance(20) else None,
                 "reraise": rng.chance(30), "level": list(rng.choice(LEVELS[:4])), "default": rng.choice([0, 1, 7]),
                 "onerror": "n" if rng.chance(35) else ("k" if rng.chance(85) else [rng.choice(USER), 300 + t])}
            base = c
        threads.append({"cfg": c, "exc": [rng.choice(USER), 100 + t]})
    sched = [rng.below(n) for _ in range(rng.range(0, 3 * n + 2))]
    return {"threads": threads, "schedule": sched, "shared": shared_decorator,
            "sink": "normal" if rng.chance(85) else "none"}


STEPS_AT = {"log": 2, "onerror": 5, "end": 5}     # atomic steps of the model an activation has made at a hold point


def thread_line(sc, full_sched):
    """the model takes one atomic step per schedule entry; a real thread runs from one hold point to the next
    (`full_sched` = [(thread, hold point reached)]): held inside `_log` = tests, flag := True done; held inside
    its onerror callback (the call is already on the trace) or at its end = all five steps done"""
    made = [0] * len(sc["threads"])
    steps = []
    for t, where in full_sched:
        k = max(STEPS_AT[where] - made[t], 0)
        steps += [t] * k
        made[t] += k
    thr = ";".join(":".join([bits_of(th["cfg"]["exc"]), bits_of(th["cfg"]["excl"]), "1" if th["cfg"]["reraise"] else "0",
                             "%d" % th["cfg"]["level"][1],
                             th["cfg"]["onerror"] if isinstance(th["cfg"]["onerror"], str) else "r%d.%d" % tuple(th["cfg"]["onerror"]),
                             "%d.%d" % tuple(th["exc"])]) for th in sc["threads"])
    return "thr %d %s %s" % (MINLEVEL[sc["sink"]], thr, ",".join(str(t) for t in steps) or "-")


def execute_threads(sc, timeout=10.0):
    """real threads, one running at a time: the controller releases thread t, which runs to its next hold
    point (inside `_log`, via a patcher of the logger the catcher was made from; inside onerror) or to its
    end.  Returns (results per thread, trace [(tid, event)], full schedule, problem or None)."""
    import threading
    from loguru._logger import Core, Logger
    lg0 = Logger(core=Core(), exception=None, depth=0, record=False, lazy=False, colors=False, raw=False,
                 capture=True, patchers=[], extra={})
    n = len(sc["threads"])
    trace, results = [], [None] * n
    gates = [threading.Event() for _ in range(n)]
    arrived = threading.Event()
    finished = [False] * n
    tid_of = {}
    excs = [CLASSES[th["exc"][0]]() for th in sc["threads"]]
    onerr_excs = {}
    abort = [False]

    def canon(e):
        for t, x in enumerate(excs):
            if x is e:
                return tuple(sc["threads"][t]["exc"])
        for k, x in onerr_excs.items():
            if x is e:
                return k
        return (900 + CLS_INDEX.get(type(e), 99), 0)

    where = ["start"] * n

    def hold(kind):
        t = tid_of.get(threading.get_ident())
        if t is None or abort[0]:
            return
        where[t] = kind
        arrived.set()
        if not gates[t].wait(timeout):
            abort[0] = True
        gates[t].clear()

    def sink(msg):
        rec = msg.record
        t = tid_of.get(threading.get_ident(), -1)
        c = canon(rec["exception"].value) if rec["exception"] is not None else (998, 0)
        trace.append((t, ("L", rec["level"].no, c[0], c[1], {"catch_wrapper": 0, "work": 1}.get(rec["function"], 9))))

    if sc["sink"] != "none":
        lg0.add(sink, level=0, format="{message}", catch=False, backtrace=False, diagnose=False, colorize=False)
    lg = lg0.patch(lambda record: hold("log"))    # runs inside `_log`, before any handler: guard flag is set

    def catcher(t, c):
        o = c["onerror"]
        if o == "n":
            onerror = None
        else:
            def onerror(e, o=o):
                tt = tid_of.get(threading.get_ident(), -1)
                trace.append((tt, ("O",) + canon(e)))
                hold("onerror")
                if o != "k":
                    key = (o[0], o[1])
                    onerr_excs.setdefault(key, CLASSES[o[0]]())
                    raise onerr_excs[key]
        kw = {"exception": class_param(c["exc"]), "level": c["level"][0], "reraise": c["reraise"], "onerror": onerror,
              "default": pyval(c["default"]), "message": "M"}
        if c["excl"] is not None:
            kw["exclude"] = class_param(c["excl"])
        return lg.catch(**kw)

    def raiser():
        raise excs[tid_of[threading.get_ident()]]

    one = catcher(0, sc["threads"][0]["cfg"])(raiser) if sc["shared"] else None
    funcs = [one if sc["shared"] else catcher(t, th["cfg"])(raiser) for t, th in enumerate(sc["threads"])]

    def work(t):
        tid_of[threading.get_ident()] = t
        gates[t].wait(timeout)
        gates[t].clear()
        try:
            results[t] = ("r", canval(funcs[t]()))
        except BaseException as e:  # noqa
            results[t] = ("e",) + canon(e)
        finished[t] = True
        where[t] = "end"
        arrived.set()

    ths = [threading.Thread(target=work, args=(t,), daemon=True) for t in range(n)]
    for th in ths:
        th.start()
    full = []
    problem = None

    def release(t):
        if finished[t]:
            return True
        arrived.clear()
        gates[t].set()
        ok = arrived.wait(timeout)
        full.append((t, where[t] if ok and where[t] != "start" else "end"))
        return ok
    try:
        for t in sc["schedule"]:
            if not release(t):
                problem = "thread %d made no progress within %.0f s after schedule prefix %s" % (t, timeout, full)
                break
        if problem is None:
            for t in range(n):
                for _ in range(4):
                    if not finished[t] and not release(t):
                        problem = "thread %d made no progress within %.0f s (tail of the schedule)" % (t, timeout)
                        break
    finally:
        abort[0] = True
        for g in gates:
            g.set()
        for th in ths:
            th.join(timeout)
        try:
            lg0.remove()
        except BaseException:  # noqa
            pass
    return results, trace, full, problem


def spec_threads(sc):
    """the property, per thread, whatever the schedule: a handled exception gives exactly one record (if a
    handler accepts the level) then one onerror call, suppressed or re-raised as configured"""
    env = {"probes": [], "logbits": "0" * NC, "logexc": [11, 400], "sink": sc["sink"]}
    out = []
    for th in sc["threads"]:
        st, exc, events = spec_catch(env, th["cfg"], tuple(th["exc"]), 1)
        res = ("r", th["cfg"]["default"]) if st == "suppressed" else ("e",) + tuple(exc)
        out.append((res, events))
    return out


def thread_judge(ctx, sc):
    """real run + direct oracle; returns (clean, full schedule, results, trace)"""
    results, trace, full, problem = execute_threads(sc)
    if problem:
        # a hand-over between threads that takes long on a loaded machine is not a verdict: once more, patiently
        ctx.stat("threads:retried_after_timeout")
        results, trace, full, problem = execute_threads(sc, timeout=60.0)
    replay = {"stream": "threads", "scenario": sc}
    if problem:
        ctx.violation("threads: " + problem, replay)
        return False, full, None, trace
    spec = spec_threads(sc)
    for t, (res, events) in enumerate(spec):
        mine = [ev for (tt, ev) in trace if tt == t]
        if results[t] != res or mine != events:
            ctx.violation("threads: thread %d of %d (schedule %s, hold points: inside _log / inside onerror) raised %s "
                          "in a catch()-decorated function; expected result %s with events %s, observed %s with events %s"
                          % (t, len(spec), full, "%d.%d" % tuple(sc["threads"][t]["exc"]), res_token(res),
                             [ev_token(e, False) for e in events], res_token(results[t]) if results[t] else None,
                             [ev_token(e, False) for e in mine]), replay)
            return False, full, results, trace
    strangers = [ev for (tt, ev) in trace if tt < 0]
    if strangers:
        ctx.violation("threads: events outside any scheduled thread: %s" % strangers, replay)
        return False, full, results, trace
    return True, full, results, trace


def thread_compare(ctx, sc, clean, results, trace, out):
    """real threads vs the interleaving model (Catch/Threads.lean, storage = the GENERATED `Gen.flagStore`)"""
    p = out.split(" ")
    if len(p) != 4 or p[0] != "R" or p[2] != "T":
        raise core.DriverError("unexpected model answer: %r" % out)
    mres = p[1].split(",")
    mtr = [] if p[3] == "-" else p[3].split(",")
    ires = []
    for t, r in enumerate(results):
        if r is None:
            ires.append("?")
        elif r[0] == "r":
            ires.append("s")
        elif r[1:] == tuple(sc["threads"][t]["exc"]):
            ires.append("p")
        else:
            ires.append("e%d.%d" % (r[1], r[2]))
    itr = ["%d:%s" % (tt, ev_token(ev, False)) for tt, ev in trace]
    if (ires, itr) != (mres, mtr):
        ctx.stat("disagreements")
        ctx.broke("correspondence Catch.Threads (real threads vs interleaving model)",
                  "scenario=%r impl=%r %r model=%r %r" % (sc, ires, itr, mres, mtr))
        if clean:
            ctx.violation("threads: real threads and the interleaving model disagree: impl %s %s, model %s %s"
                          % (ires, itr, mres, mtr), {"stream": "threads", "scenario": sc}, kind="correspondence")
        return False
    return True


def thread_stream(ctx, rng, drv, model_ok):
    n = ctx.n(100, 2500) * (2 if getattr(ctx, "search_boost", False) else 1)
    scs = [W_THREADS] + [gen_thread_scenario(rng) for _ in range(n)]
    done = []
    for sc in scs:
        clean, full, results, trace = thread_judge(ctx, sc)
        done.append((sc, clean, full, results, trace))
        ctx.case(("threads", repr(sc)), nontrivial=len(set(sc["schedule"])) > 1)
        ctx.traces_validated += 1
        ctx.stat("threads:%d" % len(sc["threads"]))
        if sc["shared"]:
            ctx.stat("threads:one_decorator_shared")
        if len(ctx.violations) >= 40:
            break
    # the model's schedule is the one the real run actually took; the caller sends all lines in one driver call
    todo = [d for d in done if d[3] is not None]
    return [(thread_line(d[0], d[2]), (lambda out, d=d: thread_compare(ctx, d[0], d[1], d[3], d[4], out))) for d in todo]


# the shared-flag refutation of Props/C16 (`shared_flag_loses_record_witness`) as a real schedule: thread 0 is held
# inside `_log` while thread 1 runs its whole activation
W_THREADS = {"threads": [{"cfg": {"exc": ["Exception"], "excl": None, "reraise": False, "level": ["ERROR", 40], "default": 7,
                                  "onerror": "k"}, "exc": [8, 101]},
                         {"cfg": {"exc": ["Exception"], "excl": None, "reraise": False, "level": ["ERROR", 40], "default": 7,
                                  "onerror": "k"}, "exc": [7, 102]}],
             "schedule": [0, 1, 1, 0, 0, 1], "shared": True, "sink": "normal"}


# ----------------------------------------------------------------------------- round 5: work deferred from inside `_log`
DEFER_MODES = ["task", "call_soon", "to_thread", "executor", "thread", "enqueue", "ctxrun", "task_group"]


def gen_deferred_scenario(rng):
    """the record a catch() produces is delivered to a sink that DEFERS work - a coroutine sink (loguru makes a
    task of it inside `_log`), `loop.call_soon`, `asyncio.to_thread`, an executor, a thread started by the
    sink, an `enqueue=True` handler (worker thread), a context copied inside the sink and run later - and the
    deferred work itself calls catch()-protected code.  Whatever the deferred work captured of the state at
    that moment (context variables, thread), its own catch() must behave as anywhere else."""
    def simple_cfg():
        c = gen_cfg(rng)
        c.pop("level_when", None)
        if isinstance(c["level"][0], str) and c["level"][0] in [n for n, _ in CUSTOM_LEVELS]:
            c["level"] = list(rng.choice(LEVELS[:4]))
        c.pop("msgbad", None)
        return c
    trig = simple_cfg()
    if rng.chance(80):
        trig["exc"], trig["excl"] = ["Exception"], None       # mostly: the trigger IS handled (a record is produced)
    calls = []
    for i in range(rng.range(1, 2)):
        out = ["r", rng.below(10)] if rng.chance(15) else ["e", rng.choice([5, 6, 7, 8, 10, 11]), 700 + i]
        calls.append({"form": rng.choice(["f", "f", "w"]), "cfg": simple_cfg(), "out": out})
    return {"mode": rng.choice(DEFER_MODES), "trigger": {"form": rng.choice(["fn", "with", "coro"]), "cfg": trig,
                                                          "exc": [rng.choice([5, 6, 7, 8, 10, 11]), 100]},
            "calls": calls}


def ev_exc(ev):
    """the exception an event is about"""
    return (ev[2], ev[3]) if ev[0] == "L" else ((ev[1], ev[2]) if ev[0] == "O" else None)


def execute_deferred(sc, loop, timeout=10.0):
    """returns (trigger result, trace of the trigger, [(result, trace) per deferred call] or None if the work never ran)"""
    import asyncio
    import contextvars
    import threading
    from loguru._logger import Core, Logger
    lg = Logger(core=Core(), exception=None, depth=0, record=False, lazy=False, colors=False, raw=False,
                capture=True, patchers=[], extra={})
    run = Run({"kind": "fn", "env": {"probes": [], "logbits": "0" * NC, "logexc": [11, 400], "sink": "normal"}})
    lock = threading.Lock()
    mode = sc["mode"]
    e1 = run.obj(*sc["trigger"]["exc"])

    def collect(msg):
        rec = msg.record
        ex = rec["exception"]
        c = run.canon(ex.value) if ex is not None else (998, 0)
        with lock:
            run.trace.append(("L", rec["level"].no, c[0], c[1], 0))
    lg.add(collect, level=0, format="{message}", catch=False, backtrace=False, diagnose=False, colorize=False)

    nested = []
    for k in sc["calls"]:
        def raw(out=k["out"]):
            if out[0] == "e":
                raise run.obj(out[1], out[2])
            return pyval(out[1])
        if k["form"] == "f":
            nested.append(catcher_of(lg, k["cfg"], run)(raw))
        else:
            def _nested_with(raw=raw, catcher=catcher_of(lg, k["cfg"], run)):
                with catcher:
                    return raw()
                return None
            nested.append(_nested_with)
    work_out = []
    work_done = threading.Event()

    def work():
        for call in nested:
            n0 = len(run.trace)
            r = _call_depth1(run, call)
            with lock:
                work_out.append((r, run.trace[n0:]))
        work_done.set()

    seen_trigger = []

    def is_trigger(record):
        if record["exception"] is not None and record["exception"].value is e1:
            seen_trigger.append(1)
            return True
        return False

    later = []          # things to do once the trigger has returned
    if mode == "task":
        async def notifier(msg):
            work()
        lg.add(notifier, level=0, filter=is_trigger, catch=False, format="{message}")
    elif mode == "task_group":
        async def notifier2(msg):
            await asyncio.sleep(0)
            await asyncio.gather(asyncio.to_thread(lambda: None))
            work()
        lg.add(notifier2, level=0, filter=is_trigger, catch=False, format="{message}")
    elif mode == "enqueue":
        lg.add(lambda msg: work(), level=0, filter=is_trigger, catch=False, enqueue=True, format="{message}")
    else:
        def deferring(msg):
            if mode == "call_soon":
                asyncio.get_running_loop().call_soon(work)
            elif mode == "to_thread":
                later.append(asyncio.ensure_future(asyncio.to_thread(work)))
            elif mode == "executor":
                later.append(asyncio.get_running_loop().run_in_executor(None, work))
            elif mode == "thread":
                th = threading.Thread(target=work, daemon=True)
                th.start()
            else:
                later.append(contextvars.copy_context())
        lg.add(deferring, level=0, filter=is_trigger, catch=False, format="{message}")

    def raiser():
        raise e1
    tc = catcher_of(lg, sc["trigger"]["cfg"], run)
    form = sc["trigger"]["form"]

    async def main():
        if form == "fn":
            res = _call_depth1(run, tc(raiser))
        elif form == "with":
            def _with_block():
                with tc:
                    raiser()
                return None
            res = _call_depth1(run, _with_block)
        else:
            async def body():
                await asyncio.sleep(0)
                raiser()
            try:
                res = ("r", canval(await tc(body)()))
            except BaseException as e:  # noqa
                res = ("e",) + run.canon(e)
        n_trig = len(run.trace)
        # now let the deferred work run
        if mode == "ctxrun":
            for c in later:
                c.run(work)
        for f in later:
            if asyncio.isfuture(f):
                await asyncio.wait_for(f, timeout)
        await asyncio.wait_for(lg.complete(), timeout)
        for _ in range(3):
            await asyncio.sleep(0)
        return res, n_trig
    try:
        res, n_trig = loop.run_until_complete(asyncio.wait_for(main(), 3 * timeout))
        if mode in ("thread", "enqueue", "executor", "to_thread"):
            work_done.wait(timeout if seen_trigger else 0.0)
    finally:
        try:
            lg.remove()
        except BaseException:  # noqa
            pass
    # the trigger's own events: those carrying its exception (the deferred work may interleave in thread modes)
    with lock:
        trig_trace = [ev for ev in run.trace if ev_exc(ev) == tuple(sc["trigger"]["exc"])]
    return res, trig_trace, (list(work_out) if work_done.is_set() else None)


def judge_deferred(sc, got):
    env = {"probes": [], "logbits": "0" * NC, "logexc": [11, 400], "sink": "normal"}
    res, trig_trace, work_out = got
    problems = []
    tcfg = sc["trigger"]["cfg"]
    st, exc, events = spec_catch(env, tcfg, tuple(sc["trigger"]["exc"]), 0)
    exp = ("r", (tcfg["default"] if sc["trigger"]["form"] != "with" else 0)) if st == "suppressed" else ("e",) + tuple(exc)

    def tk(evs):
        return [ev_token(e, True) if e[0] in ("L", "O", "P") else repr(e) for e in evs]
    if res != exp or tk(trig_trace) != tk(events):
        problems.append("the trigger (%s under catch) raised %s: expected result %s with events %s, observed %s with events %s"
                        % (sc["trigger"]["form"], "%d.%d" % tuple(sc["trigger"]["exc"]), res_token(exp), tk(events),
                           res_token(res), tk(trig_trace)))
        return problems
    produced = any(ev[0] == "L" for ev in events)
    if not produced:
        return problems          # no record, nothing was deferred
    if work_out is None:
        problems.append("the work deferred by the sink (%s) never completed" % sc["mode"])
        return problems
    for i, k in enumerate(sc["calls"]):
        if i >= len(work_out):
            problems.append("deferred call %d did not run" % i)
            break
        r, evs = work_out[i]
        if k["out"][0] == "r":
            exp_r, exp_e = ("r", k["out"][1]), []
        else:
            st2, exc2, exp_e = spec_catch(env, k["cfg"], tuple(k["out"][1:]), 0)
            exp_r = ("r", k["cfg"]["default"] if k["form"] == "f" else 0) if st2 == "suppressed" else ("e",) + tuple(exc2)
        evs = [e for e in evs if ev_exc(e) == tuple(k["out"][1:])]
        if r != exp_r or tk(evs) != tk(exp_e):
            problems.append("work deferred from inside `_log` (%s; the record of the trigger was being delivered) later called "
                            "catch()-protected code (%s) raising %s: expected result %s with events %s, observed %s with "
                            "events %s" % (sc["mode"], "decorated function" if k["form"] == "f" else "with block",
                                           act_token(k["out"]), res_token(exp_r), tk(exp_e), res_token(r), tk(evs)))
            break
    return problems


def execute_deferred_patiently(ctx, sc, loop):
    got = execute_deferred(sc, loop)
    if got[2] is None and any(ev[0] == "L" for ev in got[1]):
        ctx.stat("deferred:retried_after_timeout")      # loaded machine? once more with a long deadline
        got = execute_deferred(sc, loop, timeout=60.0)
    return got


def deferred_stream(ctx, rng):
    import asyncio
    n = ctx.n(120, 1500) * (2 if getattr(ctx, "search_boost", False) else 1)
    loop = asyncio.new_event_loop()
    try:
        scs = [dict(W_DEFERRED, mode=m) for m in DEFER_MODES] + [gen_deferred_scenario(rng) for _ in range(n)]
        for sc in scs:
            got = execute_deferred_patiently(ctx, sc, loop)
            ctx.case(("deferred", repr(sc)), nontrivial=got[2] is not None)
            ctx.traces_validated += 1
            ctx.stat("deferred:" + sc["mode"])
            for what in judge_deferred(sc, got):
                ctx.violation("deferred: " + what, {"stream": "deferred", "scenario": sc})
            if len(ctx.violations) >= 40:
                break
    finally:
        try:
            loop.run_until_complete(loop.shutdown_default_executor())
        except BaseException:  # noqa
            pass
        loop.close()


W_DEFERRED = {"mode": "task",
              "trigger": {"form": "with", "cfg": {"exc": ["c8"], "excl": None, "reraise": False, "level": ["ERROR", 40], "default": 0,
                                                   "onerror": "n"}, "exc": [8, 100]},
              "calls": [{"form": "f", "cfg": {"exc": ["c7"], "excl": None, "reraise": False, "level": ["WARNING", 30], "default": 9,
                                             "onerror": "k"}, "out": ["e", 7, 700]}]}



# ----------------------------------------------------------------------------- round 5: the logger's own options
def gen_options_scenario(rng):
    """catch() called on a DERIVED logger: `opt(depth=…, colors=…, raw=…, lazy=…, capture=…, exception=…,
    record=…)`, `bind(…)`, `patch(…)` in any order; the record of the caught exception must carry the caught
    exception (whatever `exception=` the logger had), name the frame `depth` levels above the usual one, be
    formatted with `record`, and inherit everything else"""
    steps = []
    for _ in range(rng.range(0, 4)):
        m = rng.below(3)
        if m == 0:
            steps.append(["opt", {"depth": rng.below(3), "colors": rng.chance(40), "raw": rng.chance(30), "lazy": rng.chance(30),
                                  "capture": rng.chance(70), "exception": rng.choice([None, True, False]),
                                  "record": rng.chance(30)}])
        elif m == 1:
            steps.append(["bind", {"k%d" % rng.below(3): rng.below(10)}])
        else:
            steps.append(["patch", rng.below(3)])
    c = gen_cfg(rng)
    c.pop("level_when", None)
    if c["level"][0] in [n for n, _ in CUSTOM_LEVELS]:
        c["level"] = list(rng.choice(LEVELS[:4]))
    c["exc"], c["excl"] = ["Exception"], None
    return {"site": rng.choice(["fn", "fn", "with", "gen"]), "steps": steps, "cfg": c, "exc": [rng.choice([5, 6, 7, 8, 10, 11]), 100],
            "markup": rng.chance(50)}


def options_state(steps):
    """the options the derived logger holds (opt() replaces the seven flags, keeps patchers and extra; bind and
    patch keep the flags)"""
    st = {"depth": 0, "colors": False, "raw": False, "lazy": False, "capture": True, "extra": {}, "patchers": []}
    for kind, arg in steps:
        if kind == "opt":
            for k in ("depth", "colors", "raw", "lazy", "capture"):
                st[k] = arg[k]
        elif kind == "bind":
            st["extra"] = dict(st["extra"], **arg)
        else:
            st["patchers"] = st["patchers"] + [arg]
    return st


def execute_options(sc):
    from loguru._logger import Core, Logger
    lg = Logger(core=Core(), exception=None, depth=0, record=False, lazy=False, colors=False, raw=False,
                capture=True, patchers=[], extra={})
    run = Run({"kind": "fn", "env": {"probes": [], "logbits": "0" * NC, "logexc": [11, 400], "sink": "normal"}})
    e1 = run.obj(*sc["exc"])
    seen = []

    def sink(msg):
        rec = msg.record
        seen.append({"text": str(msg), "message": rec["message"], "function": rec["function"], "level": rec["level"].no,
                     "exc_is": rec["exception"] is not None and rec["exception"].value is e1,
                     "extra": dict(rec["extra"])})
    lg.add(sink, level=0, format="{message}|{extra}", catch=False, backtrace=False, diagnose=False, colorize=False)
    calls = []

    def patcher(i):
        def p(record):
            calls.append(i)
            record["extra"]["p%d" % i] = record["extra"].get("p%d" % i, 0) + 1
        return p
    for kind, arg in sc["steps"]:
        if kind == "opt":
            lg = lg.opt(**arg)
        elif kind == "bind":
            lg = lg.bind(**arg)
        else:
            lg = lg.patch(patcher(arg))
    c = dict(sc["cfg"])
    kw_msg = ("<red>R</red>" if sc["markup"] else "") + "{record[level].no}M"
    onerr = []
    kw = {"exception": Exception, "level": c["level"][0], "reraise": c["reraise"], "default": pyval(c["default"]),
          "message": kw_msg, "onerror": (lambda e: onerr.append(e)) if c["onerror"] != "n" else None}
    catcher = lg.catch(**kw)
    site = sc["site"]

    def raiser():
        raise e1
    if site == "fn":
        target = catcher(raiser)
    elif site == "gen":
        def genbody():
            yield 1
            raise e1
        g = catcher(genbody)()
        next(g)

        def target():
            try:
                return next(g)
            except StopIteration as stop:
                return stop.value
    else:
        target = None

    def _lvl2():
        if site == "with":
            with catcher:
                raiser()
            return None
        return target()

    def _lvl1():
        return _lvl2()

    def _lvl0():
        return _lvl1()
    try:
        res = ("r", canval(_lvl0()))
    except BaseException as e:  # noqa
        res = ("e",) + run.canon(e)
    finally:
        try:
            lg.remove()
        except BaseException:  # noqa
            pass
    return res, seen, calls, len(onerr)


USER_FRAMES = ["_lvl2", "_lvl1", "_lvl0", "options_case", "options_stream"]
# counted from `_log`: `_log`, `__exit__`, [the wrapper,] the user frames
FRAME_CHAIN = {"fn": ["_log", "__exit__", "catch_wrapper"] + USER_FRAMES,
               "gen": ["_log", "__exit__", "catch_wrapper", "target"] + USER_FRAMES,
               "with": ["_log", "__exit__"] + USER_FRAMES}


def judge_options(sc, got):
    res, seen, calls, n_onerr = got
    st = options_state(sc["steps"])
    c = sc["cfg"]
    problems = []
    exp_res = ("e",) + tuple(sc["exc"]) if c["reraise"] else ("r", 0 if sc["site"] == "with" else c["default"])
    if res != exp_res:
        problems.append("result %s, expected %s" % (res_token(res), res_token(exp_res)))
    if len(seen) != 1:
        problems.append("%d records, expected exactly one" % len(seen))
        return problems
    r = seen[0]
    if not r["exc_is"] or r["level"] != c["level"][1]:
        problems.append("the record does not carry the caught exception at the configured level (level %d, carries it: %s)"
                        % (r["level"], r["exc_is"]))
    user = ["target"] + USER_FRAMES if sc["site"] == "gen" else USER_FRAMES
    if r["function"] != user[st["depth"]]:
        problems.append("the record names frame %r; the logger's depth option is %d, so it should name %r (%d level(s) "
                        "above the frame that called the decorated function / contains the block)"
                        % (r["function"], st["depth"], user[st["depth"]], st["depth"]))
    exp_msg = ("R" if sc["markup"] and st["colors"] else ("<red>R</red>" if sc["markup"] else "")) + "%dM" % c["level"][1]
    if r["message"] != exp_msg:
        problems.append("message %r, expected %r (template formatted with `record`, markup %s)"
                        % (r["message"], exp_msg, "interpreted: colors=True" if st["colors"] else "kept"))
    exp_extra = dict(st["extra"])
    for i in st["patchers"]:
        exp_extra["p%d" % i] = exp_extra.get("p%d" % i, 0) + 1
    if r["extra"] != exp_extra or sorted(calls) != sorted(st["patchers"]):
        problems.append("extra %r after patcher calls %r; the logger was bound to %r with patchers %r (each must run once)"
                        % (r["extra"], calls, st["extra"], st["patchers"]))
    if st["raw"] and r["text"] != r["message"]:
        problems.append("raw=True but the sink received %r" % r["text"])
    if not st["raw"] and not r["text"].startswith(r["message"] + "|"):
        problems.append("the sink received %r, expected the formatted line" % r["text"])
    if n_onerr != (0 if c["onerror"] == "n" else 1):
        problems.append("%d onerror call(s)" % n_onerr)
    return problems


def options_case(ctx, sc):
    got = execute_options(sc)
    return got, judge_options(sc, got)


def options_stream(ctx, rng, drv, model_ok):
    n = ctx.n(160, 3000) * (2 if getattr(ctx, "search_boost", False) else 1)
    scs = [gen_options_scenario(rng) for _ in range(n)]
    done = []
    for sc in scs:
        got, problems = options_case(ctx, sc)
        done.append((sc, got, problems))
        ctx.case(("options", repr(sc)), nontrivial=bool(sc["steps"]))
        ctx.traces_validated += 1
        ctx.stat("options:" + sc["site"])
        for what in problems[:1]:
            ctx.violation("options (%s under catch() of a logger derived by %s): %s" % (sc["site"], sc["steps"], what),
                          {"stream": "options", "scenario": sc})
        if len(ctx.violations) >= 40:
            break
    out = []
    for sc, got, problems in done:
        st = options_state(sc["steps"])
        line = "opt %s %d %s" % ("with" if sc["site"] == "with" else "fn", st["depth"],
                                 "".join("1" if st[k] else "0" for k in ("lazy", "colors", "raw", "capture")))
        out.append((line, (lambda ans, sc=sc, got=got, problems=problems: options_compare(ctx, sc, got, problems, ans))))
    return out


def options_compare(ctx, sc, got, problems, out):
    p = out.split(" ")
    if len(p) != 4 or p[0] != "F" or p[2] != "O":
        raise core.DriverError("unexpected model answer: %r" % out)
    if problems or len(got[1]) != 1:
        return
    chain = FRAME_CHAIN[sc["site"]]
    name = chain[int(p[1])] if p[1].isdigit() and int(p[1]) < len(chain) else "?"
    st = options_state(sc["steps"])
    vals = p[3].split(",")
    want = ["t", "n%d" % (st["depth"] + (0 if sc["site"] == "with" else 1)), "b1"] + \
           ["b1" if st[k] else "b0" for k in ("lazy", "colors", "raw", "capture")] + ["o7", "o8"]
    if name != got[1][0]["function"] or vals != want:
        ctx.stat("disagreements")
        ctx.broke("correspondence Catch.Options (options handed to _log vs model)",
                  "scenario=%r impl frame %r, model frame %r (index %s); model options %r, derived from the logger %r"
                  % (sc, got[1][0]["function"], name, p[1], vals, want))
        ctx.violation("options: the record names frame %r, the model's `get_frame(depth + adj + 2)` gives %r"
                      % (got[1][0]["function"], name), {"stream": "options", "scenario": sc}, kind="correspondence")



# ----------------------------------------------------------------------------- round 5b: the decorated callable as ENTRY POINT
ENTRY_SCRIPT = r"""
import sys
sys.path.insert(0, %(repo)r)
from loguru import logger
logger.remove()
w = sys.__stdout__.write
def sink(m):
    ex = m.record["exception"]
    w("RECORD %%d %%s %%d\n" %% (m.record["level"].no, type(ex.value).__name__ if ex else None, str(m).count("ValueError")))
logger.add(sink, level=0, backtrace=%(backtrace)r, diagnose=%(diagnose)r, colorize=%(colorize)r, catch=%(hcatch)r)
@logger.catch(level=%(level)r, reraise=False, onerror=lambda e: w("ONERROR %%s\n" %% type(e).__name__))
def cb(*a):
    raise ValueError("from the entry point")
mode = %(mode)r
if mode == "atexit":
    import atexit
    atexit.register(cb)
elif mode == "excepthook":
    sys.excepthook = cb
    raise KeyError("top level")
elif mode == "threading_excepthook":
    import threading
    threading.excepthook = cb
    def boom():
        raise KeyError("in thread")
    t = threading.Thread(target=boom); t.start(); t.join()
else:
    import _thread, time
    _thread.start_new_thread(cb, ())
    time.sleep(0.5)
"""


def gen_entry_scenario(rng):
    """the POSITION of the decorated callable in the stack: it is the outermost Python frame - the entry point of
    a raw thread (`_thread.start_new_thread(decorated, ())`; `threading.Thread` is not enough, `Thread.run` is a
    Python frame), for generators / coroutines / async generators the thread's entry is the bound `__next__` /
    `send` of the decorated object - or it is called from a Python frame as usual (control).  The sink is a REAL
    handler with the options of `add()` (backtrace, diagnose, colorize, catch): the record must ARRIVE."""
    lvl = list(rng.choice(LEVELS[:4]))
    return {"entry": rng.choice(["rawthread", "rawthread", "rawthread", "direct"]),
            "kind": rng.choice(["fn", "fn", "gen", "coro", "agen"]),
            "backtrace": rng.chance(75), "diagnose": rng.chance(50), "colorize": rng.chance(30), "hcatch": rng.chance(80),
            "level": lvl, "reraise": rng.chance(25), "default": rng.choice([0, 3, 7]), "stack": rng.range(1, 2) if rng.chance(80) else 3,
            "exc": [rng.choice([5, 6, 7, 8, 10, 11]), 100], "depth_in_body": rng.below(3)}


def execute_entry(sc, timeout=20.0):
    import _thread
    import io
    import sys
    import threading
    import time
    from loguru._logger import Core, Logger
    lg = Logger(core=Core(), exception=None, depth=0, record=False, lazy=False, colors=False, raw=False,
                capture=True, patchers=[], extra={})
    e1 = CLASSES[sc["exc"][0]]()
    got, onerr = [], []
    done = threading.Event()

    def sink(msg):
        rec = msg.record
        got.append((rec["level"].no, rec["exception"] is not None and rec["exception"].value is e1,
                    type(e1).__name__ in str(msg)))
    lg.add(sink, level=0, backtrace=sc["backtrace"], diagnose=sc["diagnose"], colorize=sc["colorize"], catch=sc["hcatch"])

    def onerror(e):
        onerr.append(e)
        if len(onerr) == sc["stack"] or not sc["reraise"]:
            done.set()

    def inner(n):
        if n <= 0:
            raise e1
        return inner(n - 1)
    kind = sc["kind"]
    if kind == "fn":
        def body():
            inner(sc["depth_in_body"])
    elif kind == "gen":
        def body():
            inner(sc["depth_in_body"])
            yield 1
    elif kind == "coro":
        async def body():
            inner(sc["depth_in_body"])
    else:
        async def body():
            inner(sc["depth_in_body"])
            yield 1
    f = body
    for _ in range(sc["stack"]):
        f = lg.catch(Exception, level=sc["level"][0], reraise=sc["reraise"], default=pyval(sc["default"]), onerror=onerror)(f)
    if kind == "fn":
        target, args = f, ()
    elif kind == "gen":
        target, args = f().__next__, ()
    elif kind == "coro":
        target, args = f().send, (None,)
    else:
        target, args = f().__anext__().send, (None,)
    outcome = None
    old_err, old_hook = sys.stderr, sys.unraisablehook
    sys.stderr = io.StringIO()                  # (a handler with catch=True reports its own failures there)
    sys.unraisablehook = lambda *a: done.set()  # what leaves the entry point of a raw thread ends here
    try:
        if sc["entry"] == "direct":
            try:
                target(*args)
                outcome = "returned"
            except (StopIteration, StopAsyncIteration):
                outcome = "returned"
            except BaseException as e:  # noqa
                outcome = "raised " + type(e).__name__ if e is not e1 else "reraised"
        else:
            base = _thread._count()
            _thread.start_new_thread(target, args)
            finished = done.wait(timeout)
            t0 = time.time()
            while _thread._count() > base and time.time() - t0 < timeout:
                time.sleep(0.0005)
            outcome = "thread ended" if finished and _thread._count() <= base else "thread did not end"
    finally:
        noise = sys.stderr.getvalue()
        sys.stderr, sys.unraisablehook = old_err, old_hook
        try:
            lg.remove()
        except BaseException:  # noqa
            pass
    return got, len(onerr), outcome, noise[-300:]


def judge_entry(sc, res):
    got, n_onerr, outcome, noise = res
    problems = []
    # every decorator of the stack handles the exception; with reraise each of them logs once, else only the innermost
    layers = sc["stack"] if sc["reraise"] else 1
    want = [(sc["level"][1], True, True)] * layers
    where = "the entry point of a raw thread (no caller frame at all)" if sc["entry"] == "rawthread" else "called from a Python frame"
    if got != want:
        problems.append("a catch()-decorated %s raising %s, %s, handler added with backtrace=%s diagnose=%s colorize=%s catch=%s: "
                        "%d record(s) reached the sink %s, expected %d at level %d carrying the exception and naming it in "
                        "the formatted text%s" % (sc["kind"], CLASSES[sc["exc"][0]].__name__, where, sc["backtrace"], sc["diagnose"],
                                                  sc["colorize"], sc["hcatch"], len(got), got, layers, sc["level"][1],
                                                  ("; the handler reported: …" + noise.strip()[-160:]) if noise.strip() else ""))
    if n_onerr != layers:
        problems.append("%d onerror call(s), expected %d (%s)" % (n_onerr, layers, where))
    if outcome in ("thread did not end",) or outcome.startswith("raised"):
        problems.append("outcome: %s (%s)" % (outcome, where))
    return problems


def entry_subprocess(ctx, mode, opts):
    """entry points that need an interpreter of their own: an `atexit` callback, `sys.excepthook`, `threading.excepthook`"""
    import subprocess
    import sys
    script = ENTRY_SCRIPT % dict(opts, repo=core.REPO, mode=mode)
    try:
        p = subprocess.run([sys.executable, "-c", script], stdout=subprocess.PIPE, stderr=subprocess.PIPE, timeout=60)
    except subprocess.TimeoutExpired:
        raise core.DriverError("entry-point child process timed out (%s)" % mode)
    lines = p.stdout.decode("utf8", "replace").splitlines()
    recs = [ln for ln in lines if ln.startswith("RECORD")]
    ons = [ln for ln in lines if ln.startswith("ONERROR")]
    want = ["RECORD %d ValueError %s" % (opts["levelno"], "%d")]
    ok = len(recs) == 1 and recs[0].startswith("RECORD %d ValueError " % opts["levelno"]) and not recs[0].endswith(" 0") \
        and ons == ["ONERROR ValueError"]
    ctx.case(("entry", mode, repr(sorted(opts.items()))), nontrivial=True)
    ctx.stat("entry:" + mode)
    if not ok:
        ctx.violation("entry point: a catch()-decorated function installed as %s (the outermost Python frame) raised ValueError; "
                      "expected exactly one record at level %d carrying it and one onerror call, observed records %s, onerror "
                      "calls %s; stderr: …%s" % (mode, opts["levelno"], recs, ons, p.stderr.decode("utf8", "replace").strip()[-200:]),
                      {"stream": "entry-subprocess", "mode": mode, "opts": opts})
    return ok


def entry_stream(ctx, rng):
    n = ctx.n(120, 3000) * (2 if getattr(ctx, "search_boost", False) else 1)
    scs = [dict(W_ENTRY, kind=k) for k in ("fn", "gen", "coro", "agen")] + [gen_entry_scenario(rng) for _ in range(n)]
    for sc in scs:
        res = execute_entry(sc)
        if res[2] == "thread did not end":
            ctx.stat("entry:retried_after_timeout")
            res = execute_entry(sc, timeout=90.0)
        ctx.case(("entry", repr(sc)), nontrivial=sc["entry"] == "rawthread")
        ctx.traces_validated += 1
        ctx.stat("entry:%s:%s" % (sc["entry"], sc["kind"]))
        for what in judge_entry(sc, res)[:1]:
            ctx.violation("entry point: " + what, {"stream": "entry", "scenario": sc})
        if len(ctx.violations) >= 40:
            return
    modes = ["atexit", "excepthook"] if ctx.quick else ["atexit", "excepthook", "threading_excepthook", "rawthread"] * 3
    for mode in modes:
        lv = rng.choice(LEVELS[:4])
        entry_subprocess(ctx, mode, {"backtrace": True if ctx.quick else rng.chance(75), "diagnose": rng.chance(50),
                                     "colorize": rng.chance(30), "hcatch": True if ctx.quick else rng.chance(80),
                                     "level": lv[0], "levelno": lv[1]})


W_ENTRY = {"entry": "rawthread", "kind": "fn", "backtrace": True, "diagnose": False, "colorize": False, "hcatch": True,
           "level": ["WARNING", 30], "reraise": False, "default": 7, "stack": 1, "exc": [8, 100], "depth_in_body": 0}

# ----------------------------------------------------------------------------- witnesses / corpus
def cfg_default(**kw):
    c = {"exc": ["Exception"], "excl": None, "reraise": False, "level": ["ERROR", 40], "default": 7, "onerror": "k"}
    c.update(kw)
    return c


ENV0 = {"probes": [], "logbits": "0" * NC, "logexc": [11, 400], "sink": "normal"}


def row(send, **throws):
    r = [send] + [["x"] for _ in range(NC)]
    for k, v in throws.items():
        r[1 + int(k[1:])] = v
    return r


W_F9 = {"kind": "agen", "cfgs": [cfg_default()], "env": ENV0,
        "table": [row(["y", 1, 1]), row(["y", 2, 1], c7=["e", 8, 101])], "ops": [["s", 0], ["t", 7, 200]]}
W_F9_CLOSE = {"kind": "agen", "cfgs": [cfg_default()], "env": ENV0,
              "table": [row(["y", 1, 1]), row(["y", 2, 1], c0=["e", 8, 101])], "ops": [["s", 0], ["c"]]}
W_GENEXIT = {"kind": "gen", "cfgs": [cfg_default()], "env": ENV0,
             "table": [row(["y", 1, 1]), row(["y", 2, 1], c0=["r", 5])], "ops": [["s", 0], ["t", 0, 200]]}
W_CLOSE_GE = {"kind": "gen", "cfgs": [cfg_default(exc=["BaseException"])], "env": ENV0,
              "table": [row(["y", 1, 1]), row(["y", 2, 1], c0=["r", 0])], "ops": [["s", 0], ["c"]]}
W_CLOSE_IGNORING = {"kind": "gen", "cfgs": [cfg_default()], "env": ENV0,
                    "table": [row(["y", 1, 1]), row(["y", 2, 1], c0=["y", 9, 1])], "ops": [["s", 0], ["c"]]}
W_SYNC_TWIN = dict(W_F9, kind="gen")

CORPUS = [
    # (scenario, expected wrapped results, expected trace tokens)
    (W_CLOSE_IGNORING, ["y1", "c"], ["L40.4.20.1", "O4.20"]),   # recorded non-violation (DESIGN §5)
    (W_SYNC_TWIN, ["y1", "s7"], ["L40.8.101.1", "O8.101"]),      # what F9's program does as a sync generator
    ({"kind": "fn", "cfgs": [cfg_default(reraise=True), cfg_default(level=["WARNING", 30], default=3)], "env": ENV0,
      "table": [[["e", 8, 101]]], "ops": [["s", 0]]}, ["r3"], ["L40.8.101.?", "O8.101", "L30.8.101.?", "O8.101"]),
    ({"kind": "fn", "cfgs": [cfg_default()], "env": {"probes": [{"cfg": cfg_default(), "out": ["e", 5, 500]}],
                                                       "logbits": "0" * NC, "logexc": [11, 400]},
      "table": [[["e", 8, 101]]], "ops": [["s", 0]]}, ["r7"], ["L40.8.101.1", "Pe5.500", "O8.101"]),
    ({"kind": "coro", "cfgs": [cfg_default(exc=["c7"])], "env": ENV0,
      "table": [row(["y", 1, 1]), row(["e", 8, 101])], "ops": [["s", 0], ["s", 0]]}, ["y1", "e8.101"], []),
]


def run_case(ctx, sc, out_line, tag):
    """execute + judge + compare with the model answer; returns True when clean"""
    W = execute(sc, True)
    U = execute(sc, False)
    problems = judge(sc, W, U)
    clean = True
    for what, key in problems:
        if pending(ctx, key):
            ctx.stat("pending_finding:" + key)
            continue
        clean = False
        ctx.violation("%s: %s" % (sc["kind"], what), {"stream": tag, "scenario": sc}, key=key)
    nested = len(sc["cfgs"]) > 1
    if out_line is None or any(c.get("msgbad") for c in sc["cfgs"]):
        return clean, W, U          # (a template that cannot be formatted is judged by the oracle alone)
    mw, mt, mu = parse_answer(out_line, nested)
    iw = [res_token(r) for r in W[0]]
    iu = [res_token(r) for r in U[0]]
    it = [ev_token(ev, nested) if ev[0] in ("L", "O", "P") else repr(ev) for ev in W[2]]
    if iu != mu:
        clean = False
        ctx.stat("protocol_model_disagreements")
        ctx.broke("correspondence Py.Generators (undecorated object vs model)",
                  "scenario=%r impl=%r model=%r" % (sc, iu, mu))
    elif iw != mw or it != mt:
        clean = False
        ctx.stat("disagreements")
        ctx.broke("correspondence Catch.Model (decorated object vs model)",
                  "scenario=%r impl=%r %r model=%r %r" % (sc, iw, it, mw, mt))
        if not [p for p in problems if not pending(ctx, p[1])]:
            ctx.violation("%s: decorated object and model disagree: impl %s %s, model %s %s"
                          % (sc["kind"], iw, it, mw, mt), {"stream": tag, "scenario": sc}, kind="correspondence")
    return clean, W, U


def classify(ctx, sc, W, U):
    kind = sc["kind"]
    ctx.stat("kind:" + kind)
    ctx.stat("nesting:%d" % len(sc["cfgs"]))
    for c in all_cfgs(sc):
        if c.get("level_when"):
            ctx.stat("custom_level_registered:" + c["level_when"])
        if c.get("ofalsy"):
            ctx.stat("onerror_falsy_callable:" + c["ofalsy"])
    raised = any(a == "e" or isinstance(a, tuple) for acts in U[1] for a in acts)
    own = any(a == "e" for acts in U[1] for a in acts)
    if own:
        ctx.stat("body_raised_own")
    if any(isinstance(a, tuple) for acts in U[1] for a in acts):
        ctx.stat("body_reraised_injected")
    for ev in W[2]:
        ctx.stat("event:" + ev[0])
    for r in U[0]:
        ctx.stat("unwrapped_result:" + r[0])
    for o in sc["ops"]:
        ctx.stat("op:" + o[0])
    if sc["env"]["probes"] and any(ev[0] == "P" for ev in W[2]):
        ctx.stat("guard_exercised")
    live_steps = sum(1 for acts in U[1] if acts)
    return raised or live_steps >= 3


def dedupe_broken(ctx):
    seen, uniq = set(), []
    for b in ctx.broken:
        if b["name"] not in seen:
            seen.add(b["name"])
            uniq.append(b)
    ctx.broken[:] = uniq


def run(ctx):
    import sys
    import sysconfig
    old_hook = sys.unraisablehook
    sys.unraisablehook = lambda *a: None     # abandoned inner generators that ignore GeneratorExit
    # every `logger.add` builds an ExceptionFormatter that asks sysconfig for the library directories
    # (8 ms, 90 % of a case): memoise that pure lookup while the check runs
    old_paths, memo = sysconfig.get_paths, {}

    def get_paths(*a, **k):
        key = (a, tuple(sorted(k.items())))
        try:
            hash(key)
        except TypeError:
            return old_paths(*a, **k)
        if key not in memo:
            memo[key] = old_paths(*a, **k)
        return dict(memo[key])
    sysconfig.get_paths = get_paths
    try:
        _run(ctx)
    finally:
        sys.unraisablehook = old_hook
        sysconfig.get_paths = old_paths


def _run(ctx):
    warnings.simplefilter("ignore")
    rng = ctx.rng.fork("C16")      # seeds of core.Rng are shifts of one SplitMix stream: decorrelate
    drv = core.Driver(DRIVER)
    boost = 4 if getattr(ctx, "search_boost", False) else 1

    scenarios = []
    # ---- witnesses of the known findings (probed on every run) and corpus
    fixed = [("witness", W_F9), ("witness", W_F9_CLOSE), ("witness", W_GENEXIT),
             ("witness", W_CLOSE_GE)]
    fixed += [("corpus", c[0]) for c in CORPUS]
    import glob
    import json
    import os
    file_expect = []
    for path in sorted(glob.glob(os.path.join(core.VERIF, "corpus", "C16", "*.json"))):
        entry = json.load(open(path))
        fixed.append(("corpus-file", entry["scenario"]))
        if "expected" in entry:
            file_expect.append((entry["scenario"], entry["expected"][0], entry["expected"][1]))
    for tag, sc in fixed:
        scenarios.append((tag, sc))
    n = ctx.n(9000, 130000) * boost
    for _ in range(n):
        scenarios.append(("random", gen_scenario(rng)))
    if not ctx.quick:
        scenarios += [("exhaustive", sc) for sc in exhaustive_small()]
        ctx.exhaustive = True

    CH = 20000
    model_ok = True
    for base in range(0, len(scenarios), CH):
        chunk = scenarios[base:base + CH]
        try:
            outs = drv.run([line_of(sc) for _, sc in chunk]) if model_ok else [None] * len(chunk)
        except core.DriverError as e:
            # the model no longer builds/runs (e.g. the extractor failed closed on a changed shape):
            # a broken tie, not a verdict - the direct oracle below still judges the implementation
            model_ok = False
            ctx.broke("driver:" + DRIVER, str(e))
            outs = [None] * len(chunk)
        for (tag, sc), out in zip(chunk, outs):
            clean, W, U = run_case(ctx, sc, out, tag)
            nontrivial = classify(ctx, sc, W, U)
            ctx.case(line_of(sc), nontrivial=nontrivial)
            ctx.traces_validated += 1
            if tag == "random":
                ctx.sample({"scenario": line_of(sc), "decorated": [res_token(r) for r in W[0]],
                            "events": [ev_token(e, False) for e in W[2] if e[0] in "LOP"],
                            "undecorated": [res_token(r) for r in U[0]]}, limit=5)
            if len(ctx.violations) >= 40 or ctx.stats.get("protocol_model_disagreements", 0) > 20:
                break

    import time
    t_main = time.time()
    # ---- round 5: the guard flag across threads (real threads under forced schedules)
    pending_lines = thread_stream(ctx, rng.fork("threads"), drv, model_ok)
    t_thr = time.time()

    # ---- round 5b: the decorated callable as the outermost Python frame, records counted at a REAL handler
    entry_stream(ctx, rng.fork("entry"))

    # ---- round 5: work deferred from inside `_log` (tasks, threads, copied contexts) that itself uses catch()
    deferred_stream(ctx, rng.fork("deferred"))
    t_def = time.time()

    # ---- round 5: catch() of a derived logger (opt / bind / patch): what the record is made with
    pending_lines += options_stream(ctx, rng.fork("options"), drv, model_ok)
    if model_ok and pending_lines:
        try:
            for (line, compare), out in zip(pending_lines, drv.run([pl[0] for pl in pending_lines])):
                compare(out)
        except core.DriverError as e:
            ctx.broke("driver:" + DRIVER, str(e))
    ctx.note("stream wall times: threads %.1f s, deferred %.1f s, options %.1f s"
             % (t_thr - t_main, t_def - t_thr, time.time() - t_def))

    # ---- corpus expectations (exact)
    for sc, exp_res, exp_tr in list(CORPUS) + file_expect:
        W = execute(sc, True)
        nested = len(sc["cfgs"]) > 1
        got = ([res_token(r) for r in W[0]], [ev_token(e, nested) if e[0] in "LOP" else repr(e) for e in W[2]])
        if got != (exp_res, exp_tr):
            ctx.violation("corpus case %s: expected %s %s, observed %s %s" % (line_of(sc), exp_res, exp_tr, got[0], got[1]),
                          {"stream": "corpus", "scenario": sc, "expected": [exp_res, exp_tr]})
    # ---- the recorded witnesses must still be what they were (otherwise say so: a fix landed)
    for name, sc, key in (("F9", W_F9, K_F9), ("genexit", W_GENEXIT, K_GENEXIT),
                          ("close-genexit", W_CLOSE_GE, K_CLOSE_GE)):
        if not any(True for f, _ in ctx.known_hits if f.get("key") == key) and \
                not any(v.get("key") == key for v in ctx.violations):
            ctx.note("witness %s no longer reproduces on this tree (defect repaired?)" % name)
    real_repr_case(ctx)
    dedupe_broken(ctx)


def real_repr_case(ctx):
    """the guard exercised the way the comment in `Catcher.__exit__` describes it: a catch()-decorated
    `__repr__` that raises, called by the exception formatter (diagnose=True) while the record of
    another caught exception is being formatted"""
    from loguru._logger import Core, Logger
    lg = Logger(core=Core(), exception=None, depth=0, record=False, lazy=False, colors=False, raw=False,
                capture=True, patchers=[], extra={})
    out = []
    lg.add(lambda m: out.append(str(m)), format="{message}", diagnose=True, backtrace=True, colorize=False, catch=False)

    class Foo:
        @lg.catch(reraise=True)
        def __repr__(self):
            raise ValueError("broken repr")

    @lg.catch
    def f():
        foo = Foo()  # noqa: F841
        return 1 / 0
    try:
        r = f()
        ok = r is None and len(out) == 1 and "ZeroDivisionError" in out[0]
    except BaseException as e:  # noqa
        ok = False
        out.append(repr(e))
    ctx.case(("real-repr",), nontrivial=True)
    if not ok:
        ctx.violation("catch()-decorated raising __repr__ during formatting: expected exactly one record and a "
                      "normal return, observed %d records" % len(out), {"stream": "real-repr"})
    lg.remove()


def exhaustive_small():
    """every 2-state automaton over a small action alphabet (4 x 4 per state) x every driver of length <= 4
    over 5 operations (length >= 3: starting with next()), x 4 configurations incl. a stack of two (1 for
    length 4), for the generator, coroutine and async-generator wrappers (thorough tier; 3 x 256 x 345 cases)"""
    import itertools
    send_acts = [["y", 1, 1], ["Y", 0], ["r", 3], ["e", 8, 101]]
    thr_acts = [["x"], ["y", 4, 0], ["r", 5], ["e", 8, 102]]
    ops_alpha = [["s", 0], ["s", 2], ["t", 7, 200], ["t", 0, 201], ["c"]]
    cfgs = [[cfg_default()], [cfg_default(reraise=True, onerror="n")], [cfg_default(exc=["BaseException"], default=0)],
            # round 5: a stack of two (innermost first) - the inner one handles only KeyError (the injected class),
            # the outer one everything: what the inner lets through must be logged once by the outer
            [cfg_default(exc=["c7"], default=2), cfg_default(level=["WARNING", 30], default=3)]]
    out = []
    for kind in ("gen", "coro", "agen"):
        for s0, t0, s1, t1 in itertools.product(send_acts, thr_acts, send_acts, thr_acts):
            def mkrow(s, t):
                r = [s] + [["x"] for _ in range(NC)]
                r[1 + 7] = t
                r[1 + 0] = t
                return r
            table = [mkrow(s0, t0), mkrow(s1, t1)]
            for L in range(1, 5):
                for ops in itertools.product(ops_alpha, repeat=L):
                    if ops[0] != ["s", 0] and L > 2:
                        continue
                    ops2 = [list(o) if o[0] != "t" else ["t", o[1], 200 + i] for i, o in enumerate(ops)]
                    for ci, c in enumerate(cfgs):
                        if ci and L > 3:
                            continue
                        out.append({"kind": kind, "cfgs": c, "env": ENV0, "table": table, "ops": ops2})
    return out


def replay(ctx, rep):
    warnings.simplefilter("ignore")
    r = rep["replay"]
    if r.get("stream") == "real-repr":
        real_repr_case(ctx)
        bad = bool(ctx.violations)
        print("REPRODUCED" if bad else "not reproduced")
        return 1 if bad else 0
    if r.get("stream") == "entry":
        res = execute_entry(r["scenario"])
        print("records:     ", res[0], "onerror calls", res[1], "outcome", res[2])
        problems = judge_entry(r["scenario"], res)
        for what in problems:
            print("oracle:      ", what)
        print("REPRODUCED" if problems else "not reproduced")
        return 1 if problems else 0
    if r.get("stream") == "entry-subprocess":
        ok = entry_subprocess(ctx, r["mode"], r["opts"])
        for v in ctx.violations:
            print("oracle:      ", v["what"])
        print("REPRODUCED" if not ok else "not reproduced")
        return 0 if ok else 1
    if r.get("stream") == "options":
        got, problems = options_case(ctx, r["scenario"])
        print("result:      ", res_token(got[0]), got[1], "patchers", got[2], "onerror calls", got[3])
        for what in problems:
            print("oracle:      ", what)
        print("REPRODUCED" if problems else "not reproduced")
        return 1 if problems else 0
    if r.get("stream") == "deferred":
        import asyncio
        loop = asyncio.new_event_loop()
        try:
            got = execute_deferred(r["scenario"], loop)
        finally:
            loop.close()
        print("trigger:     ", res_token(got[0]), [ev_token(e, True) for e in got[1]])
        print("deferred:    ", [(res_token(x[0]), [ev_token(e, True) for e in x[1] if e[0] in "LO"]) for x in (got[2] or [])])
        problems = judge_deferred(r["scenario"], got)
        for what in problems:
            print("oracle:      ", what)
        print("REPRODUCED" if problems else "not reproduced")
        return 1 if problems else 0
    if r.get("stream") == "threads":
        clean, full, results, trace = thread_judge(ctx, r["scenario"])
        print("schedule:    ", full)
        print("results:     ", [res_token(x) if x else None for x in (results or [])])
        print("trace:       ", ["%d:%s" % (t, ev_token(e, False)) for t, e in trace])
        if clean and results is not None:
            try:
                out = core.Driver(DRIVER).run([thread_line(r["scenario"], full)])[0]
                print("model:       ", out)
                clean = thread_compare(ctx, r["scenario"], True, results, trace, out) or rep.get("kind") != "correspondence"
            except core.DriverError:
                pass
        for v in ctx.violations:
            print("oracle:      ", v["what"])
        print("REPRODUCED" if not clean else "not reproduced")
        return 0 if clean else 1
    sc = r["scenario"]
    try:
        out = core.Driver(DRIVER).run([line_of(sc)])[0]
    except core.DriverError:
        out = None          # the model does not build against this tree: the oracle alone decides
    W = execute(sc, True)
    U = execute(sc, False)
    nested = len(sc["cfgs"]) > 1
    print("scenario:    ", line_of(sc))
    print("undecorated: ", [res_token(x) for x in U[0]])
    print("decorated:   ", [res_token(x) for x in W[0]], [ev_token(e, nested) if e[0] in "LOP" else repr(e) for e in W[2]])
    print("model:       ", out)
    problems = judge(sc, W, U)
    for what, key in problems:
        print("oracle:      ", what, "[%s]" % key if key else "")
    corr = False
    if out is not None:
        mw, mt, mu = parse_answer(out, nested)
        corr = [res_token(x) for x in W[0]] != mw or \
            [ev_token(e, nested) if e[0] in "LOP" else repr(e) for e in W[2]] != mt
    if "expected" in r:
        got = [[res_token(x) for x in W[0]], [ev_token(e, nested) if e[0] in "LOP" else repr(e) for e in W[2]]]
        problems = problems or ([("corpus", None)] if got != r["expected"] else [])
    bad = bool(problems) or (rep.get("kind") == "correspondence" and corr)
    print("REPRODUCED" if bad else "not reproduced")
    return 1 if bad else 0
