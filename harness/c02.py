"""C02 – handlers stay correct under every interleaving of log/add/remove/activation (DESIGN §4 C02).

The real loguru code runs on real threads under the baton scheduler of harness/sched.py; the property
monitors below judge every trace (direct oracle), and the trace of shared accesses is fed to the
Lean acceptor (drivers/C02.lean) which replays it on the proved transition system Conc.step.
"""
import json
import os
import weakref

from harness import core, sched

PROP = "C02"
LEAN_TARGETS = ["LoguruModel.Props.C02"]
AUDIT_FILE = "LoguruModel/Audit/C02.lean"
DRIVER = "C02"
RULE = ("programs = 2-4 threads x 1-3 ops drawn from log/add/remove/remove-all/level/enable/disable over 1-3 "
        "initial handlers; schedules = DFS with a preemption bound over the scheduling points (every lock "
        "operation and every access to the published Core attributes / Handler._stopped / sink begin-end) plus "
        "PRNG schedules; non-trivial = schedule with >= 1 preemption in which two threads touched the same "
        "handler or the registry; distinct by (program, schedule)")
TRUSTED = [
    "CPython executes each traced shared access atomically (GIL); dict.copy / attribute stores are atomic",
    "harness/sched.py (baton scheduler + shims) observes every shared access of the modelled state",
]
ASSUMPTIONS = ["sinks terminate and do not call the logger (re-entrancy is C04)", "non-free-threaded CPython"]

MODULES = ["m", "m.a", "m.ab", "n"]
ANON = None          # the module "name" of code whose globals have no __name__ (exec'd code): enable(None)/disable(None)


def names(rule_name, mod):
    """does a rule for `rule_name` apply to module `mod`?  None names only the anonymous module."""
    if rule_name is None or mod is None:
        return rule_name is None and mod is None
    return rule_name == "" or mod == rule_name or mod.startswith(rule_name + ".")


# ----------------------------------------------------------------------------- programs
def gen_program(rng, nthreads=None, maxops=None, kinds=None):
    nthreads = nthreads or rng.range(2, 3)
    nh = rng.range(1, 3)
    kinds = kinds or ["log", "log", "log", "add", "remove", "remove", "removeall", "level", "newlevel", "enable",
                      "disable", "complete", "configure"]
    threads = []
    custom = []          # run-time levels created by this program (each at most once)
    for t in range(nthreads):
        ops = []
        for _ in range(rng.range(1, maxops or 3)):
            k = rng.choice(kinds)
            if k == "log":
                lv = rng.choice(["INFO", "INFO", "DEBUG", "ERROR"])
                if custom and rng.chance(50):
                    lv = rng.choice(custom)
                ops.append(["log", rng.choice(MODULES + [ANON]) if rng.chance(15) else rng.choice(MODULES), lv])
            elif k == "add":
                ops.append(["add", rng.choice(["DEBUG", "INFO"]) + rng.choice(["", "", ":c"])])
            elif k == "newlevel":
                name = "L%d" % len(custom)
                custom.append(name)
                ops.append(["newlevel", name, rng.choice([15, 25, 45]), rng.choice(["<red>", "<blue><bold>", ""])])
            elif k == "remove":
                # mostly an initial handler; sometimes an id that only exists once another thread's add() has run
                ops.append(["remove", rng.below(nh + 1) if rng.chance(75) else nh + rng.below(3)])
            elif k == "configure":
                # configure() without handlers/activation: a sequence of lock-taking updates (an existing level's
                # colour, the default extra, the patcher)
                cfg = {}
                if rng.chance(60):
                    cfg["levels"] = [{"name": "INFO", "color": rng.choice(["<red>", "<blue>"])}]
                if rng.chance(70):
                    cfg["extra"] = {"k": rng.below(3)}
                if rng.chance(50) or not cfg:
                    cfg["patcher"] = 1
                ops.append(["configure", cfg])
            elif k == "removeall":
                ops.append(["removeall"])
            elif k == "level":
                ops.append(["level", "INFO", rng.choice(["<red>", "<blue>"])])
            elif k in ("complete", "fork"):
                ops.append([k])
            else:
                ops.append([k, rng.choice(["m", "m.a", "", "n", "m", None])])
        threads.append(ops)
    # a level created by one thread is also logged at by the others (possibly before it exists)
    for ops in threads:
        for op in ops:
            if op[0] == "log" and custom and rng.chance(25):
                op[2] = rng.choice(custom)
    handlers = [rng.choice(["DEBUG", "INFO", "INFO"]) + rng.choice(["", "", ":c"]) for _ in range(nh)]
    return {"handlers": handlers, "threads": threads}


def hspec(spec):
    """handler spec 'LEVEL' or 'LEVEL:c' (colourised, static format with a <level> tag)"""
    lvl, _, c = spec.partition(":")
    return lvl, c == "c"


def add_handler(logger, snk, spec):
    lvl, col = hspec(spec)
    return logger.add(snk, level=lvl, format="<level>{message}</level>" if col else "{message}", colorize=col,
                      catch=False)


def levelno(prog, name):
    if name in LEVELNO:
        return LEVELNO[name]
    for ops in prog["threads"]:
        for op in ops:
            if op[0] == "newlevel" and op[1] == name:
                return op[2]
    raise KeyError(name)


LEVELNO = {"TRACE": 5, "DEBUG": 10, "INFO": 20, "SUCCESS": 25, "WARNING": 30, "ERROR": 40, "CRITICAL": 50}


def _mk_log_fn(logger, module):
    ns = {"__name__": module, "logger": logger} if module is not None else {"logger": logger}
    exec("def f(level, msg):\n    logger.log(level, msg)\n", ns)
    return ns["f"]


def _noop_patcher(record):
    return None


def emulated_fork(s, sinks, streams=()):
    """os.fork() as the at-fork hooks see it: the REAL acquire_locks / release_locks of
    loguru._locks_machinery run in the calling thread; at the fork point the child's memory is inspected:
    every registered lock must be owned by the forking thread (after_in_child releases exactly those)
    and no sink may be in the middle of a write."""
    import loguru._locks_machinery as lm
    me = s.me()
    lm.acquire_locks()
    s.log_event("forked", "", "")
    bad = []
    for name in ("logger_locks", "handler_locks", "queue_locks"):
        ws = getattr(lm, name, ())
        # the inspection itself must not show up as a pass of a hook in the trace
        for lk in (list(weakref.WeakSet.__iter__(ws)) if isinstance(ws, weakref.WeakSet) else list(ws)):
            if getattr(lk, "owner", me) != me:
                bad.append("%s %s is held by %r at the fork point" % (name, lk.name(), lk.owner))
    for hid, snk in sinks.items():
        if snk.busy is not None:
            bad.append("sink of handler %d is in the middle of a write (by %r) at the fork point" % (hid, snk.busy))
    for st in streams:
        # output of a WORKER thread (the enqueue writer) is promised to happen under the fork-protected queue lock
        if st.busy is not None and st.busy != me and st.busy in s.daemons:
            bad.append("worker thread %r is in the middle of writing an error report to sys.stderr at the fork point"
                       % (st.busy,))
    lm.release_locks()
    return bad or "ok"


class TracedLockSet(weakref.WeakSet):
    """stands in for `_locks_machinery.logger_locks / handler_locks / queue_locks` during a scheduled run: every
    registration and the begin / end of every iteration (a pass of an at-fork hook) are recorded in the trace"""

    def __init__(self, tname):
        super().__init__()
        self.tname = tname

    def add(self, item):
        super().add(item)
        s = sched.S()
        if s is not None and s.me() is not None:
            s.log_event("lockreg", self.tname, len(self))

    def __iter__(self):
        s = sched.S()
        traced = s is not None and s.me() is not None
        if traced:
            s.log_event("iterbegin", self.tname, len(self))
        for x in super().__iter__():
            yield x
        if traced:
            s.log_event("iterend", self.tname, len(self))


class HookTracing:
    """installs the traced weak sets for one run (after sched.Env has emptied the real ones)"""

    NAMES = ("logger_locks", "handler_locks", "queue_locks")

    def __enter__(self):
        import loguru._locks_machinery as lm
        self.saved = {}
        for n in self.NAMES:
            if isinstance(getattr(lm, n, None), weakref.WeakSet):
                self.saved[n] = getattr(lm, n)
                setattr(lm, n, TracedLockSet(n))
        return self

    def __exit__(self, *a):
        import loguru._locks_machinery as lm
        for n, v in self.saved.items():
            setattr(lm, n, v)


class FillDict(dict):
    """the dict published as `core.enabled`, with the lock-free cache fill `enabled[name] = status` of `_log` as a
    scheduling point of its own (programs carrying "fine": the window between reading the activation state and
    filling the cache is then a place where a whole enable()/disable() of another thread can be scheduled)"""

    def __setitem__(self, k, v):
        s = sched.S()
        if s is not None and s.me() is not None:
            s.point("Wreq", "core.enabled[]", repr(k))
        super().__setitem__(k, v)
        if s is not None and s.me() is not None:
            s.log_event("Wfill", "core.enabled[]", repr(k))     # logged when the store has taken effect

    def copy(self):
        return dict(self)


class FineCore(sched.TCore):
    def __init__(self, *a, **kw):
        super().__init__(*a, **kw)
        object.__setattr__(self, "enabled", FillDict(object.__getattribute__(self, "enabled")))

    def __setattr__(self, k, v):
        if k == "enabled" and not isinstance(v, FillDict):
            v = FillDict(v)
        super().__setattr__(k, v)


def window_chooser(a, k, b):
    """run thread `a` up to its k-th scheduling point, then thread `b` for as long as it can run (its whole
    program when nothing blocks it), then whoever ran last; `reached` tells whether `a` had k points at all"""
    st = {"n": 0}

    def choose(r, s):
        if st["n"] < k and a in r:
            st["n"] += 1
            return a
        if st["n"] >= k and b in r:
            return b
        return s.last if s.last in r else r[0]

    choose.state = st
    return choose


class Run:
    def __init__(self, program, chooser, max_events=20000):
        self.program = program
        self.chooser = chooser
        self.max_events = max_events

    def execute(self):
        prog = self.program
        with sched.Env(), HookTracing() as hooks:
            self.hook_sets = [n for n in hooks.saved if n != "logger_locks"]
            logger = sched.make_logger(FineCore() if prog.get("fine") else None)
            sinks = {}
            ids = []
            for i, lvl in enumerate(prog["handlers"]):
                snk = sched.TracingSink("s%d" % i)
                hid = add_handler(logger, snk, lvl)
                sinks[hid] = snk
                ids.append(hid)
            self.initial_ids = list(ids)
            s = sched.Sched(self.chooser, max_events=self.max_events)
            ops_log = []   # (thread, opindex, op, invoke_pos, return_pos, result)
            logfns = {m: _mk_log_fn(logger, m) for m in MODULES + [ANON]}
            added = []

            def thread_body(tn, ops):
                def body():
                    for j, op in enumerate(ops):
                        inv = len(s.trace)
                        s.log_event("invoke", "%s/%d" % (tn, j), json.dumps(op))
                        res = None
                        try:
                            if op[0] == "log":
                                try:
                                    logfns[op[1]](op[2], "%s-%d" % (tn, j))
                                except ValueError as e:
                                    # documented outcome of logging at a level that does not exist (yet)
                                    if op[2] in LEVELNO or "does not exist" not in str(e):
                                        raise
                                    res = "ValueError"
                            elif op[0] == "newlevel":
                                logger.level(op[1], no=op[2], color=op[3])
                            elif op[0] == "add":
                                snk = sched.TracingSink("s+%s%d" % (tn, j))
                                hid = add_handler(logger, snk, op[1])
                                sinks[hid] = snk
                                added.append(hid)
                                res = hid
                            elif op[0] == "remove":
                                try:
                                    logger.remove(op[1])
                                    res = "ok"
                                except ValueError:
                                    res = "ValueError"
                            elif op[0] == "removeall":
                                logger.remove()
                            elif op[0] == "level":
                                logger.level(op[1], color=op[2])
                            elif op[0] == "enable":
                                logger.enable(op[1])
                            elif op[0] == "disable":
                                logger.disable(op[1])
                            elif op[0] == "complete":
                                logger.complete()
                            elif op[0] == "configure":
                                kw = dict(op[1])
                                if "patcher" in kw:
                                    kw["patcher"] = _noop_patcher
                                logger.configure(**kw)
                            elif op[0] == "fork":
                                res = emulated_fork(s, sinks)
                        finally:
                            s.log_event("return", "%s/%d" % (tn, j), json.dumps(res))
                            ops_log.append((tn, j, op, inv, len(s.trace) - 1, res))
                return body

            for ti, ops in enumerate(prog["threads"]):
                s.spawn("t%d" % ti, thread_body("t%d" % ti, ops))
            sched.CUR[0] = s
            try:
                s.go(timeout=30.0)
            finally:
                sched.CUR[0] = None
            self.sched = s
            self.sinks = sinks
            self.ops = ops_log
            self.added = added
            self.builtin_levels = logger._core.builtin_levels
            self.custom_levels = {op[1] for ops in prog["threads"] for op in ops if op[0] == "newlevel"}
            self.final_handlers = sorted(logger._core.handlers.keys())
            self.hstopped = {h._id: object.__getattribute__(h, "_stopped") for h in sched.HANDLERS}
        return self


# ----------------------------------------------------------------------------- monitors (direct oracle)
def monitors(run):
    """Return a list of violation strings for one executed run (the property itself, on the real trace)."""
    s, prog = run.sched, run.program
    bad = []
    tr = s.trace
    if s.deadlock:
        bad.append("deadlock: threads %r never finished (no runnable thread)" % (s.deadlock,))
        return bad
    for tn, e in s.errors:
        bad.append("internal error in %s: %s: %s" % (tn, type(e).__name__, e))
    for tn, j, op, inv, ret, res in run.ops:
        if op[0] == "fork" and isinstance(res, list):
            bad.extend("fork by %s: %s" % (tn, b) for b in res)
    # mutual exclusion of each sink
    for hid, snk in run.sinks.items():
        if snk.overlap:
            bad.append("sink of handler %d executed two writes at the same time: %r" % (hid, snk.overlap[:2]))
        if snk.stops > 1:
            bad.append("stop() of handler %d ran %d times" % (hid, snk.stops))
    # per-thread order and at-most-once
    for hid, snk in run.sinks.items():
        seen = {}
        for it in snk.items:
            tn, j = it.rsplit("-", 1)
            j = int(j)
            if tn in seen and j <= seen[tn]:
                bad.append("handler %d received %s out of order or twice (after %s-%d): %r" % (hid, it, tn, seen[tn], snk.items))
            seen[tn] = j
    # ids unique
    all_ids = list(run.initial_ids) + list(run.added)
    if len(set(all_ids)) != len(all_ids):
        bad.append("handler ids reused: %r" % (all_ids,))
    # remove(): after it returned no further write, stop ran exactly once
    removed_at = {}   # hid -> position of the return of the remove that removed it
    remove_invoked = {}
    for tn, j, op, inv, ret, res in run.ops:
        targets = []
        if op[0] == "remove" and res == "ok":
            targets = [op[1]]
        elif op[0] == "removeall":
            targets = None
        if op[0] in ("remove", "removeall"):
            if targets is None:
                # every handler not registered at the end and not removed by a successful remove(id)
                pass
            else:
                for h in targets:
                    removed_at[h] = ret
            for h in (targets if targets is not None else list(run.sinks)):
                remove_invoked[h] = min(inv, remove_invoked.get(h, inv))
    for hid, snk in run.sinks.items():
        if hid in removed_at:
            if snk.stops != 1:
                bad.append("remove(%d) returned but stop() ran %d times" % (hid, snk.stops))
            for pos in range(removed_at[hid] + 1, len(tr)):
                e = tr[pos]
                if e[1] == "wbegin" and e[2] == snk.tag:
                    bad.append("handler %d wrote %r after remove() had returned" % (hid, e[3]))
                    break
        if hid not in run.final_handlers and snk.stops != 1 and not s.errors:
            bad.append("handler %d was unregistered but stop() ran %d times" % (hid, snk.stops))
    # exactly once for stable handlers when the activation status of the module is determined (every enable/disable
    # naming it or a parent returned before the call began): delivered iff enabled; levels created at run time
    add_ret = {}
    for tn, j, op, inv, ret, res in run.ops:
        if op[0] == "add" and isinstance(res, int):
            add_ret[res] = (ret, op[1])
    acts = [(ret, inv, op) for tn, j, op, inv, ret, res in run.ops if op[0] in ("enable", "disable")]
    created = {op[1]: (inv, ret) for tn, j, op, inv, ret, res in run.ops if op[0] == "newlevel"}

    def determined_status(mod, inv, ret):
        """True/False when the enable/disable calls naming mod or a parent all returned, one after the other,
        before the log call began (the status the call must observe); None when some change overlaps it"""
        rel = [(r, i, o) for (r, i, o) in acts if names(o[1], mod)]
        if not rel:
            return True
        if any(not (r < inv) for (r, i, o) in rel):
            return None
        rel.sort()
        if not all(rel[k][0] < rel[k + 1][1] for k in range(len(rel) - 1)):
            return None
        return _spec_enabled([(o[1], o[0] == "enable") for r, i, o in rel], mod)

    for tn, j, op, inv, ret, res in run.ops:
        if op[0] != "log":
            continue
        msg = "%s-%d" % (tn, j)
        if op[2] in created:
            cinv, cret = created[op[2]]
            if res == "ValueError":
                if cret < inv:
                    bad.append("%s: logging at level %r raised 'does not exist' although level() had returned before the call"
                               % (msg, op[2]))
                if any(msg in snk.items for snk in run.sinks.values()):
                    bad.append("message %s raised ValueError but was delivered" % msg)
                continue
            if ret < cinv and any(msg in snk.items for snk in run.sinks.values()):
                bad.append("message %s was delivered at level %r before that level was created" % (msg, op[2]))
        status = determined_status(op[1], inv, ret)
        if status is None:
            continue
        for hid, snk in run.sinks.items():
            if hid in run.initial_ids:
                lvl = prog["handlers"][run.initial_ids.index(hid)]
                registered_before = True
            else:
                registered_before = hid in add_ret and add_ret[hid][0] < inv
                lvl = add_ret.get(hid, (0, "INFO"))[1]
            admits = LEVELNO[hspec(lvl)[0]] <= levelno(prog, op[2])
            stable = registered_before and (hid not in remove_invoked or remove_invoked[hid] > ret)
            n = snk.items.count(msg)
            if not status:
                if n != 0:
                    bad.append("message %s from module %r delivered although disable() had returned before the call"
                               % (msg, op[1]))
                continue
            if stable and admits and n != 1:
                bad.append("message %s delivered %d times to stable handler %d" % (msg, n, hid))
            if not admits and n != 0:
                bad.append("message %s (level %s) delivered to handler %d with threshold %s" % (msg, op[2], hid, lvl))
    return bad


def _spec_enabled(rules, mod):
    """status of the most recent enable/disable naming mod or one of its parents (default enabled)"""
    status = True
    for name, st in rules:
        if names(name, mod):
            status = st
    return status


# ----------------------------------------------------------------------------- schedule exploration
def dfs_schedules(program, bound, limit, on_run):
    """stateless DFS with replay-from-start over the choice points, bounded number of preemptions"""
    stack = [[]]
    count = 0
    seen = set()
    while stack and count < limit:
        prefix = stack.pop()
        key = tuple(prefix)
        if key in seen:
            continue
        seen.add(key)
        run = Run(program, sched.replay_chooser(prefix)).execute()
        count += 1
        on_run(run, prefix)
        # branch: at every multi-choice point at or after len(prefix), try the alternatives
        pts = [(r, c, prev) for (r, c, prev) in run.sched.points if len(r) > 1]
        pre = 0
        chosen_seq = []
        for idx, (r, c, prev) in enumerate(pts):
            if idx >= len(prefix):
                for alt in r:
                    if alt != c:
                        extra = 1 if (prev in r and alt != prev) else 0
                        if pre + extra <= bound:
                            stack.append(chosen_seq + [alt])
            if prev in r and c != prev:
                pre += 1
            chosen_seq.append(c)
    return count


def run(ctx):
    rng = ctx.rng
    boost = 4 if getattr(ctx, "search_boost", False) else 1
    drv_lines = []
    drv_meta = []
    act_lines = []
    act_meta = []
    lvl_lines = []
    lvl_meta = []
    nviol = [0]

    def judge(r, sched_list, program, how):
        bad = monitors(r)
        s = r.sched
        key = (json.dumps(program, sort_keys=True), tuple(s.choices))
        shared = s.preemptions >= 1
        ctx.case(key, nontrivial=shared)
        ctx.stat("schedules:" + how)
        ctx.stat("events", len(s.trace))
        for tn, j, op, inv, ret, res in r.ops:
            ctx.stat("op:" + op[0])
        if bad and nviol[0] < 5:
            nviol[0] += 1
            ctx.violation(bad[0], {"program": program, "schedule": list(s.choices), "how": how, "violations": bad[:5]})
        elif len(drv_lines) < ctx.n(60000, 600000):
            lines = acceptor_lines(r)
            if lines is not None:
                from harness import c02_trace
                drv_lines.extend(lines)
                drv_meta.append((program, list(s.choices), len(lines), c02_trace.run_info(r, levelno, hspec, LEVELNO)))
        if not bad and len(act_lines) < ctx.n(40000, 400000) and any(
                op[0] in ("enable", "disable") for ops in program["threads"] for op in ops):
            from harness import c02_trace
            for mod in sorted({op[1] for ops in program["threads"] for op in ops if op[0] == "log"}, key=str):
                got = c02_trace.act_lines(r, mod)
                if got is not None:
                    act_lines.extend(got[0])
                    act_meta.append((program, list(s.choices), mod, got))
        if not bad and len(lvl_lines) < ctx.n(40000, 400000) and r.custom_levels:
            from harness import c02_trace
            got = c02_trace.lvl_lines(r)
            if got is not None:
                lvl_lines.extend(got[0])
                lvl_meta.append((program, list(s.choices), got))
        return bad

    # corpus first
    cdir = os.path.join(core.VERIF, "corpus", "C02")
    if os.path.isdir(cdir):
        for fn in sorted(os.listdir(cdir)):
            c = json.load(open(os.path.join(cdir, fn)))
            r = Run(c["program"], sched.replay_chooser(c["schedule"])).execute()
            judge(r, c["schedule"], c["program"], "corpus")

    # threshold races: the derived shared value `min_level` is recomputed by every add()/remove(); two of them racing,
    # followed by a log at the lowest level after both have returned (a lost update would swallow the message)
    for mi in range(ctx.n(4, 16) * boost):
        if boost > 1 and nviol[0]:
            break
        r0 = rng.fork("min%d" % mi)
        second = r0.choice([["add", "INFO"], ["add", "INFO:c"], ["remove", 0], ["add", "DEBUG"], ["removeall"]])
        first = ["add", r0.choice(["DEBUG", "DEBUG:c"])]
        lg = ["log", r0.choice(MODULES), "DEBUG"]
        prog = {"handlers": [r0.choice(["INFO", "INFO:c"])],
                "threads": [[first], [second], [lg, lg] if r0.chance(50) else [lg]]}
        dfs_schedules(prog, bound=2, limit=ctx.n(60, 400) * (8 if boost > 1 else 1),
                      on_run=lambda r, pre_, prog=prog: judge(r, pre_, prog, "dfs-minlevel"))
    # a COMPLETE enable()/disable() inside every window of a cache-MISS log call (the first call of that module - or of
    # the anonymous module - on the core), for every kind of name (None, '', a parent, the module itself); the calls
    # made AFTER the change has returned are then judged (a stale status filled into a dict that is still published
    # would be hit by them).  Directed: one run per scheduling point of the missing call, the cache fill included.
    pairs = [(nm, md) for nm in (None, "", "m", "m.a", "n") for md in MODULES + [ANON] if names(nm, md)]
    rw = rng.fork("misswin")
    if ctx.quick and boost == 1:
        chosen = [(None, ANON)] + [rw.choice([p for p in pairs if p[0] == nm]) for nm in ("", "m", rw.choice(["m.a", "n"]))]
    else:
        chosen = pairs
    for (name, mod) in chosen:
        for kind in (["disable", "enable"] if (not ctx.quick or boost > 1) else [rw.choice(["disable", "disable", "enable"])]):
            if boost > 1 and nviol[0]:
                break
            pre = [["disable", name]] if kind == "enable" else []
            prog = {"handlers": ["DEBUG"], "fine": 1,
                    "threads": [[[kind, name]], [["log", mod, "INFO"], ["log", mod, "INFO"]], [["log", mod, "INFO"]]]}
            if pre:
                # the module starts disabled: done by a thread of its own that finishes before anything else runs
                prog["threads"].append(pre)
            k = 0
            while k < 80:
                ch = window_chooser("t1", k, "t0")
                if pre:
                    inner = ch

                    def ch(r, s_, inner=inner):
                        return "t3" if "t3" in r else inner(r, s_)
                r = Run(prog, ch).execute()
                judge(r, None, prog, "miss-window")
                if (inner if pre else ch).state["n"] < k:
                    break          # the missing call has fewer scheduling points than k: every window has been tried
                k += 1
    # activation races: a change of the rule set against the FIRST log of a module (cache miss) followed by a
    # second log of the same module after the change has returned (the stale entry, if any, is then hit)
    for ai in range(ctx.n(6, 30) * boost):
        if boost > 1 and nviol[0]:
            break          # enlarged search after a broken obligation: a failing input has been found
        r0 = rng.fork("act%d" % ai)
        name = r0.choice(["m", "m.a", "", "n", None])
        mod = r0.choice([m for m in MODULES + [ANON] if names(name, m)] or ["n"])
        kind = r0.choice(["disable", "disable", "enable"])
        pre = [["disable", name]] if kind == "enable" else []
        prog = {"handlers": ["DEBUG"], "threads": [pre + [[kind, name]], [["log", mod, "INFO"], ["log", mod, "INFO"]]]}
        if r0.chance(40):
            prog["threads"].append([["log", mod, "INFO"]])
        dfs_schedules(prog, bound=2, limit=ctx.n(60, 450) * (8 if boost > 1 else 1),
                      on_run=lambda r, pre_, prog=prog: judge(r, pre_, prog, "dfs-activation"))
    # level-table races: a level created at run time against a log at that level, and against add() of a handler
    # that pre-colours its format per level (colourised, static format)
    for li in range(ctx.n(6, 20) * boost):
        if boost > 1 and nviol[0]:
            break          # enlarged search after a broken obligation: a failing input has been found
        r0 = rng.fork("lvl%d" % li)
        hs = [r0.choice(["DEBUG:c", "DEBUG:c", "INFO:c", "DEBUG"]) for _ in range(r0.range(1, 2))]
        mk = ["newlevel", "L0", r0.choice([25, 45]), r0.choice(["<red>", "<blue><bold>", ""])]
        lg = ["log", r0.choice(MODULES), "L0"]
        shape = r0.below(4)
        if shape == 0:
            threads = [[mk], [lg]]
        elif shape == 1:
            threads = [[mk, lg], [["add", "DEBUG:c"], lg]]
        elif shape == 2:
            threads = [[["add", "DEBUG:c"]], [mk], [lg, lg]]
        else:
            threads = [[mk, ["level", "L0", "<green>"]], [lg], [["add", "INFO:c"], lg]]
        prog = {"handlers": hs, "threads": threads}
        dfs_schedules(prog, bound=2, limit=ctx.n(80, 500) * (8 if boost > 1 else 1),
                      on_run=lambda r, pre_, prog=prog: judge(r, pre_, prog, "dfs-levels"))
    nprog = ctx.n(30, 80) * boost
    per_prog = ctx.n(35, 200)
    for pi in range(nprog):
        if boost > 1 and nviol[0]:
            break          # enlarged search after a broken obligation: a failing input has been found
        prog = gen_program(rng.fork("p%d" % pi), nthreads=(2 if ctx.quick else None))
        if pi < 2:
            ctx.sample({"program": prog})
        dfs_schedules(prog, bound=ctx.n(2, 3), limit=per_prog,
                      on_run=lambda r, pre, prog=prog: judge(r, pre, prog, "dfs"))
    nrand = ctx.n(300, 4200) * boost
    for i in range(nrand):
        if boost > 1 and nviol[0]:
            break          # enlarged search after a broken obligation: a failing input has been found
        r2 = rng.fork("r%d" % i)
        prog = gen_program(r2, maxops=3, nthreads=r2.range(2, 4))
        r = Run(prog, sched.random_chooser(r2, switch_pct=r2.choice([15, 35, 60]))).execute()
        judge(r, None, prog, "random")

    # acceptor: replay the real traces on the proved transition system
    if drv_lines:
        out = core.Driver(DRIVER).run(drv_lines)
        pos = 0
        from harness import c02_trace
        for program, schedule, n, info in drv_meta:
            chunk = out[pos:pos + n]
            pos += n
            ctx.traces_validated += 1
            rej = [(i, o) for i, o in enumerate(chunk) if o.startswith("reject")]
            if rej:
                ctx.stat("acceptor_rejections")
                i, o = rej[0]
                ctx.broke("correspondence Conc.accepts",
                          "event %d %r rejected: %s\nprogram=%s schedule=%s"
                          % (i, drv_lines[pos - n + i], o, json.dumps(program), json.dumps(schedule)))
                break
            # the model's bookkeeping of every returned call (exactly_once_if_stable / snapshot_partition) against
            # what the real sinks received
            dis, ncalls = c02_trace.ret_judge(info, chunk)
            ctx.stat("delivery_calls_compared", ncalls)
            if dis:
                ctx.stat("delivery_disagreements")
                ctx.broke("correspondence Conc.delivery",
                          "%s\nprogram=%s schedule=%s" % (dis[0], json.dumps(program), json.dumps(schedule)))
                break
        ctx.stat("acceptor_events", len(drv_lines))

    # second acceptor: the activation-related accesses, projected on one module name, replayed on Activation.step;
    # the model's hit/miss and the rule-set version each call used are compared with what the real call did
    if act_lines:
        from harness import c02_trace
        try:
            out = core.Driver("C02act").run(act_lines)
        except core.DriverError as e:
            ctx.broke("driver:C02act", str(e)[-1500:])
            out, act_meta = [], []
        pos = 0
        for program, schedule, mod, (lines, meta, rules) in act_meta:
            chunk = out[pos:pos + len(lines)]
            pos += len(lines)
            ctx.stat("activation_traces")
            ctx.stat("activation_calls", sum(1 for m in meta if m and m[0] == "done"))
            ctx.stat("activation_cache_misses", sum(1 for m in meta if m and m[0] == "readEn" and m[1]))
            ctx.stat("activation_versions", len(rules))
            dis = c02_trace.act_judge(lines, meta, rules, chunk, mod, _spec_enabled)
            if dis:
                ctx.stat("activation_disagreements")
                ctx.broke("correspondence Activation.accepts",
                          "%s\nprogram=%s schedule=%s" % (dis[0], json.dumps(program), json.dumps(schedule)))
                break

    # third acceptor: the level-table accesses replayed on Levels.step
    if lvl_lines:
        from harness import c02_trace
        try:
            out = core.Driver("C02lvl").run(lvl_lines)
        except core.DriverError as e:
            ctx.broke("driver:C02lvl", str(e)[-1500:])
            out, lvl_meta = [], []
        pos = 0
        for program, schedule, (lines, meta) in lvl_meta:
            chunk = out[pos:pos + len(lines)]
            pos += len(lines)
            ctx.stat("level_traces")
            ctx.stat("level_emits_compared", sum(1 for m in meta if m and m[0] == "emit" and m[2] is not None))
            ctx.stat("level_lookups_missing", sum(1 for m in meta if m and m[0] == "lookup" and not m[1]))
            dis = c02_trace.lvl_judge(lines, meta, chunk)
            if dis:
                ctx.stat("level_disagreements")
                ctx.broke("correspondence Levels.accepts",
                          "%s\nprogram=%s schedule=%s" % (dis[0], json.dumps(program), json.dumps(schedule)))
                break


def acceptor_lines(run):
    """trace -> line protocol of drivers/C02.lean (None when the run used features outside the model)"""
    try:
        from harness import c02_trace
    except ImportError:
        return None
    return c02_trace.lines(run)


def replay(ctx, rep):
    r = rep["replay"]
    run_ = Run(r["program"], sched.replay_chooser(r["schedule"])).execute()
    bad = monitors(run_)
    print("program:", json.dumps(r["program"]))
    print("schedule:", r["schedule"])
    for e in run_.sched.trace[-40:]:
        print("   ", e)
    for b in bad:
        print("VIOLATED:", b)
    print("REPRODUCED" if bad else "not reproduced")
    return 1 if bad else 0
