"""C09 – a returned log call is durable across a crash; normal interpreter exit flushes everything
(DESIGN §4 C09).

The truth of this property lives in the runtime, so every case is a REAL child process
(/venv/bin/python, loguru imported from $VERIF_REPO or /repo) that logs to a file sink (default
buffering) and to a stream sink (a file object the child opened itself), reports through a pipe the
text each handler emitted and "ack i" after the i-th logging call returned, and then dies:

  os_exit   os._exit(0) right after the k-th call returned          (for every k)
  sigkill   blocks after the k-th ack; the parent sends SIGKILL
  mid       dies inside call k+1, after the sinks wrote (a later sink calls os._exit)
  rename    dies inside call k+1 while the file is being rotated: just before / just after os.rename
  compress  dies inside call k+1 in the compression callable of the rotation
  return / sys_exit / unhandled    normal ways out of the interpreter (atexit must stop every handler)

Round 5: file sinks with explicit mode / buffering / delay / watch (the file renamed away between two calls), io
objects of every layering as stream sinks, block-buffered sinks at exit, a stream that ends the worker thread,
records the worker cannot un-pickle, and an in-process grid over everything a stream object may expose.

The parent then reads the directory.  DIRECT ORACLE (model-independent): every acked text is on disk,
whole and in order, followed by nothing but (a prefix of) the text in flight; at normal exit every
handler was removed and stopped, queues drained, files closed, end-of-life compression / retention
performed.  CORRESPONDENCE: the same observables are computed by the Lean model (drivers/C09.lean).
"""
import concurrent.futures
import gzip
import json
import os
import re
import select
import shutil
import signal
import subprocess
import sys
import tempfile
import time

from harness import core
from harness.core import enc, dec

PROP = "C09"
LEAN_TARGETS = ["LoguruModel.Props.C09"]
AUDIT_FILE = "LoguruModel/Audit/C09.lean"
DRIVER = "C09"
RULE = ("one case = one real child process (or a chain of two for restart cases): (sinks, message sequence, "
        "crash point k, way of dying); message shapes: ASCII, multi-line, CR/CRLF, non-ASCII, > 8 KiB, empty, "
        "with exception text, raw with/without line end, serialize, dynamic formats, records that cannot be "
        "un-pickled; sinks: file (default and explicit mode / buffering / delay / watch with the file moved away), "
        "streams of every layering (TextIOWrapper over BufferedWriter / raw, line_buffering, write_through, tiny "
        "buffers, stdout/stderr, proxies, user classes, a stream ending the worker thread); non-trivial = at least one "
        "call returned before the death (k >= 1) or an exit program with queued messages; distinct by the whole spec; "
        "plus an in-process grid of 64 stream objects (which of flush/stop they expose, and how)")
TRUSTED = [
    "CPython io (TextIOWrapper line buffering, BufferedWriter) is modelled in Buffer/Model.lean, not verified; "
    "validated by the real-process stream on every run",
    "write(2) into the page cache survives the death of the process (not power loss - not claimed)",
    "the interpreter runs atexit callbacks on return from main / sys.exit / unhandled exception",
]
ASSUMPTIONS = ["Linux, utf8 file sinks, newline translation is the identity",
               "the verdict of watch=True's stat comparison and the size-driven spills of CPython's io layers are oracles of the model",
               "rotation verdicts and compression codecs are oracles of the model (C07/C19/C18 own them)"]

F7_KEY = "F7-no-newline-stays-buffered"
# keys of findings that are waiting for the integrator's decision: counted and noted, not reported (none at present)
PENDING_FINDINGS = []
PY = "/venv/bin/python"
CHILD_TIMEOUT = 40.0

# ----------------------------------------------------------------------------- the child program
CHILD_SRC = r'''
import atexit, builtins, json, os, sys, time
spec = json.load(open(sys.argv[1], encoding="utf8"))
FD = spec["fd"]
def report(s):
    os.write(FD, (s + "\n").encode("ascii"))
def enc(s):
    return "-" if s == "" else ".".join("%x" % ord(c) for c in s)
IDS = {}
def late():
    # registered BEFORE loguru is imported, hence run AFTER loguru's own atexit callback
    try:
        from loguru import logger
        for name, hid in IDS.items():
            try:
                logger.remove(hid)
                report("late registered " + name)
            except ValueError:
                report("late removed " + name)
    finally:
        report("late done")
atexit.register(late)
sys.path.insert(0, spec["repo"])
from loguru import logger
import loguru._file_sink as lfs
logger.remove()
die = spec["die"]
CUR = [0]
import threading
GATE = threading.Event()       # gated sinks block until it is set (a backlog that takes long to write)
if not spec.get("gate"):
    GATE.set()
else:
    # safety net: a program whose calls fill the queue's pipe would block in put() before reaching its end
    _wd = threading.Timer(5.0, GATE.set)
    _wd.daemon = True
    _wd.start()
if spec.get("fast_timeouts"):
    # time compression: a BOUNDED wait for the worker thread returns after 50 ms instead of its bound - what
    # happens for real whenever the backlog outlasts the bound; an unbounded join() is untouched
    import loguru._handler as lh
    class ShimThread(lh.Thread):
        def join(self, timeout=None):
            if timeout is None:
                return super().join()
            return super().join(min(timeout, 0.05))
    lh.Thread = ShimThread

import pickle
def _rebuild_fails(name):
    cls = getattr(builtins, name, None) or getattr(pickle, name)
    if cls is UnicodeDecodeError:
        raise UnicodeDecodeError("utf8", b"\xff", 0, 1, "cannot rebuild")
    raise cls("cannot rebuild this object in the worker")
class Poison:
    """pickles fine, but its reconstruction on the reading side of the queue raises"""
    def __init__(self, name):
        self.name = name
    def __reduce__(self):
        return (_rebuild_fails, (self.name,))
    def __repr__(self):
        return "Poison(%s)" % self.name

def dyn_nl(record):
    return "{message}\n{exception}"
def dyn_nonl(record):
    return "{message}"
def dyn_edge(record):
    # a callable format may return anything: nothing at all, blanks, a template without line end
    return ["", " ", "{message}", "{message}\n{exception}"][record["extra"]["i"] % 4]
FORMATS = {"static": "{message}", "dyn_nl": dyn_nl, "dyn_nonl": dyn_nonl, "dyn_edge": dyn_edge}

class Stream:
    encoding = "utf8"   # same exception-formatting symbols as the capture sink
    def __init__(self, name, path, buffering, slow, stoppable, flushable, inner=None, die_on=None, die_exc=None):
        self.name, self.slow, self.gated, self.die_on = name, slow, False, die_on
        self.die_exc = die_exc or "SystemExit"
        if inner:
            self.f = open_impl(inner, path)
        else:
            self.f = open(path, "a", buffering=buffering, encoding="utf8", newline="")
        if flushable:
            self.flush = self.f.flush
        if stoppable:
            self.stop = self._stop
    def write(self, m):
        if self.gated:
            GATE.wait()
        if self.slow:
            time.sleep(self.slow)
        if self.die_on is not None and m.record["extra"]["i"] == self.die_on:
            # an Exception is reported and the worker goes on; SystemExit (a BaseException) ends the worker thread
            if self.die_exc == "UnicodeEncodeError":
                raise UnicodeEncodeError("ascii", "é", 0, 1, "refused by the stream")
            raise getattr(builtins, self.die_exc)("refused by the stream")
        self.f.write(m)
    def _stop(self):
        report("stop " + self.name)
        self.f.close()

class Proxy:
    """a delegating proxy / tee: implements write() itself, everything else (flush, stop, encoding, …) is
    forwarded to the wrapped object through __getattr__"""
    def __init__(self, inner):
        self.__dict__["_inner"] = inner
    def write(self, m):
        self._inner.write(m)
    def __getattr__(self, name):
        return getattr(self._inner, name)

class PropProxy:
    """implements the optional parts of the protocol as properties returning the wrapped object's methods"""
    encoding = "utf8"
    def __init__(self, inner):
        self._inner = inner
    def write(self, m):
        self._inner.write(m)
    @property
    def flush(self):
        return self._inner.flush
    @property
    def stop(self):
        return self._inner.stop

class MemBuf:
    """a user stream that keeps everything in memory until flush() and reports line_buffering"""
    encoding = "utf8"
    line_buffering = True
    def __init__(self, path):
        self.fd = os.open(path, os.O_WRONLY | os.O_CREAT | os.O_APPEND, 0o644)
        self.buf = []
    def write(self, m):
        self.buf.append(m)
    def flush(self):
        data = "".join(self.buf).encode("utf8")
        self.buf = []
        while data:
            data = data[os.write(self.fd, data):]

def make_stream(s):
    st = make_stream0(s)
    if s.get("gated"):
        st.gated = True
    if s.get("proxy") == "getattr" or s.get("impl") == "proxy":
        st = Proxy(st)
    elif s.get("proxy") == "property" or s.get("impl") == "propproxy":
        st = PropProxy(st)
    return st

def open_impl(impl, path):
    """the io objects a user may build: every layering of TextIOWrapper over BufferedWriter / a raw file"""
    import io
    if impl in ("block", "proxy", "propproxy"):
        return open(path, "a", encoding="utf8", newline="")
    if impl == "line":
        return open(path, "a", buffering=1, encoding="utf8", newline="")
    if impl == "bigbuf":
        return open(path, "a", buffering=1 << 16, encoding="utf8", newline="")
    if impl == "wt":
        return io.TextIOWrapper(open(path, "ab", buffering=0), encoding="utf8", newline="", write_through=True)
    if impl == "wtbuf":
        return io.TextIOWrapper(open(path, "ab"), encoding="utf8", newline="", write_through=True)
    if impl == "wtsmall":
        return io.TextIOWrapper(open(path, "ab", buffering=64), encoding="utf8", newline="", write_through=True)
    if impl == "linesmall":
        return io.TextIOWrapper(open(path, "ab", buffering=16), encoding="utf8", newline="", line_buffering=True)
    if impl == "linewt":
        return io.TextIOWrapper(open(path, "ab"), encoding="utf8", newline="", line_buffering=True, write_through=True)
    if impl == "rawwrap":
        return io.TextIOWrapper(open(path, "ab", buffering=0), encoding="utf8", newline="")
    if impl == "linewrap":
        return io.TextIOWrapper(open(path, "ab"), encoding="utf8", newline="", line_buffering=True)
    if impl == "reconf":
        return open(path, "a", buffering=1, encoding="utf8", newline="")   # reconfigured after add(), see below
    raise ValueError(impl)

def make_stream0(s):
    """the stream object handed to logger.add(): the file objects are passed AS THEY ARE"""
    impl, path = s.get("impl", "wrapper"), s["path"]
    if impl == "stderr":
        return sys.stderr          # redirected by the parent to s["path"]
    if impl == "stdoutwt":
        sys.stdout.reconfigure(write_through=True)      # the process's stdout, redirected by the parent to s["path"]
        return sys.stdout
    if impl == "membuf":
        return MemBuf(path)
    if impl != "wrapper":
        return open_impl(impl, path)
    return Stream(s["name"], path, s.get("buffering", -1), s.get("slow", 0), bool(s.get("stoppable")),
                  bool(s.get("flushable", True)), s.get("inner"), s.get("die_on"), s.get("die_exc"))

def capture(name):
    def sink(m):
        report("text %s %d %s" % (name, m.record["extra"]["i"], enc(str(m))))
    return sink

def rotation_fn(slow, gated=False):
    def rot(message, file):
        if gated:
            GATE.wait()
        if slow:
            time.sleep(slow)
        return bool(message.record["extra"]["rot"])
    return rot

def compress_die(path):
    if die["mode"] == "compress" and CUR[0] == die["k"] + 1:
        os._exit(0)

class OsShim:
    def __getattr__(self, name):
        return getattr(os, name)
    def rename(self, a, b):
        if die["mode"] == "rename" and CUR[0] == die["k"] + 1:
            if die["when"] == "before":
                os._exit(0)
            os.rename(a, b)
            os._exit(0)
        return os.rename(a, b)
if die["mode"] == "rename":
    lfs.os = OsShim()

for s in spec["sinks"]:
    fmt = FORMATS[s.get("format", "static")]
    ser = bool(s.get("serialize"))
    logger.add(capture(s["name"]), format=fmt, serialize=ser, colorize=False)
    if s["kind"] == "file":
        kw = {}
        if s.get("rotation"):
            kw["rotation"] = rotation_fn(s.get("slow", 0), bool(s.get("gated")))
        if s.get("compression") == "die":
            kw["compression"] = compress_die
        elif s.get("compression"):
            kw["compression"] = s["compression"]
        if s.get("retention") is not None:
            kw["retention"] = s["retention"]
        for opt in ("mode", "buffering", "delay", "watch"):
            if s.get(opt) is not None:
                kw[opt] = s[opt]
        IDS[s["name"]] = logger.add(s["path"], format=fmt, serialize=ser, enqueue=bool(s.get("enqueue")), **kw)
    else:
        st = make_stream(s)
        IDS[s["name"]] = logger.add(st, format=fmt, serialize=ser, enqueue=bool(s.get("enqueue")), colorize=False)
        if s.get("impl") == "reconf":
            st.reconfigure(line_buffering=False)    # the stream's buffering changes after it was added

if die["mode"] == "mid":
    def killer(m):
        if m.record["extra"]["i"] == die["k"] + 1:
            os._exit(0)
    logger.add(killer, format="{message}")

def after(i):
    report("ack %d" % i)
    if die["mode"] == "os_exit" and die["k"] == i:
        os._exit(0)
    if die["mode"] == "sigkill" and die["k"] == i:
        report("ready")
        time.sleep(300)
        os._exit(9)

def maybe_fork(i):
    """the daemonisation recipe: the handlers were added by the launcher; it leaves with os._exit and the
    forked process carries on and later exits normally"""
    fk = spec.get("fork")
    if not fk or fk["at"] != i:
        return
    pid = os.fork()
    if pid == 0:
        report("forked %d" % i)
        return
    if fk["launcher"] == "wait":
        _, status = os.waitpid(pid, 0)
        os._exit(os.waitstatus_to_exitcode(status) & 0xFF)
    os._exit(0)

def main():
    after(0)
    maybe_fork(0)
    for i, m in enumerate(spec["messages"], 1):
        CUR[0] = i
        lg = logger.bind(i=i, rot=bool(m.get("rot")))
        if m.get("poison"):
            lg = lg.bind(attachment=Poison(m["poison"]))
        lg = lg.opt(raw=bool(m.get("raw")), exception=bool(m.get("exc")))
        if m.get("exc"):
            try:
                raise ValueError("boom é %d\nsecond line of the error" % i)
            except ValueError:
                lg.info(m["text"])
        else:
            lg.info(m["text"])
        for s in spec["sinks"]:
            if s.get("move_after") and i in s["move_after"]:
                # another process (logrotate) moves the log file away between two calls
                try:
                    os.rename(s["path"], "%s.moved%d.log" % (os.path.splitext(s["path"])[0], i))
                    report("moved %s %d" % (s["name"], i))
                except OSError:
                    pass
        after(i)
        maybe_fork(i)
    report("end")
    if spec.get("gate"):
        t = threading.Timer(spec["gate"], GATE.set)    # the backlog gets written only from now + gate seconds
        t.daemon = True
        t.start()
    if die["mode"] == "sys_exit":
        sys.exit(3)
    if die["mode"] == "unhandled":
        raise RuntimeError("unhandled on purpose")

main()
'''


class Hang(Exception):
    pass


def run_stage(dirpath, child_py, spec, idx):
    """run one child process in `dirpath`; returns (report lines, returncode or 'hang', stderr text)"""
    r, w = os.pipe()
    spec = dict(spec, fd=w, repo=core.REPO)
    sp = os.path.join(dirpath, "_spec%d.json" % idx)
    with open(sp, "w", encoding="utf8") as f:
        json.dump(spec, f)
    errp = os.path.join(dirpath, "_stderr%d.txt" % idx)
    env = dict(os.environ)
    env["PYTHONPATH"] = core.REPO
    env.pop("LOGURU_AUTOINIT", None)
    env.pop("PYTHONUNBUFFERED", None)      # sys.stderr as a regular (line-buffered) text stream
    env["PYTHONIOENCODING"] = "utf8"
    env["PYTHONDONTWRITEBYTECODE"] = "1"
    env.update(spec.get("env", {}))
    cmd = [PY, child_py, sp]
    if spec.get("close_stderr"):
        cmd = ["/bin/sh", "-c", 'exec "$0" "$@" 2>&-'] + cmd     # a process started without fd 2: sys.stderr is None
    err_sink = [x for x in spec["sinks"] if x.get("impl") == "stderr"]
    out_sink = [x for x in spec["sinks"] if x.get("impl") == "stdoutwt"]
    with open(errp, "wb") as ef:
        sf = open(os.path.join(dirpath, err_sink[0]["path"]), "ab") if err_sink else None
        of = open(os.path.join(dirpath, out_sink[0]["path"]), "ab") if out_sink else None
        try:
            p = subprocess.Popen(cmd, cwd=dirpath, pass_fds=(w,), stdin=subprocess.DEVNULL,
                                 stdout=of or ef, stderr=sf or ef, env=env)
        finally:
            for x in (sf, of):
                if x is not None:
                    x.close()
    os.close(w)
    buf = b""
    deadline = time.time() + CHILD_TIMEOUT
    hang = False
    killed = False
    try:
        while True:
            left = deadline - time.time()
            if left <= 0:
                hang = True
                break
            rl, _, _ = select.select([r], [], [], min(left, 1.0))
            if not rl:
                continue
            chunk = os.read(r, 65536)
            if not chunk:
                break
            buf += chunk
            if not killed and spec["die"]["mode"] == "sigkill" and b"\nready\n" in b"\n" + buf:
                os.kill(p.pid, signal.SIGKILL)
                killed = True
    finally:
        os.close(r)
        if hang:
            p.kill()
        try:
            rc = p.wait(timeout=20)
        except subprocess.TimeoutExpired:
            p.kill()
            rc = p.wait()
            hang = True
    try:
        err = open(errp, encoding="utf8", errors="replace").read()
    except OSError:
        err = ""
    lines = buf.decode("ascii", "replace").split("\n")
    complete = lines[:-1]  # a torn last line (impossible for os.write of a short line, but be safe) is dropped
    return complete, ("hang" if hang else rc), err


def read_dir(dirpath):
    out = {}
    for n in sorted(os.listdir(dirpath)):
        if n.startswith("_"):
            continue
        p = os.path.join(dirpath, n)
        if os.path.isfile(p):
            with open(p, "rb") as f:
                out[n] = f.read()
    return out


def run_case(root, child_py, case):
    d = tempfile.mkdtemp(prefix="case", dir=root)
    try:
        for name, content in case.get("pre", {}).items():
            with open(os.path.join(d, name), "w", encoding="utf8", newline="") as f:
                f.write(content)
            if name in case.get("old", []):
                os.utime(os.path.join(d, name), (1000000000, 1000000000))
        stages = []
        for i, spec in enumerate(case["stages"]):
            lines, rc, err = run_stage(d, child_py, spec, i)
            stages.append({"lines": lines, "rc": rc, "stderr": err[-2000:]})
        return {"stages": stages, "files": read_dir(d)}
    finally:
        shutil.rmtree(d, ignore_errors=True)


# ----------------------------------------------------------------------------- interpretation of a run
def parse_reports(lines):
    texts, acks, stops, late, flags = {}, [], [], {}, set()
    for l in lines:
        p = l.split(" ")
        if p[0] == "text" and len(p) == 4:
            texts.setdefault(p[1], {})[int(p[2])] = dec(p[3])
        elif p[0] == "ack":
            acks.append(int(p[1]))
        elif p[0] == "stop":
            stops.append(p[1])
        elif p[0] == "late" and len(p) == 3:
            late[p[2]] = p[1]
        elif p[0] in ("end", "ready") or l == "late done":
            flags.add(l)
    return {"texts": texts, "acked": max(acks) if acks else -1, "stops": stops, "late": late, "flags": flags}


def decode(b):
    return b.decode("utf8", "surrogateescape")


def sink_files(files, sink):
    """(rotated contents [unordered], current content or None) of a file sink; gz members are decompressed.
    ok=False when a compressed member cannot be read (torn archive)"""
    base = sink["path"]
    root, ext = os.path.splitext(base)
    rotated, current, names, ok = [], None, [], True
    for n, b in files.items():
        if n == base:
            current = decode(b)
            names.append(n)
        elif n.startswith(root + "."):
            names.append(n)
            if n.endswith(".gz"):
                try:
                    b = gzip.decompress(b)
                except Exception:
                    ok = False
                    continue
            if n == base + ".gz":
                # end-of-life compression of the file at `path`
                current = decode(b) if current is None else current + decode(b)
                continue
            rotated.append(decode(b))
    return rotated, current, names, ok


def tile(expected, pieces):
    """can the (unordered) non-empty pieces be laid out, each exactly once, as a prefix of `expected`?
    returns the length covered, or None"""
    pieces = [p for p in pieces if p != ""]
    if not pieces:
        return 0

    def go(pos, rest):
        if not rest:
            return pos
        for i, p in enumerate(rest):
            if expected.startswith(p, pos):
                r = go(pos + len(p), rest[:i] + rest[i + 1:])
                if r is not None:
                    return r
        return None

    return go(0, pieces)


def has_le(t):
    return "\n" in t or "\r" in t


def f7_shape(sink, msgs, texts, upto):
    """indices <= upto whose emitted text has no line end BECAUSE the call was raw or the format dynamic"""
    out = []
    for i in range(1, upto + 1):
        t = texts.get(i, "")
        if not has_le(t) and (msgs[i - 1].get("raw") or sink.get("format", "static") != "static") \
                and not sink.get("serialize"):
            out.append(i)
    return out


# ----------------------------------------------------------------------------- generators
SHAPES = [
    ("ascii", "hello world"),
    ("multiline", "first line\nsecond line\n\nfourth"),
    ("cr", "progress 10%\rprogress 20%"),
    ("crlf", "dos line\r\nnext"),
    ("nonascii", "héllo 日本語 \U0001F600 ß"),
    ("seps", "para sep next\u0085line"),
    ("braces", "{not} a {field!r:>3} }{"),
    ("empty", ""),
    ("spaces", "  trailing tab\t "),
    ("long", "L" * 9000 + " é end"),
    ("longml", ("x" * 100 + "\n") * 90 + "tail"),
]


def gen_messages(rng, n, rotation, raw_nl=True, allow_f7=False, small=False):
    msgs = []
    for i in range(n):
        kind, text = rng.choice(SHAPES[:9] if small else SHAPES)
        if kind in ("long", "longml") and rng.chance(50):
            kind, text = rng.choice(SHAPES[:9])
        m = {"text": text + (" #%d" % i if kind != "empty" else ""), "shape": kind}
        if rng.chance(25):
            m["exc"] = True
            m["shape"] += "+exc"
        if raw_nl and rng.chance(12):
            m["raw"] = True
            m["text"] = m["text"] + "\n"
            m["shape"] += "+raw"
        if allow_f7 and rng.chance(30):
            m = {"text": "raw no line end #%d" % i, "raw": True, "shape": "raw-no-newline"}
        if rotation and i > 0 and rng.chance(40):
            m["rot"] = True
        msgs.append(m)
    return msgs


# texts at the edge of what a sink can be handed: empty, blank, falsy-looking, bare line ends, no line end
EDGE_RAW = ["", "", " ", "\t", "0", "None", "False", "True", "\n", "\r", "x", "é", "{}", " \n"]


def gen_exit_messages(rng, n, rotation=False):
    """programs for the exit clause: ordinary calls mixed with raw calls whose text is empty, blank or has
    no line end - whatever was accepted by a logging call that returned must be in the sink after the exit"""
    msgs = []
    for i in range(n):
        if rng.chance(40):
            t = rng.choice(EDGE_RAW)
            msgs.append({"text": t, "raw": True,
                         "shape": "raw-empty" if t == "" else ("raw-blank" if t.strip() == "" else "raw-edge")})
        else:
            msgs += gen_messages(rng, 1, False)
        if rotation and i > 0 and rng.chance(40):
            msgs[-1]["rot"] = True
    return msgs


def file_sink(**kw):
    d = {"name": "F", "kind": "file", "path": "F.log"}
    d.update(kw)
    return d


def stream_sink(**kw):
    d = {"name": "S", "kind": "stream", "path": "S.txt", "flushable": True}
    d.update(kw)
    return d


# every kind of flushable stream a user may hand to add(): (has flush, reports line_buffering, write_through)
STREAM_IMPLS = {
    "block": (1, 0, 0),      # open(path, "a")
    "line": (1, 1, 0),       # open(path, "a", buffering=1)
    "bigbuf": (1, 0, 0),     # open(path, "a", buffering=65536)
    "wt": (1, 0, 1),         # TextIOWrapper(unbuffered binary, write_through=True)
    "rawwrap": (1, 0, 0),    # TextIOWrapper(unbuffered binary)
    "linewrap": (1, 1, 0),   # TextIOWrapper(buffered binary, line_buffering=True)
    "stderr": (1, 1, 0),     # the process's own sys.stderr (redirected to a file by the parent)
    "membuf": (1, 1, 0),     # a user class buffering in memory until flush()
    "proxy": (1, 0, 0),      # write() + __getattr__ forwarding everything else to a block-buffered file
    "propproxy": (1, 0, 0),  # write() + flush / stop as properties returning the file's methods
    "reconf": (1, 1, 0),     # open(path, "a", buffering=1), then reconfigure(line_buffering=False) after add()
    "wtbuf": (1, 0, 1),      # TextIOWrapper(BufferedWriter, write_through=True): reaches the buffer, not the OS
    "linewt": (1, 1, 1),     # TextIOWrapper(BufferedWriter, line_buffering=True, write_through=True)
    "wtsmall": (1, 0, 1),    # write_through over a BufferedWriter with a 64-byte buffer
    "linesmall": (1, 1, 0),  # line_buffering over a BufferedWriter with a 16-byte buffer
    "stdoutwt": (1, 1, 1),   # the process's own sys.stdout after reconfigure(write_through=True), redirected to a file
}

# how the io object is really layered: (BufferedWriter under the text layer?, line_buffering, write_through)
LAYERS = {
    "block": (1, 0, 0), "line": (1, 1, 0), "bigbuf": (1, 0, 0), "wt": (0, 0, 1), "rawwrap": (0, 0, 0),
    "linewrap": (1, 1, 0), "stderr": (1, 1, 0), "proxy": (1, 0, 0), "propproxy": (1, 0, 0), "reconf": (1, 0, 0),
    "wtbuf": (1, 0, 1), "linewt": (1, 1, 1), "wtsmall": (1, 0, 1), "linesmall": (1, 1, 0), "stdoutwt": (1, 0, 1),
}


def sink_layers(sink):
    """layering of the io object behind a stream sink, or None (user classes that are not io objects)"""
    impl = sink.get("impl", "wrapper")
    if impl == "wrapper":
        if sink.get("inner"):
            return LAYERS[sink["inner"]]
        return (1, 1 if sink.get("buffering", -1) == 1 else 0, 0)
    return LAYERS.get(impl)


def stream_attrs(sink):
    impl = sink.get("impl", "wrapper")
    if impl in STREAM_IMPLS:
        return STREAM_IMPLS[impl]
    return (1 if sink.get("flushable", True) else 0, 0, 0)   # the wrapper class exposes neither attribute


def all_streams(rng, **kw):
    impls = list(STREAM_IMPLS)
    rng.shuffle(impls)
    return [stream_sink(name="S%d" % i, path=("E%d.err" if impl in ("stderr", "stdoutwt") else "S%d.txt") % i, impl=impl, **kw)
            for i, impl in enumerate(impls)]


def gen_stream_messages(rng, n):
    """programs for stream sinks: ordinary calls mixed with texts WITHOUT a line end (raw calls,
    progress output in several parts) - for a flushable stream every returned call is durable"""
    msgs = []
    while len(msgs) < n:
        r = rng.below(10)
        i = len(msgs)
        if r < 4:
            msgs += gen_messages(rng, 1, False)
        elif r < 7:
            if rng.chance(30):
                msgs.append({"text": rng.choice(EDGE_RAW), "raw": True, "shape": "raw-edge"})
            else:
                kind, text = rng.choice(SHAPES[:1] + SHAPES[4:10])      # no interior line end
                msgs.append({"text": text + " #%d" % i, "raw": True, "shape": "raw-no-newline"})
        elif r < 9:
            msgs += [{"text": t, "raw": True, "shape": "raw-no-newline"} for t in ("Loading #%d" % i, "...", "50%")]
        else:
            msgs.append({"text": "é" * rng.choice([1, 4095, 8193]) + " #%d" % i, "raw": True, "shape": "raw-no-newline-long"})
    return msgs[:n]


def real_stream(rng, **kw):
    impl = rng.choice(sorted(STREAM_IMPLS))
    return stream_sink(impl=impl, path="E.err" if impl in ("stderr", "stdoutwt") else "S.txt", **kw)


# environments an interpreter may be started in (the exit clause holds in all of them)
ENVIRONMENTS = [{}, {"env": {"LOGURU_AUTOINIT": "False"}}, {"close_stderr": True}]


def gen_cases(ctx):
    rng = ctx.rng
    cases = []
    K = ctx.n(6, 30)
    boost = 2 if getattr(ctx, "search_boost", False) else 1

    def add(kind, stages, **kw):
        c = {"kind": kind, "stages": stages}
        c.update(kw)
        cases.append(c)

    # A1: plain file + stream sinks, death after the k-th call, every k, alternating kill modes
    reps = ctx.n(2, 4) * boost
    for rep in range(reps):
        msgs = gen_messages(rng, K, False)
        flip = rng.below(2)
        ser = rep % 3 == 2
        fmt = "dyn_nl" if rep % 3 == 1 else "static"
        for k in range(K + 1):
            modes = ["os_exit", "sigkill"] if not ctx.quick else [["os_exit", "sigkill"][(k + flip) % 2]]
            for mode in modes:
                add("crash", [{"sinks": [file_sink(format=fmt, serialize=ser),
                                         stream_sink(format=fmt, serialize=ser, buffering=rng.choice([-1, 1]))],
                               "messages": msgs, "die": {"mode": mode, "k": k}}])
    # A2: rotation (callable verdicts; gz compression of rotated files in half of the programs)
    for rep in range(reps):
        msgs = gen_messages(rng, K, True)
        comp = "gz" if rep % 2 == 1 else None
        flip = rng.below(3)
        for k in range(K + 1):
            all_modes = ["os_exit", "sigkill", "mid"]
            modes = all_modes if not ctx.quick else [all_modes[(k + flip) % 3]]
            for mode in modes:
                if mode == "mid" and k >= K:
                    mode = "os_exit"
                add("crash", [{"sinks": [file_sink(rotation=True, compression=comp), real_stream(rng)],
                               "messages": msgs, "die": {"mode": mode, "k": k}}])
    # A3: death while the rotation is in progress (before / after rename, inside the compression callable)
    for rep in range(ctx.n(3, 12) * boost):
        msgs = gen_messages(rng, K, True)
        ks = [i for i in range(1, K) if msgs[i].get("rot")]
        if not ks:
            msgs[2]["rot"] = True
            ks = [2]
        k = rng.choice(ks)  # call k+1 rotates
        add("crash", [{"sinks": [file_sink(rotation=True)], "messages": msgs,
                       "die": {"mode": "rename", "k": k, "when": "before"}}])
        add("crash", [{"sinks": [file_sink(rotation=True)], "messages": msgs,
                       "die": {"mode": "rename", "k": k, "when": "after"}}])
        add("crash", [{"sinks": [file_sink(rotation=True, compression="die")], "messages": msgs,
                       "die": {"mode": "compress", "k": k}}])
    # A4: restart on the same path after a crash (mode="a")
    for rep in range(ctx.n(2, 8) * boost):
        m1, m2 = gen_messages(rng, 4, False), gen_messages(rng, 4, False)
        k1, k2 = rng.range(1, 4), rng.range(0, 4)
        add("crash", [{"sinks": [file_sink()], "messages": m1, "die": {"mode": "os_exit", "k": k1}},
                      {"sinks": [file_sink()], "messages": m2, "die": {"mode": rng.choice(["os_exit", "sigkill"]), "k": k2}}],
            pre={"F.log": rng.choice(["", "earlier run\n", "no final newline"])})
    # A5: texts without a line end (finding F7 shape): raw calls, dynamic format without newline
    for rep in range(ctx.n(2, 8) * boost):
        msgs = gen_messages(rng, 5, False, allow_f7=True)
        k = rng.range(1, 5)
        add("crash", [{"sinks": [file_sink(), real_stream(rng)], "messages": msgs, "die": {"mode": "os_exit", "k": k}}])
    # (short texts: beyond 8 KiB of pending bytes CPython spills early, which the model does not describe)
    msgs = gen_messages(rng, 3, False, raw_nl=False, small=True)
    add("crash", [{"sinks": [file_sink(format="dyn_nonl"), real_stream(rng, format="dyn_nonl")], "messages": msgs,
                   "die": {"mode": "os_exit", "k": rng.range(1, 3)}}])
    # A7: stream sinks of EVERY buffering kind at once (block / line / big buffer / write-through / text layer over
    #     raw / line-buffering wrapper / the process's stderr / a user class buffering until flush), texts with and
    #     without a line end, death after every k: for a flushable stream every returned call is durable
    for rep in range(ctx.n(1, 3) * boost):
        Ks = ctx.n(6, 20)
        msgs = gen_stream_messages(rng, Ks)
        fmt = "dyn_nonl" if rep % 2 == 1 else "static"
        flip = rng.below(3)
        for k in range(Ks + 1):
            all_modes = ["os_exit", "sigkill", "mid"]
            modes = all_modes if not ctx.quick else [all_modes[(k + flip) % 3]]
            for mode in modes:
                if mode == "mid" and k >= Ks:
                    mode = "sigkill"
                add("crash", [{"sinks": all_streams(rng, format=fmt), "messages": msgs, "die": {"mode": mode, "k": k}}])
    # A6: CPython io model: a stream WITHOUT flush over a block-buffered file (the property claims nothing)
    #     (small texts only: beyond 8 KiB of pending bytes CPython spills early, which the model does not describe)
    small = [{"text": "%s #%d" % (rng.choice(SHAPES[:7])[1], i), "shape": "small"} for i in range(3)]
    add("crash", [{"sinks": [stream_sink(flushable=False, buffering=-1)], "messages": small,
                   "die": {"mode": "os_exit", "k": 3}}], io_only=True)


    # A8: the other open() arguments of the file sink: explicit buffering=1 with mode a / w / x, delay, watch with the
    #     log file moved away by "another process" between two calls (logrotate), rotation on top
    for rep in range(ctx.n(4, 16) * boost):
        n = rng.range(3, K)
        rotation = rng.chance(40)
        msgs = gen_messages(rng, n, rotation)
        mode = rng.choice(["a", "w", "x", "a"])
        watch = rng.chance(60)
        k = rng.range(0, n)
        dmode = rng.choice(["os_exit", "sigkill", "mid"])
        if dmode == "mid" and k >= n:
            dmode = "os_exit"
        moves = sorted({rng.range(1, k - 1) for _ in range(rng.range(1, 2))}) if (watch and k >= 2) else None
        pre = {"F.log": rng.choice(["earlier run\n", "no final newline"])} if (mode != "x" and rng.chance(60)) else {}
        add("crash", [{"sinks": [file_sink(buffering=1, mode=mode, delay=rng.chance(50), watch=watch, rotation=rotation,
                                           move_after=moves)],
                       "messages": msgs, "die": {"mode": dmode, "k": k}}], pre=pre)
    # A8b: a block-buffered file sink (the user's choice; claim (a) does not apply): nothing foreign, nothing reordered
    msgs = gen_messages(rng, 4, False, small=True)
    add("crash", [{"sinks": [file_sink(buffering=rng.choice([-1, 4096]))], "messages": msgs,
                   "die": {"mode": "os_exit", "k": rng.range(1, 4)}}])
    # A8c: a long text without line end between ordinary calls: CPython's layers spill by size (theorem f7_window)
    msgs = [{"text": "before", "shape": "ascii"}, {"text": "y" * rng.choice([8192, 9000, 20000]), "raw": True, "shape": "raw-no-newline"},
            {"text": "tail", "raw": True, "shape": "raw-no-newline"}]
    add("crash", [{"sinks": [file_sink()], "messages": msgs, "die": {"mode": "os_exit", "k": 3}}])
    # A9: CPython io LAYERS (TextIOWrapper over BufferedWriter / a raw file, line_buffering, write_through) behind a
    #     stream WITHOUT flush: validates Buffer/Layers.lean (the property claims nothing for such streams)
    inners = ["block", "line", "wt", "wtbuf", "linewt", "rawwrap", "linewrap"]
    small = []
    for i in range(4):
        if rng.chance(50):
            small.append({"text": "part %d" % i, "raw": True, "shape": "raw-no-newline"})
        else:
            small.append({"text": "%s #%d" % (rng.choice(SHAPES[:7])[1], i), "shape": "small"})
    add("crash", [{"sinks": [stream_sink(name="S%d" % i, path="S%d.txt" % i, flushable=False, inner=inner)
                             for i, inner in enumerate(inners)],
                   "messages": small, "die": {"mode": "os_exit", "k": rng.range(1, 4)}}], io_only=True)

    # B3: a backlog that takes long to write at exit (gated sinks: nothing is written before the program has reached
    #     its end; bounded waits are time-compressed, see the child): stop() may not return before the queue is drained
    for rep in range(ctx.n(1, 3) * boost):
        for mode in ctx.n([rng.choice(["return", "sys_exit", "unhandled"])], ["return", "sys_exit", "unhandled"]):
            # few, short messages: the whole backlog must fit into the queue's pipe while the sinks are gated
            msgs = [m for m in gen_exit_messages(rng, 8, rotation=True) if len(m["text"]) < 200 and not m.get("exc")][:6]
            st = {"sinks": [file_sink(enqueue=True, rotation=True, gated=True),
                            stream_sink(enqueue=True, stoppable=True, gated=True,
                                        proxy=rng.choice([None, "getattr", "property"]))],
                  "messages": msgs, "die": {"mode": mode}, "gate": 0.4, "fast_timeouts": True}
            add("exit", [st])
    # B: normal interpreter exit
    nexit = 0
    for mode in ("return", "sys_exit", "unhandled"):
        for enq in (False, True):
            for rep in range(ctx.n(1, 3) * boost):
                msgs = gen_exit_messages(rng, K)
                fmt = "dyn_edge" if nexit % 3 == 2 else "static"
                st = {"sinks": [file_sink(enqueue=enq, compression="gz", format=fmt),
                                stream_sink(enqueue=enq, stoppable=True, slow=0.03 if enq else 0, format=fmt,
                                            proxy=[None, "getattr", "property"][(nexit + (1 if enq else 0)) % 3])],
                      "messages": msgs, "die": {"mode": mode}}
                st.update(ENVIRONMENTS[nexit % 3])
                nexit += 1
                add("exit", [st])
    for enq in (False, True):
        # rotation configured: no end-of-life compression; the slow rotation callable keeps the queue busy
        msgs = gen_exit_messages(rng, K, rotation=True)
        add("exit", [{"sinks": [file_sink(enqueue=enq, rotation=True, compression="gz", slow=0.02 if enq else 0)],
                      "messages": msgs, "die": {"mode": rng.choice(["return", "sys_exit", "unhandled"])}}])
        # end-of-life retention: two old files of the family are deleted at exit
        msgs = gen_messages(rng, 3, False)
        add("exit", [{"sinks": [file_sink(enqueue=enq, retention=1)], "messages": msgs,
                      "die": {"mode": rng.choice(["return", "sys_exit", "unhandled"])}}],
            pre={"F.old1.log": "old one\n", "F.old2.log": "old two\n"}, old=["F.old1.log", "F.old2.log"])
    # B4: exit clause for every buffering / mode / delay of the file sink (block-buffered sinks hold everything in user
    #     space until stop()), next to a stream that has stop() but no flush(); a delayed sink without any message
    for rep in range(ctx.n(3, 10) * boost):
        enq = rep % 2 == 1
        delay = rng.chance(50)
        nm = 0 if (delay and rng.chance(35)) else rng.range(1, K)
        msgs = gen_exit_messages(rng, nm)
        st = {"sinks": [file_sink(enqueue=enq, compression="gz", buffering=rng.choice([-1, 1, 4096, 2]),
                                  mode=rng.choice(["a", "w"]), delay=delay),
                        stream_sink(enqueue=enq, stoppable=True, flushable=rng.chance(60))],
              "messages": msgs, "die": {"mode": rng.choice(["return", "sys_exit", "unhandled"])}}
        st.update(ENVIRONMENTS[rep % 3])
        add("exit", [st])
    # B5: an enqueued stream that REFUSES one message: with an Exception (any class: reported, the worker goes on, every
    #     other message must be written) - and, as an observation only, with SystemExit (the worker thread ends; the
    #     exit must not hang, the stream is stopped, the other handler is complete)
    SINK_ERRORS = ["ValueError", "OSError", "RuntimeError", "KeyError", "TypeError", "UnicodeEncodeError", "BrokenPipeError",
                   "EOFError", "MemoryError", "StopIteration", "AssertionError", "BlockingIOError", "Exception"]
    for rep in range(ctx.n(2, 8) * boost):
        msgs = [m for m in gen_exit_messages(rng, 8) if len(m["text"]) < 200][:5]
        exc = "SystemExit" if rep % 2 == 0 else rng.choice(SINK_ERRORS)
        st = {"sinks": [stream_sink(enqueue=True, stoppable=True, die_on=rng.range(1, max(1, len(msgs) - 1)), die_exc=exc),
                        file_sink(enqueue=True, compression="gz")],
              "messages": msgs, "die": {"mode": rng.choice(["return", "sys_exit", "unhandled"])}}
        add("exit", [st])
    # B6: records that the worker of an enqueued handler cannot rebuild (their un-pickling raises - any Exception class),
    #     followed by further messages, then every kind of normal exit: only those records may be missing
    UNPICKLE_ERRORS = ["OSError", "EOFError", "FileNotFoundError", "ConnectionResetError", "BrokenPipeError",
                       "PermissionError", "TimeoutError", "BlockingIOError", "ValueError", "KeyError", "TypeError",
                       "AttributeError", "ImportError", "ModuleNotFoundError", "RuntimeError", "RecursionError",
                       "MemoryError", "LookupError", "IndexError", "ArithmeticError", "ZeroDivisionError",
                       "UnicodeDecodeError", "StopIteration", "AssertionError", "NotImplementedError", "BufferError",
                       "UnpicklingError", "PicklingError", "Exception"]
    modes = ["return", "sys_exit", "unhandled"]
    for rep in range(ctx.n(3, 9) * boost):
        n = rng.range(4, max(4, K))
        msgs = gen_exit_messages(rng, n)
        for j in sorted({rng.range(0, n - 2) for _ in range(rng.range(1, 2))}):
            msgs[j] = dict(msgs[j], poison=rng.choice(UNPICKLE_ERRORS[:8] if rep % 3 == 0 else UNPICKLE_ERRORS),
                           shape=msgs[j].get("shape", "?") + "+unpicklable")
        st = {"sinks": [file_sink(enqueue=True, compression="gz"),
                        stream_sink(enqueue=True, stoppable=True, proxy=rng.choice([None, "getattr"]))],
              "messages": msgs, "die": {"mode": modes[rep % 3]}}
        st.update(ENVIRONMENTS[(rep // 3) % 3])
        add("exit", [st])
    # B2: the exit clause in a process FORKED after add() (daemonisation recipe: the launcher leaves with os._exit -
    #     at once, or after waiting for the child - and the forked process exits normally); handlers without
    #     enqueue, end-of-life compression / retention and a stoppable stream make the finalisation observable
    modes = ["return", "sys_exit", "unhandled"]
    for rep in range(ctx.n(1, 4) * boost):
        rng.shuffle(modes)
        for j, mode in enumerate(modes):
            n = rng.range(2, K)
            msgs = gen_exit_messages(rng, n)
            fork = {"at": rng.choice([0, 0, rng.range(0, n)]), "launcher": ["leave", "wait"][(rep + j) % 2]}
            if j % 3 == 2:
                sinks = [file_sink(retention=1), stream_sink(stoppable=True)]
                extra = dict(pre={"F.old1.log": "old one\n", "F.old2.log": "old two\n"}, old=["F.old1.log", "F.old2.log"])
            else:
                sinks = [file_sink(compression="gz"), stream_sink(stoppable=True)]
                extra = {}
            st = {"sinks": sinks, "messages": msgs, "die": {"mode": mode}, "fork": fork}
            st.update(ENVIRONMENTS[(rep + j) % 3] if rng.chance(40) else {})
            add("exit", [st], **extra)
    return cases


F7_WITNESS = {"kind": "crash", "witness": True, "stages": [{
    "sinks": [file_sink()],
    "messages": [{"text": "line1", "shape": "ascii"}, {"text": "raw-no-newline", "raw": True, "shape": "raw-no-newline"}],
    "die": {"mode": "os_exit", "k": 2}}]}


# ----------------------------------------------------------------------------- model lines
def call_tok(sink, m, text):
    """one call for the Lean driver; `text` is what the handler emitted (reported by the child)"""
    fmt = sink.get("format", "static")
    ser = bool(sink.get("serialize"))
    rot = (1 if (m.get("rot") and sink.get("rotation")) else 0) + (4 if m.get("poison") else 0)
    if ser:
        body = text[:-1] if text.endswith("\n") else text   # the JSON document is opaque to the model
        return "%d:s:0:1:%s:-" % (rot, enc(body))
    if m.get("raw"):
        return "%d:s:1:0:%s:-" % (rot, enc(m["text"]))
    if fmt != "static":
        return "%d:d:0:0:%s:-" % (rot, enc(text))
    body = m["text"]
    exc = text[len(body) + 1:] if text.startswith(body + "\n") else ""
    return "%d:s:0:0:%s:%s" % (rot, enc(body), enc(exc))


PRIMS_AT = {"rename-before": 2, "rename-after": 3, "compress": 3}



# ----------------------------------------------------------------------------- in-process grid: the two decisions of StreamSink
def grid_object(hf, sf, lb, wt, hs, ss):
    """a stream object for every combination of: flush()/stop() found by getattr (hf/hs) and/or by a static lookup
    (sf/ss), line_buffering / write_through reported.  Returns (object, call counters)."""
    calls = {"flush": 0, "stop": 0, "write": 0}

    class StaticOnly:
        """callable when looked up statically, but not an attribute of the instance"""
        def __call__(self):
            pass

        def __get__(self, obj, typ=None):
            raise AttributeError("not available on instances")

    def bump(name):
        def f(*a):
            calls[name] += 1
        return f

    ns, dyn = {"write": lambda self, m: bump("write")(), "encoding": "utf8"}, {}
    for name, has, static in (("flush", hf, sf), ("stop", hs, ss)):
        if has and static:
            ns[name] = (lambda n: (lambda self: bump(n)()))(name)
        elif has:
            dyn[name] = bump(name)                 # provided through __getattr__ only (delegation)
        elif static:
            ns[name] = StaticOnly()
    if lb:
        ns["line_buffering"] = True
    if wt:
        ns["write_through"] = True
    if dyn:
        def ga(self, n):
            if n in dyn:
                return dyn[n]
            raise AttributeError(n)
        ns["__getattr__"] = ga
    return type("GridStream", (), ns)(), calls


def run_grid(combo):
    """what StreamSink does with one grid object: (flushed after write?, stop() calls, error or None)"""
    from loguru._simple_sinks import StreamSink
    obj, calls = grid_object(*combo)
    try:
        sink = StreamSink(obj)
        sink.write("m")
        flushed = calls["flush"] >= 1
        sink.stop()
        return flushed, calls["stop"], None
    except Exception as e:      # noqa: BLE001 - whatever the sink does with the object is the observation
        return calls["flush"] >= 1, calls["stop"], type(e).__name__


def judge_grid(combo, obs):
    """direct oracle: a stream that HAS a callable flush is flushed after the write; one that has stop() is stopped once"""
    hf, sf, lb, wt, hs, ss = combo
    flushed, stops, err = obs
    out = []
    desc = "stream object (flush by getattr=%d static=%d, line_buffering=%d, write_through=%d, stop by getattr=%d static=%d)" % combo
    if hf and not flushed:
        out.append("%s: StreamSink.write returned without flushing a stream that has a callable flush()%s"
                   % (desc, " (%s)" % err if err else ""))
    if hs and not err and stops != 1:
        out.append("%s: StreamSink.stop called the stream's stop() %d times" % (desc, stops))
    if hf and hs and err:
        out.append("%s: StreamSink raised %s" % (desc, err))
    return out

# ----------------------------------------------------------------------------- judging one case
def judge(ctx, case, res, lines_out):
    """direct oracle on one finished case; appends (driver line, expectation, label) to lines_out.
    Returns a list of (what, key) violations."""
    viol = []
    stages = case["stages"]
    reps = [parse_reports(s["lines"]) for s in res["stages"]]
    files = res["files"]
    last = stages[-1]
    die = last["die"]
    for st, rp, raw in zip(stages, reps, res["stages"]):
        if raw["rc"] == "hang":
            if st["die"]["mode"] in ("return", "sys_exit", "unhandled"):
                viol.append(("interpreter exit did not terminate within %.0f s" % CHILD_TIMEOUT, None))
                return viol
            raise Hang("child did not finish: %r" % (st["die"],))
    if case["kind"] == "crash":
        if "end" in reps[-1]["flags"]:
            raise Hang("the planned death %r did not happen (the child ran to its end)" % (die,))
        for sink in last["sinks"]:
            name = sink["name"]
            # texts acked over all stages (restart cases share the file)
            acked, inflight, f7 = [], "", []
            for st, rp in zip(stages, reps):
                s2 = [x for x in st["sinks"] if x["name"] == name]
                if not s2:
                    continue
                k = st["die"].get("k", len(st["messages"]))
                if rp["acked"] < min(k, len(st["messages"])):
                    raise Hang("child died before the planned crash point: acked %d < k %d; stderr: %s"
                               % (rp["acked"], k, res["stages"][-1]["stderr"][-500:]))
                tx = rp["texts"].get(name, {})
                base = len(acked)
                acked += [tx.get(i, "") for i in range(1, k + 1)]
                f7 += [base + i for i in f7_shape(s2[0], st["messages"], tx, k)]
                if st is last:
                    inflight = tx.get(k + 1, "") if st["die"]["mode"] in ("mid", "rename", "compress") else ""
            pre = case.get("pre", {}).get(sink["path"], "")
            if sink["kind"] == "file" and "a" not in sink.get("mode", "a") and len(stages) == 1 \
                    and (not sink.get("delay") or acked or inflight):
                pre = ""                       # mode "w": open() truncates what was there (delay: at the first write)
            expected = pre + "".join(acked)
            claims = not (sink["kind"] == "file" and sink.get("buffering", 1) != 1)   # claim (a): default buffering only
            if sink["kind"] == "file":
                rotated, current, names, ok = sink_files(files, sink)
                cur = current or ""
                covered = tile(expected + inflight, rotated)
                observed = None
                if covered is not None:
                    observed = (expected + inflight)[:covered] + cur
                what = None
                if not ok:
                    what = "a rotated archive is unreadable"
                elif covered is None:
                    what = "rotated files do not hold the acked texts whole and in order"
                elif not observed.startswith(expected):
                    what = "an acked message is missing or torn on disk"
                elif not (expected + inflight).startswith(observed):
                    what = "the log holds text that no call emitted"
                if not claims and what == "an acked message is missing or torn on disk" and expected.startswith(observed):
                    what = None      # a block-buffered sink (the user's choice): only "nothing foreign, nothing reordered"
                ctx.stat("files_per_sink:%d" % len(names))
            else:
                b = files.get(sink["path"], b"")
                observed = decode(b)
                what = None
                if case.get("io_only") or not sink.get("flushable", True):
                    pass
                elif not observed.startswith(expected):
                    what = "an acked message is missing or torn in the stream's file"
                elif not (expected + inflight).startswith(observed):
                    what = "the stream's file holds text that no call emitted"
            if what is not None:
                key = None
                if sink["kind"] == "file" and f7 and observed is not None:
                    # F7 shape: everything up to the last acked text WITH a line end is there, and every
                    # missing text comes from a raw call / a dynamic format and has no line end
                    j = max([i for i in range(1, len(acked) + 1) if has_le(acked[i - 1])] or [0])
                    # (a long text may have spilled early: anything between "up to j" and "everything" qualifies)
                    if observed.startswith(pre + "".join(acked[:j])) and expected.startswith(observed) \
                            and all(i in f7 for i in range(j + 1, len(acked) + 1)):
                        key = F7_KEY
                viol.append(("%s sink %s, death %r: %s; expected %r, on disk %r"
                             % (sink["kind"], name, die, what, expected[-200:], (observed or "")[-200:]), key))
            # ---- model line (single-stage cases; restart cases pass the earlier content as `existing`)
            msgs = last["messages"]
            tx = reps[-1]["texts"].get(name, {})
            k = die.get("k", len(msgs))
            toks = [call_tok(sink, m, tx.get(i + 1, "")) for i, m in enumerate(msgs[:k + 1]) if (i + 1) in tx]
            if len(toks) < k:
                continue
            if sink["kind"] == "file":
                if len(stages) > 1:
                    k1 = stages[0]["die"]["k"]
                    t1 = reps[0]["texts"].get(name, {})
                    ex = pre + "".join(t1.get(i, "") for i in range(1, k1 + 1))
                else:
                    ex = pre if sink["path"] in case.get("pre", {}) else None
                if die["mode"] == "mid":
                    j = 99
                elif die["mode"] == "rename":
                    j = PRIMS_AT["rename-" + die["when"]]
                elif die["mode"] == "compress":
                    j = PRIMS_AT["compress"]
                else:
                    j = 0
                if any(sink.get(o) is not None for o in ("mode", "buffering", "delay", "watch", "move_after")):
                    mv = set(sink.get("move_after") or [])
                    # the call after a move finds the file gone and re-opens (flag 2 on that call's token)
                    toks = [("%d" % (int(t[0]) + 2)) + t[1:] if (sink.get("watch") and i in mv) else t
                            for i, t in enumerate(toks)]
                    line = "crashx %s %d %d 0 %d %s %d %d %d %s" % (
                        "~" if ex is None else enc(ex), 1 if sink.get("rotation") else 0,
                        1 if sink.get("compression") else 0, sink.get("buffering", 1), sink.get("mode", "a")[0],
                        1 if sink.get("delay") else 0, k, j + (1 if (sink.get("watch") and k in mv and j) else 0),
                        " ".join(toks))
                else:
                    line = "crash %s %d %d 0 %d %d %s" % (
                        "~" if ex is None else enc(ex), 1 if sink.get("rotation") else 0,
                        1 if sink.get("compression") else 0, k, j, " ".join(toks))
                rotated, current, names, ok = sink_files(files, sink)
                real = sorted(x for x in rotated if x != "") + [current or ""]
                lines_out.append((line.rstrip(), ("disk", real), case, name))
            else:
                kk = min(k + 1, len(toks)) if die["mode"] == "mid" else k   # mid: the sink wrote the text in flight
                hf, lba, wt = stream_attrs(sink)
                # how the underlying file really buffers (only matters when no flush happens)
                real_lb = 1 if (sink.get("impl") in ("line", "linewrap", "stderr")
                                or (sink.get("impl", "wrapper") == "wrapper" and sink.get("buffering", -1) == 1)) else 0
                # is flush found by a STATIC lookup (class or instance dict, no __getattr__, not a property)?
                static = 0 if (sink.get("impl") in ("proxy", "propproxy") or sink.get("proxy")) else hf
                lay = sink_layers(sink)
                if lay is not None:
                    line = "lstream %d %d %d %d %d %d %d %d %s" % (hf, static, lba, wt, lay[0], lay[1], lay[2], kk,
                                                                 " ".join(toks[:kk]))
                else:
                    line = "stream %d %d %d %d %d %d %s" % (hf, static, lba, wt, real_lb, kk, " ".join(toks[:kk]))
                lines_out.append((line.rstrip(), ("os", decode(files.get(sink["path"], b""))), case, name))
        return viol

    # ---- exit programs
    st, rp, raw = stages[0], reps[0], res["stages"][0]
    want_rc = {"return": 0, "sys_exit": 3, "unhandled": 1}[die["mode"]]
    if "end" not in rp["flags"]:
        raise Hang("exit program did not reach its end: %s" % raw["stderr"][-500:])
    fk = st.get("fork")
    if fk and fk["launcher"] == "leave":
        want_rc = 0     # the launcher left with os._exit(0); the daemon's status is not observable
    if fk and ("forked %d" % fk["at"]) not in raw["lines"]:
        raise Hang("the program did not fork: %s" % raw["stderr"][-300:])
    if raw["rc"] != want_rc:
        viol.append(("exit code %r after %s, expected %d; stderr %s" % (raw["rc"], die["mode"], want_rc, raw["stderr"][-300:]), None))
    n = len(st["messages"])
    for sink in st["sinks"]:
        name = sink["name"]
        tx = rp["texts"].get(name, {})
        expected = "".join(tx.get(i, "") for i in range(1, n + 1))
        poisoned = [i for i in range(1, n + 1) if st["messages"][i - 1].get("poison")] if sink.get("enqueue") else []
        # a record that cannot be rebuilt by the worker cannot be written (reported on stderr); every OTHER call
        # returned normally and must be in the sink, in order
        without = "".join(tx.get(i, "") for i in range(1, n + 1) if i not in poisoned)
        problems = []
        if rp["late"].get(name) != "removed":
            problems.append("handler still registered after the interpreter's exit callbacks (%r)" % rp["late"].get(name))
        if sink["kind"] == "file":
            rotated, current, names, ok = sink_files(files, sink)
            covered = tile(expected, rotated)
            observed = None if covered is None else expected[:covered] + (current or "")
            if poisoned and tile(without, rotated) is not None:
                covered = tile(without, rotated)
                observed = without[:covered] + (current or "")
                expected = without
            if not ok or covered is None or observed != expected:
                problems.append("not every message reached the files: expected %r, found %r"
                                % (expected[-160:], (observed or "")[-160:]))
            gz_eol = (sink["path"] + ".gz") in files
            plain = sink["path"] in files
            want_gz = bool(sink.get("compression")) and not sink.get("rotation")
            if sink.get("delay") and not expected and not any(i in tx for i in range(1, n + 1)):
                want_gz = False          # a delayed sink that never got a message has created nothing
                if names:
                    problems.append("a delayed sink without messages left files behind: %s" % sorted(names))
            if want_gz and (not gz_eol or plain):
                problems.append("end-of-life compression not performed (files: %s)" % sorted(names))
            if not want_gz and gz_eol:
                problems.append("unexpected end-of-life compression with a rotation configured")
            if sink.get("retention") is not None:
                left = [x for x in case.get("old", []) if x in files]
                if left:
                    problems.append("end-of-life retention not performed: %s still there" % left)
            toks = [call_tok(sink, m, tx.get(i + 1, "")) for i, m in enumerate(st["messages"])]
            for q in ([0] if poisoned else sorted({0, n, ctx.rng.range(0, n)})):
                if poisoned or any(sink.get(o) is not None for o in ("mode", "buffering", "delay")):
                    line = "exitfx %d %d %d %d %d %d %s %d - %d %s" % (
                        1 if sink.get("enqueue") else 0, 0 if st.get("fork") else 1, 1 if sink.get("rotation") else 0,
                        1 if sink.get("compression") else 0, 1 if sink.get("retention") is not None else 0,
                        sink.get("buffering", 1), sink.get("mode", "a")[0], 1 if sink.get("delay") else 0, q, " ".join(toks))
                else:
                    line = "exitf %d %d %d %d %d %d %s" % (1 if sink.get("enqueue") else 0, 0 if st.get("fork") else 1,
                                                        1 if sink.get("rotation") else 0,
                                                        1 if sink.get("compression") else 0,
                                                        1 if sink.get("retention") is not None else 0, q, " ".join(toks))
                real = {"registered": 0 if rp["late"].get(name) == "removed" else 1,
                        "eol_compressed": 1 if gz_eol else 0, "want_gz": 1 if want_gz else 0,
                        "retained": 1 if (sink.get("retention") is not None and not [x for x in case.get("old", []) if x in files]) else 0,
                        "disk": sorted(x for x in rotated if x != "") + [current or ""]}
                lines_out.append((line.rstrip(), ("exitf", real), case, name))
        else:
            observed = decode(files.get(sink["path"], b""))
            dead = sink.get("die_on")
            base_exc = sink.get("die_exc", "SystemExit") in ("SystemExit", "KeyboardInterrupt", "GeneratorExit")
            if dead is not None and sink.get("enqueue") and not base_exc:
                # the stream refused ONE message with an Exception: reported, the worker goes on - every other message
                # must be in the sink after the exit, in order
                rest = "".join(tx.get(i, "") for i in range(1, n + 1) if i != dead)
                if observed != rest:
                    problems.append("the stream raised %s for message %d; every other message must have been written: "
                                    "expected %r, found %r" % (sink["die_exc"], dead, rest[-160:], observed[-160:]))
            elif dead is not None and sink.get("enqueue"):
                # OBSERVATION, not a violation (design_notes/C09.md): a BaseException that is not an Exception ends the
                # worker thread - an interpreter-level event outside the property's quantifier.  What is still checked:
                # the exit does not hang, stop() is called, what had been written before is there, nothing foreign
                before = "".join(tx.get(i, "") for i in range(1, dead))
                if not observed.startswith(before) or not expected.startswith(observed):
                    problems.append("texts written before the worker ended are missing: expected %r…, found %r"
                                    % (before[-160:], observed[-160:]))
                ctx.stat("observation:worker-ended-by-sink-baseexception")
            elif observed != expected and not (poisoned and observed == without):
                problems.append("not every message reached the stream: expected %r, found %r"
                                % (expected[-160:], observed[-160:]))
            if sink.get("stoppable"):
                if rp["stops"].count(name) != 1:
                    problems.append("stream.stop() called %d times" % rp["stops"].count(name))
            toks = [call_tok(sink, m, tx.get(i + 1, "")) for i, m in enumerate(st["messages"])]
            refused = dead is not None and sink.get("enqueue") and not base_exc
            if refused:
                # reported and skipped by the worker, like an item it cannot read
                toks = [("%d" % (int(t[0]) | 4)) + t[1:] if i + 1 == dead else t for i, t in enumerate(toks)]
                dead = None
            for q in ([0] if (poisoned or refused) else sorted({0, n})):
                hf = 1 if sink.get("flushable", True) else 0
                hs = 1 if sink.get("stoppable") else 0
                delegated = bool(sink.get("proxy"))
                line = "exitsx %d %d %d %d %d %d %s %d %s" % (
                    1 if sink.get("enqueue") else 0, 0 if st.get("fork") else 1, hf, 0 if delegated else hf,
                    hs, 0 if delegated else hs,
                    "-" if (dead is None or not sink.get("enqueue")) else str(min(dead - 1, n)), q, " ".join(toks))
                real = {"registered": 0 if rp["late"].get(name) == "removed" else 1,
                        "stops": rp["stops"].count(name), "os": observed, "flushable": hf}
                lines_out.append((line.rstrip(), ("exits", real), case, name))
        for pr in problems:
            viol.append(("%s sink %s (enqueue=%s) after %s: %s" % (sink["kind"], name, bool(sink.get("enqueue")), die["mode"], pr), None))
    return viol


def compare_model(kind_real, out):
    """does the model's output line agree with what was observed?  returns None or a description"""
    kind, real = kind_real
    p = out.split(" ")
    if p[0] != "ok":
        return "model answered %r" % out
    if kind == "disk":
        disk = [dec(x) for x in p[2:]]
        model = sorted(x for x in disk[:-1] if x != "") + [disk[-1] if disk else ""]
        pend = dec(p[1])
        if model != real and pend and len(pend) > 4096 and model[:-1] == real[:-1] and real[-1].startswith(model[-1]) \
                and (model[-1] + pend).startswith(real[-1]):
            return None     # a size-driven spill of CPython's layers: any prefix of the pending text (theorem f7_window)
        return None if model == real else "files on disk: model %r, observed %r" % ([x[-80:] for x in model], [x[-80:] for x in real])
    if kind == "os":
        return None if dec(p[2]) == real else "stream file: model %r, observed %r" % (dec(p[2])[-120:], real[-120:])
    if kind == "exitf":
        registered, stopped, hung, opened, comps, rets = int(p[1]), p[2], p[3], p[4], int(p[5]), int(p[6])
        disk = [dec(x) for x in p[8:]]
        model = sorted(x for x in disk[:-1] if x != "") + [disk[-1] if disk else ""]
        bad = []
        if registered != real["registered"]:
            bad.append("registered: model %d observed %d" % (registered, real["registered"]))
        if model != real["disk"]:
            bad.append("disk: model %r observed %r" % ([x[-60:] for x in model], [x[-60:] for x in real["disk"]]))
        if hung != "0" or opened != "0" or stopped != "1" or dec(p[7]) != "":
            bad.append("model: stopped=%s hung=%s open=%s pending=%r" % (stopped, hung, opened, dec(p[7])))
        return "; ".join(bad) or None
    if kind == "exits":
        registered, stopped, hung, stops = int(p[1]), p[2], p[3], int(p[4])
        bad = []
        if registered != real["registered"]:
            bad.append("registered: model %d observed %d" % (registered, real["registered"]))
        if stops != real["stops"]:
            bad.append("stop() calls: model %d observed %d" % (stops, real["stops"]))
        mos = dec(p[6]) + ("" if real.get("flushable", 1) else dec(p[5]))   # no flush(): the user's stop() closes the file
        if mos != real["os"]:
            bad.append("stream file: model %r observed %r" % (mos[-100:], real["os"][-100:]))
        if hung != "0" or stopped != "1" or (dec(p[5]) != "" and real.get("flushable", 1)):
            bad.append("model: stopped=%s hung=%s pending=%r" % (stopped, hung, dec(p[5])))
        return "; ".join(bad) or None
    return "unknown kind"


def model_extra_exit(kind_real, out):
    """end-of-life compression / retention counters of the model vs the directory (exit programs)"""
    kind, real = kind_real
    if kind != "exitf":
        return None
    p = out.split(" ")
    if p[0] != "ok":
        return None
    return p


# ----------------------------------------------------------------------------- run
def strip_case(case):
    return {k: v for k, v in case.items() if k in ("kind", "stages", "pre", "old", "io_only", "witness")}


def case_key(case):
    return json.dumps(strip_case(case), sort_keys=True, ensure_ascii=True)


def execute(ctx, cases, root, child_py, workers=12):
    results = [None] * len(cases)
    with concurrent.futures.ThreadPoolExecutor(max_workers=workers) as ex:
        futs = {ex.submit(run_case, root, child_py, c): i for i, c in enumerate(cases)}
        for f in concurrent.futures.as_completed(futs):
            results[futs[f]] = f.result()
    return results


def load_corpus():
    d = os.path.join(core.VERIF, "corpus", PROP)
    out = []
    try:
        names = sorted(os.listdir(d))
    except OSError:
        return out
    for n in names:
        if n.endswith(".json"):
            with open(os.path.join(d, n), encoding="utf8") as f:
                out.append(json.load(f))
    return out


def run(ctx):
    root = tempfile.mkdtemp(prefix="c09_")
    try:
        child_py = os.path.join(root, "_child.py")
        with open(child_py, "w", encoding="utf8") as f:
            f.write(CHILD_SRC)
        corpus = load_corpus()
        cases = [F7_WITNESS] + corpus + gen_cases(ctx)
        ctx.stat("corpus_cases", len(corpus))
        t0 = time.time()
        results = execute(ctx, cases, root, child_py)
        ctx.stat("child_processes", sum(len(c["stages"]) for c in cases))
        ctx.note("real-process stream: %d processes in %.1f s" % (sum(len(c["stages"]) for c in cases), time.time() - t0))
        lines = []
        for case, res in zip(cases, results):
            die = case["stages"][-1]["die"]
            k = die.get("k", len(case["stages"][-1]["messages"]))
            ctx.case(case_key(case), nontrivial=(k >= 1))
            ctx.stat("die:" + die["mode"])
            ctx.stat("kind:" + case["kind"])
            for st in case["stages"]:
                for m in st["messages"][:k if case["kind"] == "crash" else None]:
                    ctx.stat("shape:" + m.get("shape", "?"))
                if st.get("fork"):
                    ctx.stat("fork:launcher-%s" % st["fork"]["launcher"])
                ctx.stat("env:" + ("no-stderr" if st.get("close_stderr") else
                                   ",".join("%s=%s" % kv for kv in sorted(st.get("env", {}).items())) or "default"))
                for s in st["sinks"]:
                    if s["kind"] == "stream":
                        ctx.stat("stream_impl:" + s.get("impl", "wrapper") + ("+proxy-" + s["proxy"] if s.get("proxy") else ""))
                    if s.get("gated"):
                        ctx.stat("gated_sink")
                    ctx.stat("sink:%s%s%s%s" % (s["kind"], "+enqueue" if s.get("enqueue") else "",
                                                "+rotation" if s.get("rotation") else "",
                                                "+compression" if s.get("compression") else ""))
            viol = judge(ctx, case, res, lines)
            if case.get("witness"):
                # known finding F7: probed on every run
                if not viol:
                    ctx.note("F7 witness no longer reproduces: the raw text without newline was durable")
                    ctx.stat("f7_witness_not_reproduced")
            for what, key in viol:
                if key in PENDING_FINDINGS:
                    ctx.stat("pending_finding:" + key)
                    if not any(key in x for x in getattr(ctx, "notes", [])):
                        ctx.note("pending finding %s (not reported as a violation yet): %s" % (key, what[:300]))
                    continue
                ctx.violation(what, {"case": strip_case(case)}, key=key)
            ctx.sample({"kind": case["kind"], "die": die, "sinks": [s["name"] + ":" + s["kind"] for s in case["stages"][-1]["sinks"]],
                        "shapes": [m.get("shape") for m in case["stages"][-1]["messages"]]})
        # ---- in-process grid over everything a stream object may expose (64 objects)
        grid = []
        for n in range(64):
            combo = tuple((n >> b) & 1 for b in range(6))
            obs = run_grid(combo)
            ctx.case("grid:%d" % n, nontrivial=bool(combo[0] or combo[4]))
            ctx.stat("grid_objects")
            for what in judge_grid(combo, obs):
                ctx.violation(what, {"case": {"kind": "grid", "combo": list(combo)}})
            grid.append((combo, obs))
        # ---- correspondence with the Lean model
        drv = core.Driver(DRIVER)
        gout = drv.run(["kern %d %d %d %d %d %d" % c for c, _ in grid])
        for (combo, obs), o in zip(grid, gout):
            ctx.traces_validated += 1
            ctx.evaluations += 1
            p = o.split(" ")
            if obs[2] is None and (p[0] != "ok" or int(p[1]) != (1 if obs[0] else 0) or int(p[2]) != obs[1]):
                ctx.broke("correspondence Buffer model", "kern %r -> %s, observed %r" % (combo, o, obs))
                ctx.violation("implementation and model disagree on what StreamSink does with a stream object %r: "
                              "model %s, observed flushed=%s stop()=%d" % (combo, o, obs[0], obs[1]),
                              {"case": {"kind": "grid", "combo": list(combo)}}, kind="correspondence")
                break
        out = drv.run([l for l, _, _, _ in lines])
        dis = 0
        for (line, kr, case, name), o in zip(lines, out):
            ctx.traces_validated += 1
            ctx.evaluations += 1
            bad = compare_model(kr, o)
            if kr[0] == "exitf" and bad is None:
                p = o.split(" ")
                sink = [s for s in case["stages"][0]["sinks"] if s["name"] == name][0]
                # the model counts compression / retention calls; rotations during the run add to them,
                # the end-of-life one is the difference to a run without stop (not observable) - compare
                # the end-of-life effect itself
                want_gz = kr[1].get("want_gz", 1 if (sink.get("compression") and not sink.get("rotation")) else 0)
                if kr[1]["eol_compressed"] != want_gz:
                    bad = "end-of-life compression: observed %d" % kr[1]["eol_compressed"]
                nrot = sum(1 for m in case["stages"][0]["messages"] if m.get("rot")) if sink.get("rotation") else 0
                mcomp = int(p[5])
                if bad is None and mcomp != (nrot if sink.get("compression") else 0) + want_gz:
                    bad = "model compressions %d, expected %d rotations + %d end-of-life" % (mcomp, nrot, want_gz)
                if bad is None and sink.get("retention") is not None and (int(p[6]) >= 1) != bool(kr[1]["retained"]):
                    bad = "retention: model %s, observed %d" % (p[6], kr[1]["retained"])
            if bad is not None:
                f7case = any(m.get("shape") == "raw-no-newline" for st in case["stages"] for m in st["messages"])
                dis += 1
                ctx.stat("disagreements")
                io_only = case.get("io_only") or any(
                    (not s.get("flushable", True)) or (s["kind"] == "file" and s.get("buffering", 1) != 1 and case["kind"] == "crash")
                    or (s.get("die_on") is not None and s.get("die_exc", "SystemExit") == "SystemExit")
                    for s in case["stages"][-1]["sinks"] if s["name"] == name)
                if io_only:
                    ctx.broke("correspondence CPython-io (TextFile model)", "%s -> %s: %s" % (line[:200], o[:200], bad))
                else:
                    ctx.broke("correspondence Buffer model", "%s -> %s: %s" % (line[:200], o[:200], bad))
                    ctx.violation("implementation and model disagree (sink %s): %s" % (name, bad),
                                  {"case": strip_case(case)}, kind="correspondence")
                if dis > 10:
                    break
        if ctx.broken:
            seen, uniq = set(), []
            for b in ctx.broken:
                if b["name"] not in seen:
                    seen.add(b["name"])
                    uniq.append(b)
            ctx.broken[:] = uniq
    finally:
        shutil.rmtree(root, ignore_errors=True)


def replay(ctx, rep):
    r = rep["replay"]
    case = r["case"]
    if case.get("kind") == "grid":
        combo = tuple(case["combo"])
        obs = run_grid(combo)
        viol = judge_grid(combo, obs)
        print("grid object %r: flushed=%s stop()=%d error=%s" % (combo, obs[0], obs[1], obs[2]))
        for w in viol:
            print("oracle:", w)
        bad = bool(viol)
        try:
            core.extract()
            core.lean_build(["LoguruModel.Buffer.Layers"], timeout=600)
            o = core.Driver(DRIVER).run(["kern %d %d %d %d %d %d" % combo])[0]
            p = o.split(" ")
            if obs[2] is None and (p[0] != "ok" or int(p[1]) != (1 if obs[0] else 0) or int(p[2]) != obs[1]):
                print("model vs implementation: model %s" % o)
                bad = True
        except core.DriverError as e:
            print("model driver does not run (broken tie G): %s" % str(e).splitlines()[0])
        print("REPRODUCED" if bad else "not reproduced")
        return 1 if bad else 0
    root = tempfile.mkdtemp(prefix="c09r_")
    try:
        child_py = os.path.join(root, "_child.py")
        with open(child_py, "w", encoding="utf8") as f:
            f.write(CHILD_SRC)
        res = run_case(root, child_py, case)
        lines = []
        viol = judge(ctx, case, res, lines)
        print("case: %s, death %r" % (case["kind"], case["stages"][-1]["die"]))
        for i, st in enumerate(res["stages"]):
            print("stage %d: rc=%r reports=%d" % (i, st["rc"], len(st["lines"])))
        print("files:", {k: len(v) for k, v in res["files"].items()})
        for what, key in viol:
            print("oracle:", what, ("[%s]" % key if key else ""))
        viol = [(w, k) for w, k in viol if k not in PENDING_FINDINGS]
        bad_model = []
        if lines:
            try:
                core.extract()   # the model must speak about the tree under replay, not about the last one checked
                core.lean_build(["LoguruModel.Buffer.Layers"], timeout=600)
                out = core.Driver(DRIVER).run([l for l, _, _, _ in lines])
            except core.DriverError as e:
                print("model driver does not run (broken tie G): %s" % str(e).splitlines()[0])
                out = []
            for (line, kr, _c, name), o in zip(lines, out):
                b = compare_model(kr, o)
                if b:
                    bad_model.append((name, b))
                    print("model vs implementation (%s): %s" % (name, b))
        bad = bool(viol) or bool(bad_model)
        print("REPRODUCED" if bad else "not reproduced")
        return 1 if bad else 0
    finally:
        shutil.rmtree(root, ignore_errors=True)
