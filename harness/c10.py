"""C10 – retention deletes only the sink's own family of files and keeps exactly what the policy says
(DESIGN §4 C10)."""
import datetime as pydt
import fnmatch as py_fnmatch
import glob as py_glob
import json
import os
import posixpath
import re
import shutil
import string
import tempfile
import time
import types
import warnings

from harness import core
from harness.core import enc, dec

PROP = "C10"
LEAN_TARGETS = ["LoguruModel.Props.C10"]
AUDIT_FILE = "LoguruModel/Audit/C10.lean"
DRIVER = "C10"
RULE = ("(configured path, directory population, policy) triples: paths over the alphabet "
        "a b . [ ] * ? ! - {{ }} space with {time…} fields and 0-2 directory components; populations of family "
        "members (decorated before/after the extension, fields instantiated), look-alike neighbours (names a "
        "non-escaped metacharacter would match, other extension, missing dot, prefixes/suffixes, same name in a "
        "sub/parent directory), directories, symlinks (to file, directory, FIFO, nothing), FIFOs, bound unix sockets "
        "and character devices named like logs, mtimes with ties; policy = count N, "
        "duration in every documented spelling incl. fractional values, ms/us units and timedeltas with a "
        "microsecond part (frozen clock; file ages on both sides of the exact limit from 1 ms to hours, inside the "
        "sub-second part of the duration, and the limit itself) or callable, triggered by a rotation or by "
        "stop()/remove().  non-trivial = population has >= 1 family file and >= 1 non-family look-alike and the "
        "path contains a metacharacter, a field or several dots; distinct by (path, population, policy).  "
        "Histories: one long-lived sink through 2-4 rotations (+ stop, also twice), between the passes files are "
        "modified again (order flips, ages cross the limit), appear, disappear, the clock advances; every pass is "
        "judged on the directory as it is at that pass; the targets of symbolic links (outside the directory) must "
        "stay untouched.  Own names: _create_path / generate_rename_path on generated templates.  "
        "Stdlib/model streams: (pattern, name) pairs for fnmatch / glob.escape / splitext / glob.glob and "
        "templates for string.Formatter().parse / _make_glob_patterns, distinct by input")
TRUSTED = [
    "Py/Glob.lean (fnmatch.translate incl. 3.12 range chunks, glob.escape, splitext, glob component walk) is "
    "modelled, validated against the real stdlib functions on every run (exhaustive to length 4-5 in thorough)",
    "Retention/FormatterParse.lean transcribes _string.formatter_parser by hand; validated against "
    "string.Formatter().parse on every run",
    "file-system semantics (listing, isfile, remove, mtime) are the real ones in the end-to-end stream, absent "
    "from the theorems; mtimes are exact integers in the model (floats in the code)",
    "Retention/Collect.lean models a set as a duplicate-free list in first-occurrence order (Python's order is "
    "unspecified; count_independent_of_collection_order shows the order cannot matter); the directory of a history "
    "holds one entry per name; what a {time} field renders to is a parameter of created_path_in_family / "
    "renamed_path_in_family (non-empty, no '/', for the rename no '.')",
]
ASSUMPTIONS = ["generated duration spellings denote a whole number of microseconds (float rounding inside "
               "parse_duration cannot move them); file ages differ from the limit by >= 1 ms unless exactly representable",
               "POSIX, case-sensitive non-normalising file system", "{time} formats producing '/' are excluded",
               "nobody else creates files in the directory during retention",
               "at the duration threshold itself (mtime == now - d) the file is removed, as the code's <= says"]

ALPHA = ["a", "b", ".", "[", "]", "*", "?", "!", "-", "{", "}", " "]


class SafeDriver:
    """the model driver; when it no longer runs (a Generated definition is absent because the extractor
    failed closed, or the model does not build) the tie is reported as broken ONCE and the
    model-independent oracles keep running"""

    def __init__(self, ctx):
        self.ctx, self.drv, self.dead = ctx, core.Driver(DRIVER), False

    def run(self, lines):
        if self.dead:
            return None
        try:
            return self.drv.run(lines)
        except core.DriverError as e:
            self.dead = True
            self.ctx.broke("driver:C10 (model does not run)", str(e))
            return None


# ----------------------------------------------------------------------------- the property's own words
def template_tokens(path):
    """[('lit', ch) | ('field',)] via Python's own format-string parser (the property speaks of fields of
    the configured path).  ValueError for a malformed template."""
    out = []
    for text, name, _spec, _conv in string.Formatter().parse(path):
        out.extend(("lit", ch) for ch in text)
        if name is not None:
            out.append(("field",))
    return out


def _rx(tokens):
    return "".join(re.escape(t[1]) if t[0] == "lit" else "[^/]*" for t in tokens)


def _split_segments(tokens):
    segs, cur = [], []
    for t in tokens:
        if t == ("lit", "/"):
            segs.append(cur)
            cur = []
        else:
            cur.append(t)
    segs.append(cur)
    return segs


def _file_ext_split(file_toks):
    """(root, ext) of the file-name template: last '.' that has a non-dot token before it"""
    dots = [i for i, t in enumerate(file_toks) if t == ("lit", ".")]
    if not dots:
        return file_toks, []
    d = dots[-1]
    if any(t != ("lit", ".") for t in file_toks[:d]):
        return file_toks[:d], file_toks[d:]
    return file_toks, []


ANY = r"\.[^/]*"


def family_info(path):
    """compiled description of the family of `path` (executable form of the property statement)"""
    toks = template_tokens(path)
    segs = _split_segments(toks)
    dirs = [s for s in segs[:-1] if s]
    f = segs[-1]
    root, ext = _file_ext_split(f)
    variants = [_rx(f), _rx(f) + ANY]
    if ext:
        variants += [_rx(root) + ANY + _rx(ext), _rx(root) + ANY + _rx(ext) + ANY]
    return {"abs": path.startswith("/"), "dirs": [re.compile(_rx(d), re.S) for d in dirs],
            "file": [re.compile(v, re.S) for v in variants], "dir_toks": dirs, "file_toks": f,
            "file_empty": not f}


def _name_comps(name):
    return [c for c in name.split("/") if c]


def in_family(info, name):
    comps = _name_comps(name)
    if info["file_empty"]:
        # degenerate configured path ending in '/': decorated forms of the empty file name
        nd = len(info["dirs"])
        if name.startswith("/") != info["abs"]:
            return False
        if len(comps) == nd:
            return all(r.fullmatch(c) for r, c in zip(info["dirs"], comps))
        if len(comps) == nd + 1:
            return all(r.fullmatch(c) for r, c in zip(info["dirs"], comps)) and comps[-1].startswith(".")
        return False
    if name.startswith("/") != info["abs"] or len(comps) != len(info["dirs"]) + 1:
        return False
    if not all(r.fullmatch(c) for r, c in zip(info["dirs"], comps)):
        return False
    return any(r.fullmatch(comps[-1]) for r in info["file"])


def is_managed(info, name):
    """family member that glob can select at all: no component starting with '.' where the template
    component starts with a field (glob's hidden-file rule; DESIGN `patterns_complete` side condition)"""
    if not in_family(info, name):
        return False
    comps = _name_comps(name)
    tcs = info["dir_toks"] + [info["file_toks"]]
    for tc, c in zip(tcs, comps):
        if c.startswith(".") and tc and tc[0] == ("field",):
            return False
    return True


# ----------------------------------------------------------------------------- generators
def gen_text(rng, lo, hi, alpha=ALPHA):
    return "".join(rng.choice(alpha) for _ in range(rng.range(lo, hi)))


FIELD_FORMS = ["{time}", "{time:YYYY}", "{time:YYYY-MM-DD}", "{time:HH}", "{time!s}", "{time:[a.b]}", "{time:x}"]
COMP_ALPHA = ["a", "b", ".", "[", "]", "*", "?", "!", "-", "{{", "}}", " ", "a", "b", ".", "log", "[ab]", "[!a]", "*."]


def gen_component(rng, fields=True, nmax=5):
    while True:
        parts = []
        for _ in range(rng.range(1, nmax)):
            if fields and rng.chance(12):
                parts.append(rng.choice(FIELD_FORMS))
            else:
                parts.append(rng.choice(COMP_ALPHA))
        s = "".join(parts)
        lit = s.replace("{{", "{").replace("}}", "}")
        if lit in (".", "..") or not s:
            continue
        return s


def gen_path(rng):
    ndir = rng.choice([0, 0, 0, 1, 1, 2])
    comps = [gen_component(rng, fields=rng.chance(30), nmax=3) for _ in range(ndir)]
    style = rng.below(10)
    if style < 4:
        f = gen_component(rng, nmax=6)
    elif style < 7:
        f = gen_component(rng, nmax=3) + "." + rng.choice(["log", "l", "a[b]", "*", "{time}", "b.a", "?"])
    elif style < 9:
        f = rng.choice(["file", "a", "app", "f*", "f[1]", "x?"]) + rng.choice(["", ".{time}", "_{time}", "{time}"]) \
            + rng.choice([".log", "", ".log.txt", ".l"])
    else:
        f = rng.choice([".hidden", "..a", ".a.b", "a.", "a..b", "{time}", "{time}.log", ".{time}"])
    return "/".join(comps + [f])


def gen_malformed_template(rng):
    base = gen_text(rng, 0, 6, ALPHA + ["{", "}", ":", "!", "[", "time"])
    return base


def instantiate(rng, toks, filler=None):
    """a concrete text for a token list: fields replaced by arbitrary slash-free text"""
    out = []
    for t in toks:
        if t[0] == "lit":
            out.append(t[1])
        else:
            out.append(rng.choice(["", "2020", "x", "2020-01-01", "a.b", ".", "9", "[", "*"]) if filler is None else filler)
    return "".join(out)


# ----------------------------------------------------------------------------- stdlib vs model (stream i)
def py_fn(name, pat):
    try:
        with warnings.catch_warnings():
            warnings.simplefilter("ignore")
            return "1" if py_fnmatch.fnmatchcase(name, pat) else "0"
    except re.error:
        return "re.error"


def stream_stdlib(ctx, drv, rng):
    lines, exp, what = [], [], []

    def add(line, expected, descr):
        lines.append(line)
        exp.append(expected)
        what.append(descr)

    # exhaustive part
    import itertools
    kmax = ctx.n(3, 4)
    names_ex = [""] + ["".join(t) for k in (1, 2) for t in itertools.product("ab.[]*?!-", repeat=k)]
    if ctx.quick:
        names_ex = [n for i, n in enumerate(names_ex) if i % 5 == ctx.seed % 5 or len(n) < 2]
    pats_ex = ["".join(t) for k in range(0, kmax + 1) for t in itertools.product("ab[]!-*?.", repeat=k)]
    if ctx.quick:
        pats_ex = [p for i, p in enumerate(pats_ex) if len(p) < 3 or (i + ctx.seed) % 3 == 0]
    cnt = 0
    for p in pats_ex:
        for n in (names_ex if len(p) <= 3 or not ctx.quick else names_ex[::3]):
            add("fn %s %s" % (enc(p), enc(n)), py_fn(n, p), ("fnmatch", p, n))
            cnt += 1
    ctx.stat("stdlib_fnmatch_exhaustive", cnt)
    # random longer patterns (bracket expressions with ranges, negations, hyphen runs)
    n_rand = ctx.n(6000, 200000)
    pal = ["a", "b", "c", ".", "[", "]", "*", "?", "!", "-", "{", "}", " ", "[", "]", "-", "a-c", "[!", "[]", "\\", "^", "&", "~", "|"]
    nal = ["a", "b", "c", ".", "[", "]", "*", "?", "!", "-", "{", "}", " ", "\\", "^", "&", "~", "|", "d"]
    for _ in range(n_rand):
        p = gen_text(rng, 1, 8, pal)
        if rng.chance(50):
            n = gen_text(rng, 0, 4, nal)
        else:
            # a name derived from the pattern so that matches are not rare
            n = "".join(rng.choice(nal) if ch in "*?[]!-" and rng.chance(70) else ch for ch in p if not (ch in "[]" and rng.chance(50)))
        add("fn %s %s" % (enc(p), enc(n)), py_fn(n, p), ("fnmatch", p, n))
    ctx.stat("stdlib_fnmatch_random", n_rand)
    # escape / splitext
    n_es = ctx.n(1500, 40000)
    for _ in range(n_es):
        s = gen_text(rng, 0, 7, ALPHA + ["/", ".", "/"])
        add("esc %s" % enc(s), enc(py_glob.escape(s)), ("escape", s))
        r, e = posixpath.splitext(s)
        add("sx %s" % enc(s), "%s %s" % (enc(r), enc(e)), ("splitext", s))
        # the stdlib itself: an escaped component matches exactly the text it was made from
        comp = s.replace("/", "")
        other = gen_text(rng, 0, 7, ALPHA) if rng.chance(60) else comp
        got = py_fn(other, py_glob.escape(comp))
        ctx.case(("escape-self", comp, other))
        if got != ("1" if other == comp else "0"):
            ctx.broke("stdlib: fnmatchcase(%r, glob.escape(%r)) = %s" % (other, comp, got))
    ctx.stat("stdlib_escape_splitext", 2 * n_es)
    # glob.glob on a real tree
    n_tree = ctx.n(25, 400)
    base = tempfile.mkdtemp(prefix="c10g_")
    cwd = os.getcwd()
    try:
        os.chdir(base)
        for ti in range(n_tree):
            root = "t%d" % ti
            os.mkdir(root)
            entries = set()
            dal = ["a", "b", ".", "[", "]", "*", "?", "!", "-", " ", "a", "ab"]
            for _ in range(rng.range(3, 9)):
                depth = rng.range(1, 3)
                comps = []
                for _d in range(depth):
                    c = gen_text(rng, 1, 3, dal)
                    if c in (".", ".."):
                        c = "a" + c
                    comps.append(c)
                # create directories for the prefix, a file (or dir) at the end
                p = root
                ok = True
                for c in comps[:-1]:
                    p = p + "/" + c
                    if os.path.lexists(p) and not os.path.isdir(p):
                        ok = False
                        break
                    if not os.path.lexists(p):
                        os.mkdir(p)
                    entries.add(p)
                if not ok:
                    continue
                p = p + "/" + comps[-1]
                if not os.path.lexists(p):
                    if rng.chance(25):
                        os.mkdir(p)
                    else:
                        open(p, "w").close()
                entries.add(p)
            ents = sorted(entries)
            for _ in range(ctx.n(12, 30)):
                # pattern: a (possibly escaped, possibly wildcarded) version of an entry, or random
                if ents and rng.chance(75):
                    e = rng.choice(ents)
                    comps = e.split("/")[1:]
                    pc = []
                    for c in comps:
                        k = rng.below(6)
                        if k == 0:
                            pc.append(py_glob.escape(c))
                        elif k == 1:
                            pc.append(c)
                        elif k == 2:
                            pc.append("*")
                        elif k == 3:
                            pc.append(py_glob.escape(c[:1]) + "*")
                        elif k == 4:
                            pc.append("".join("?" if rng.chance(40) else py_glob.escape(ch) for ch in c))
                        else:
                            pc.append(gen_text(rng, 1, 4, dal + ["*", "?", "[", "]"]))
                    sep = "//" if rng.chance(8) else "/"
                    pat = root + sep + "/".join(pc)
                else:
                    pat = root + "/" + "/".join(gen_text(rng, 1, 4, dal + ["*", "?"]) for _ in range(rng.range(1, 2)))
                if pat.endswith("/") or any(c in (".", "..") for c in pat.split("/")):
                    continue
                try:
                    with warnings.catch_warnings():
                        warnings.simplefilter("ignore")
                        real = sorted(set(posixpath.normpath(r) for r in py_glob.glob(pat)))
                except re.error:
                    continue
                for e in ents:
                    add("pm %s %s" % (enc(pat), enc(e)), "1" if e in real else "0", ("glob", pat, e))
                ctx.stat("stdlib_glob_patterns")
        os.chdir(cwd)
    finally:
        os.chdir(cwd)
        shutil.rmtree(base, ignore_errors=True)
    out = drv.run(lines)
    if out is None:
        return
    bad = 0
    for l, e, o, w in zip(lines, exp, out, what):
        ctx.case(w, nontrivial=(e == "1" or w[0] in ("escape", "splitext")))
        if e == "re.error":
            ctx.stat("stdlib_re_error")
            continue
        if e != o:
            bad += 1
            if bad <= 3:
                ctx.broke("correspondence Py.Glob vs stdlib (%s)" % w[0], "%r: python %s, model %s" % (w, e, o))
    ctx.stat("stdlib_lines", len(lines))
    ctx.stat("stdlib_disagreements", bad)


# ----------------------------------------------------------------------------- _make_glob_patterns (stream ii)
def impl_patterns(path):
    from loguru._file_sink import FileSink
    try:
        return "ok " + " ".join(enc(p) for p in FileSink._make_glob_patterns(path))
    except Exception as e:  # noqa
        return "err " + core.err_kind(e)


def py_parse(path):
    try:
        toks = template_tokens(path)
    except ValueError:
        return "err ValueError"
    return "ok " + (".".join("F" if t[0] == "field" else "%x" % ord(t[1]) for t in toks) or "-")


def expected_patterns(path):
    """the four patterns as the property implies them, computed from the template (oracle for stream ii):
    escaped text, + '.*', '.*' before the extension, both"""
    toks = template_tokens(path)
    esc = "".join(py_glob.escape(t[1]) if t[0] == "lit" else "*" for t in toks)
    segs = _split_segments(toks)
    root, ext = _file_ext_split(segs[-1])
    if not ext:
        return [esc, esc + ".*"]
    e = "".join(py_glob.escape(t[1]) if t[0] == "lit" else "*" for t in ext)
    r = esc[:len(esc) - len(e)]
    return [esc, esc + ".*", r + ".*" + e, r + ".*" + e + ".*"]


def stream_patterns(ctx, drv, rng):
    lines, exp, paths = [], [], []
    n = ctx.n(2500, 80000)
    for i in range(n):
        k = rng.below(10)
        if k == 0:
            path = gen_malformed_template(rng)
            ctx.stat("templates_malformed_gen")
        elif k == 1:
            path = gen_text(rng, 0, 7, ALPHA + ["/", "{time}", "{}", "{0}", "{a[}]}", "{time:{x}}", "{{", "}}", "{time!r}", "{time!r:x}"])
        else:
            path = gen_path(rng)
        got = impl_patterns(path)
        lines.append("pats %s" % enc(path))
        exp.append(got)
        paths.append(("patterns", path))
        lines.append("parse %s" % enc(path))
        exp.append(py_parse(path))
        paths.append(("parse", path))
        if got.startswith("ok"):
            # the three readings of "family" / "managed" agree: regex oracle of the harness, Lean Spec
            toks_p = template_tokens(path)
            segs_p = _split_segments(toks_p)
            root_p, ext_p = _file_ext_split(segs_p[-1])
            head = [t for sg in segs_p[:-1] for t in sg + [("lit", "/")]]
            for _ in range(2):
                x, y = rng.choice(DECOR), rng.choice(DECOR)
                k = rng.below(6)
                if k == 0:
                    name = instantiate(rng, toks_p)
                elif k == 1:
                    name = instantiate(rng, toks_p) + "." + y
                elif k == 2:
                    name = instantiate(rng, head + root_p) + "." + x + instantiate(rng, ext_p)
                elif k == 3:
                    name = instantiate(rng, head + root_p) + "." + x + instantiate(rng, ext_p) + "." + y
                elif k == 4:
                    name = instantiate(rng, toks_p, ".") + rng.choice(["", ".", "x"])
                else:
                    name = instantiate(rng, toks_p, "T")
                    if name:
                        i_ = rng.below(len(name))
                        name = name[:i_] + rng.choice(["a", ".", "[", "/", ""]) + name[i_ + 1:]
                if "//" in name or name.endswith("/") or not path or path.endswith("/") or "//" in path \
                        or any(c in (".", "..") for c in name.split("/")):
                    continue
                info_p = family_info(path)
                lines.append("fam %s %s" % (enc(path), enc(name)))
                exp.append("1" if in_family(info_p, name) else "0")
                paths.append(("family", (path, name)))
                lines.append("mgd %s %s" % (enc(path), enc(name)))
                exp.append("1" if is_managed(info_p, name) else "0")
                paths.append(("managed", (path, name)))
            ctx.stat("templates_ok")
            want = "ok " + " ".join(enc(p) for p in expected_patterns(path))
            if want != got:
                # not by itself a failing input (another list may denote the same family): broken tie
                ctx.stat("pattern_list_not_canonical")
                ctx.broke("pattern list is not the canonical one (template, +'.*', '.*' before the extension, both)",
                          "_make_glob_patterns(%r) = %r, canonical %r"
                          % (path, [dec(x) for x in got.split()[1:]], [dec(x) for x in want.split()[1:]]))
        else:
            ctx.stat("templates_" + got.split()[1])
    out = drv.run(lines)
    if out is None:
        return
    for (kind, path), e, o in zip(paths, exp, out):
        ctx.case((kind, path), nontrivial=(e == "1") if kind in ("family", "managed") else
                 (e.startswith("ok") and any(c in path for c in "[]*?{.")))
        if e != o:
            if kind in ("family", "managed"):
                ctx.broke("correspondence Retention.Spec.%s vs the harness's regex oracle" % ("familyB" if kind == "family" else "managedB"),
                          "path %r name %r: harness %s, Lean %s" % (path[0], path[1], e, o))
            elif kind == "parse":
                ctx.broke("correspondence FormatterParse vs string.Formatter().parse", "%r: python %s model %s" % (path, e, o))
            else:
                ctx.broke("correspondence makeGlobPatterns", "%r: impl %s model %s" % (path, e, o))
                ctx.violation("FileSink._make_glob_patterns(%r) differs from the model: impl %s, model %s"
                              % (path, e, o), {"stream": "patterns", "path": path}, kind="correspondence")


# ----------------------------------------------------------------------------- durations in every spelling
# unit spellings of parse_duration with their exact length in microseconds (calendar units left out:
# the code's month is 365/12 days, the property does not fix one)
UNIT_SPELLINGS = [
    (["us", "microsecond", "microseconds"], 1),
    (["ms", "millisecond", "milliseconds"], 1000),
    (["s", "sec", "secs", "second", "seconds"], 10**6),
    (["min", "mins", "minute", "minutes"], 60 * 10**6),
    (["h", "hour", "hours"], 3600 * 10**6),
    (["d", "day", "days"], 86400 * 10**6),
    (["w", "week", "weeks"], 7 * 86400 * 10**6),
]


def _num_text(rng, unit_us, small):
    """(text, exact value in microseconds) of one `<number> <unit>` item; the product is a whole number of
    microseconds by construction (so float rounding inside parse_duration cannot move it)"""
    if unit_us == 1:
        v = rng.choice([1, 250, 500, 999, 1500, 250000, 700000, rng.range(1, 999999)])
        return str(v), v
    if unit_us == 1000:
        v = rng.choice([1, 5, 250, 500, 700, 900, 999, 1500, 2800, rng.range(1, 5000)])
        if rng.chance(25):
            f = rng.choice([5, 25, 125, 500])   # thousandths
            return "%d.%03d" % (v, f), v * 1000 + f
        return str(v), v * 1000
    whole = rng.choice([0, 1, 2, 3, 5, rng.range(0, 40)]) if small or unit_us > 3600 * 10**6 else rng.range(1, 30)
    if rng.chance(60):
        digits = rng.choice([1, 2, 3])
        frac = rng.range(1, 10**digits - 1)
        text = "%d.%0*d" % (whole, digits, frac)
        if whole == 0 and rng.chance(30):
            text = text[1:]                      # ".5"
        us = whole * unit_us + frac * unit_us // 10**digits
        if (frac * unit_us) % 10**digits:
            return str(whole), whole * unit_us
        return text, us
    return str(whole), whole * unit_us


def _respell_number(rng, text):
    """another spelling of the same decimal number that `float()` reads to the same value: explicit plus
    sign, an exponent part (the item regex admits `e + - . digits`)"""
    k = rng.below(100)
    if k < 80:
        return text
    if k < 85:
        return "+" + text
    if k < 90:
        return text + rng.choice(["e0", "E0", "e+0", "e-0"])
    if text.isdigit() and k < 95:
        return "%de-1" % (int(text) * 10)
    if text.isdigit() and int(text) % 10 == 0 and int(text) > 0:
        return "%d%s1" % (int(text) // 10, rng.choice(["e", "E", "e+"]))
    return text


def gen_duration(rng, small=None):
    """(spelling or None, exact microseconds).  None = pass a datetime.timedelta.  `small` durations are
    between 1 ms and ~90 s, the others at least an hour (the sink's own freshly written files are ~1000 s
    old under the frozen clock: clearly outside / inside)."""
    if small is None:
        small = rng.chance(60)
    for _ in range(50):
        if rng.chance(25):
            if small:
                us = rng.choice([900000, 2800000, 2900000, 2700000, 1, 999, 1000, 500000, 1000000, 2500000,
                                 rng.range(1000, 90 * 10**6)])
            else:
                us = rng.choice([3600 * 10**6, 3600 * 10**6 + 500000, 86400 * 10**6 + 250000,
                                 rng.range(3600 * 10**6, 8 * 86400 * 10**6)])
            return None, us
        units = UNIT_SPELLINGS[:3] if small else UNIT_SPELLINGS
        k = rng.choice([1, 1, 2, 2, 3])
        idx = sorted(set(rng.below(len(units)) for _ in range(k)), reverse=True)
        if not small and not any(units[i][1] >= 3600 * 10**6 for i in idx):
            idx = [rng.range(4, len(units) - 1)] + [i for i in idx if i < 4]
        parts, total = [], 0
        for i in idx:
            names, uus = units[i]
            text, us = _num_text(rng, uus, small)
            text = _respell_number(rng, text)
            name = rng.choice(names)
            if rng.chance(8):
                name = name.upper()
            parts.append(text + rng.choice(["", " ", " ", "  "]) + name)
            total += us
        spelling = rng.choice([" ", " ", ", ", ",", "", "  "]).join(parts)
        if rng.chance(10):
            spelling = " " + spelling + " "
        lo, hi = (1000, 90 * 10**6) if small else (3600 * 10**6, 30 * 86400 * 10**6)
        if lo <= total <= hi:
            return spelling, total
    return ("2.9 s", 2900000) if small else ("1.5 h", 5400 * 10**6)


def age_deltas(rng, dur_us):
    """offsets (microseconds) of a modification time from the exact limit `now - d`: both sides, from one
    millisecond to hours, inside the sub-second part of the duration, and the limit itself when every
    quantity involved is exactly representable as a float (multiples of 1/8 s)"""
    frac = dur_us % 10**6
    cands = [1000, -1000, 250000, -250000, 750000, -750000, 1500000, -1500000, 3 * 10**9, -3 * 10**9, 20000, -20000]
    if frac >= 2000:
        cands += [frac // 2, frac // 2, frac - 1000, -(10**6 - frac) // 2 or -1000]
    if dur_us % 125000 == 0:
        cands += [0, 0]
    return rng.choice(cands)


# ----------------------------------------------------------------------------- end to end (stream iii)
KINDS = ["file", "file", "file", "file", "file", "file", "file", "dir", "dirfull", "linkfile", "linkdir", "dangling",
         "fifo", "fifo", "socket", "socket", "linkfifo", "chardev"]
DECOR = ["1", "2", "2020-01-01", "gz", "a.b", "", "log", "[", "*", "x y", "2019-12-31_23-59-59_000000", "!", "-"]


def gen_case(rng, idx):
    """a fully explicit, replayable case"""
    path = gen_path(rng)
    while True:
        try:
            toks = template_tokens(path)
            break
        except ValueError:
            path = gen_path(rng)
    segs = _split_segments(toks)
    dirs, f = segs[:-1], segs[-1]
    root, ext = _file_ext_split(f)
    policy_kind = rng.choice(["count", "count", "count", "age", "age", "callable"])
    names = []

    def inst_dirs():
        return [instantiate(rng, d) if rng.chance(30) else instantiate(rng, d, "D") for d in dirs]

    def add(comps, role):
        comps = [c for c in comps]
        if any(c in ("", ".", "..") or "/" in c or "\0" in c or len(c) > 80 for c in comps):
            return
        names.append(("/".join(comps), role))

    nfam = rng.range(0, 6)
    for _ in range(nfam):
        k = rng.below(4)
        x, y = rng.choice(DECOR), rng.choice(DECOR)
        if k == 0 or not ext and k >= 2:
            fn = instantiate(rng, f)
        elif k == 1:
            fn = instantiate(rng, f) + "." + y
        elif k == 2:
            fn = instantiate(rng, root) + "." + x + instantiate(rng, ext)
        else:
            fn = instantiate(rng, root) + "." + x + instantiate(rng, ext) + "." + y
        add(inst_dirs() + [fn], "family")
    plain = instantiate(rng, f, "T")
    for _ in range(rng.range(1, 7)):
        k = rng.below(14)
        fn = plain
        if k == 0 and "*" in fn:
            fn = fn.replace("*", rng.choice(["bb", "", "a.b", "x"]), 1)
        elif k == 1 and "?" in fn:
            fn = fn.replace("?", rng.choice(["a", "b", "."]), 1)
        elif k == 2 and "[" in fn and "]" in fn[fn.index("["):]:
            i = fn.index("[")
            j = fn.index("]", i)
            inner = fn[i + 1:j].lstrip("!") or "a"
            fn = fn[:i] + rng.choice(inner + "z") + fn[j + 1:]
        elif k == 3 and "." in fn:
            i = fn.rindex(".")
            fn = fn[:i] + fn[i + 1:]
        elif k == 4:
            fn = instantiate(rng, root, "T") + rng.choice([".txt", ".lo", ".logx", "", ".LOG"])
        elif k == 5:
            fn = rng.choice(["x", ".", "a"]) + fn
        elif k == 6:
            fn = fn + rng.choice(["x", "1", "~", "-1"])
        elif k == 7:
            fn = instantiate(rng, root, "T") + rng.choice(["1", "-2020", "_1", " "]) + instantiate(rng, ext, "T")
        elif k == 8 and fn:
            i = rng.below(len(fn))
            fn = fn[:i] + rng.choice(["a", "b", "[", "]", "*", "?", "!"]) + fn[i + 1:]
        elif k == 9:
            add(inst_dirs() + ["sub", plain], "neighbour")
            continue
        elif k == 10 and dirs:
            add(inst_dirs()[:-1] + [plain], "neighbour")
            continue
        elif k == 11:
            fn = instantiate(rng, root, "T") + "." + rng.choice(DECOR) + rng.choice([".txt", "", "x"])
        elif k == 12:
            fn = py_glob.escape(fn)
        else:
            fn = gen_text(rng, 1, 5, ["a", "b", ".", "[", "]", "*", "?", "log", "-"])
        add(inst_dirs() + [fn], "neighbour")
    entries, seen = [], set()
    deltas_count = [0, 0, 10, 10, 20, 30, 50, 50, 70, 1000, -5]
    spelling, dur_us = gen_duration(rng) if policy_kind == "age" else (None, 0)
    for n, role in names:
        if n in seen:
            continue
        seen.add(n)
        kind = rng.choice(KINDS) if rng.chance(40) else "file"
        ent = {"name": n, "kind": kind, "delta": rng.choice(deltas_count)}
        if policy_kind == "age":
            ent["delta"] = 0
            ent["delta_us"] = age_deltas(rng, dur_us)
        entries.append(ent)
    nfiles = len(entries)
    case = {
        "stream": "e2e", "path": path, "entries": entries, "policy": policy_kind,
        "arg": (rng.range(0, max(2, nfiles + 1)) if policy_kind == "count" else
                (spelling if spelling is not None else "timedelta(microseconds=%d)" % dur_us) if policy_kind == "age" else 0),
        "dur_us": dur_us, "age_spelling": spelling,
        "trigger": rng.choice(["stop", "rotate", "rotate"]),
        "api": "logger" if rng.chance(20) else "sink",
        "absolute": rng.chance(12),
        "age_form": rng.choice(["timedelta", "str"]),
    }
    return case


TOUCH_DELTAS = [0, 5, 10, 15, 20, 25, 30, 45, 50, 60, 70, 90, 1000, -5, -50]


def gen_hist_case(rng, idx):
    """a HISTORY: the population changes (files are modified again, appear, disappear; the clock advances)
    between 2-4 rotations of one sink, each of which runs retention, optionally followed by stop().
    Every pass must judge the directory as it is at that moment."""
    case = gen_case(rng, idx)
    while "!s" in case["path"]:
        # `{time!s}` names the file after the ADDRESS of a temporary object: a later rotation can reuse the name
        # of an older file and append to it - an artefact of that configuration, not a retention matter
        case = gen_case(rng, idx)
    case["stream"] = "hist"
    case["trigger"] = rng.choice(["rotate", "rotate", "rotate", "rotate", "stop"])
    ents = case["entries"]
    rng.shuffle(ents)
    nlate = rng.range(0, min(3, len(ents)))
    late, case["entries"] = ents[:nlate], ents[nlate:]
    dur_us = case.get("dur_us", 0)
    if case["policy"] == "count":
        case["arg"] = rng.range(0, max(2, len(case["entries"]) + 2))
    evs, k = [], 0

    def outside(n):
        for _ in range(n):
            what = rng.choice(["touch", "touch", "touch", "touch", "create", "unlink"])
            if what == "touch":
                evs.append(["touch", rng.below(1000), rng.choice(TOUCH_DELTAS), age_deltas(rng, dur_us) if dur_us else 0])
            elif what == "create" and late:
                ent = late.pop()
                if dur_us:
                    ent["delta_us"] = age_deltas(rng, dur_us)
                evs.append(["create", ent])
            elif what == "unlink":
                evs.append(["unlink", rng.below(1000)])

    nrot = rng.range(2, 4) if case["trigger"] == "rotate" else rng.range(0, 1)
    for r in range(nrot):
        for _ in range(rng.range(0, 1)):
            evs.append(["w", "w%d\n" % k])
            k += 1
        outside(rng.range(0, 3) if r else rng.range(0, 1))
        if dur_us and rng.chance(40):
            evs.append(["clock", rng.choice([1, 2, 30, 3600, max(1, dur_us // 10**6), max(1, dur_us // (2 * 10**6))])])
        evs.append(["w", "R%d\n" % r])
    if case["trigger"] == "stop":
        evs.append(["w", "w%d\n" % k])
        outside(rng.range(0, 2))
        evs.append(["stop"])
        if rng.chance(30) and case["api"] == "sink":
            evs.append(["stop"])          # a second stop() of the sink object
    elif rng.chance(50):
        outside(rng.range(0, 2))
        evs.append(["stop"])
    case["events"] = evs
    return case


def hist_model_line(case, path, steps, final):
    """the history as the model sees it: outside changes as put/del events (derived from the snapshots),
    every retention pass as `R now`"""
    toks, state = [], {}

    def move_to(target):
        for n in sorted(state):
            if n not in target:
                toks.append("D %s" % enc(n))
        for n in sorted(target):
            if state.get(n) != target[n]:
                toks.append("P %s %s %d" % (enc(n), target[n][0], target[n][1]))
        state.clear()
        state.update(target)

    for st in steps:
        move_to({n: (k, m // 1000) for n, k, m in st["pool"]})
        toks.append("R %d" % (st["now"] * 10**6))
        for d in st["deleted"]:
            state.pop(d, None)
    move_to({n: (a["kind"], a["mtime"] // 1000) for n, a in final.items()})
    if case["policy"] == "count":
        kind, arg = "i", "%d" % case["arg"]
    elif case["policy"] == "age":
        k, a = steps[0]["age_cfg"] if steps else ("t", case_dur_us(case))
        kind, arg = k, (enc(a) if k == "s" else "%d" % a)
    else:
        kind, arg = "c", "0"
    return ("hist %s %s %s %s" % (enc(path), kind, arg, " ".join(toks))).rstrip()


def compare_hist(case, steps, final, out):
    if not out.startswith("ok "):
        return "model: " + out
    body, _, fin = out[3:].partition(" # ")
    passes = body.split("|") if body else []
    if len(passes) != len(steps):
        return "model ran %d passes, the implementation %d" % (len(passes), len(steps))
    for i, (st, p) in enumerate(zip(steps, passes)):
        names = sorted(dec(x) for x in p.split(",")) if p != "-" else []
        if st["policy"] == "callable":
            got = sorted(set(posixpath.normpath(x) for c in st["calls"] for x in c))
            if got != names:
                return "pass %d: callable received %r, model hands %r" % (i + 1, got, names)
        elif names != sorted(st["deleted"]):
            return "pass %d: removed %r, model removes %r" % (i + 1, sorted(st["deleted"]), names)
    fnames = sorted(dec(x) for x in fin.split(",")) if fin != "-" else []
    if fnames != sorted(final):
        return "final directory %r, model %r" % (sorted(final), fnames)
    return None


def kind_letter(p):
    """file type as os.stat reports it (links followed): r d p(ipe) s(ocket) c b, m(issing) for a dangling link"""
    import stat as st
    try:
        mode = os.stat(p).st_mode
    except OSError:
        return "m"
    for test, letter in ((st.S_ISREG, "r"), (st.S_ISDIR, "d"), (st.S_ISFIFO, "p"), (st.S_ISSOCK, "s"),
                         (st.S_ISCHR, "c"), (st.S_ISBLK, "b")):
        if test(mode):
            return letter
    return "m"


def make_socket(p):
    """a bound AF_UNIX socket at p (bound through a relative name: sun_path is limited to ~107 bytes)"""
    import socket
    d, b = os.path.split(p)
    cwd = os.getcwd()
    sk = socket.socket(socket.AF_UNIX)
    try:
        os.chdir(d or ".")
        sk.bind(b)
    finally:
        os.chdir(cwd)
        sk.close()


def create_entry(p, k, targets):
    """one directory entry of kind `k` at path p (the parent exists)"""
    if k == "file":
        with open(p, "w") as fh:
            fh.write("old\n")
    elif k == "dir":
        os.mkdir(p)
    elif k == "dirfull":
        os.mkdir(p)
        with open(p + "/" + os.path.basename(p), "w") as fh:
            fh.write("old\n")
    elif k == "linkfile":
        os.symlink(os.path.abspath(targets + "/fileT"), p)
    elif k == "linkdir":
        os.symlink(os.path.abspath(targets + "/dirT"), p)
    elif k == "fifo":
        os.mkfifo(p)
    elif k == "socket":
        make_socket(p)
    elif k == "linkfifo":
        os.symlink(os.path.abspath(targets + "/fifoT"), p)
    elif k == "chardev":
        import stat as _st
        os.mknod(p, 0o600 | _st.S_IFCHR, os.makedev(1, 3))   # needs privileges: skipped otherwise
    else:
        os.symlink(os.path.abspath(targets + "/nothing"), p)


def snapshot(root):
    """relative path -> dict(kind, isfile, mtime_ns, content) for everything below `root`"""
    out = {}
    for d, dirs, files in os.walk(root, followlinks=False):
        for n in dirs + files:
            p = os.path.join(d, n)
            isl = os.path.islink(p)
            isf = os.path.isfile(p)
            try:
                mt = os.stat(p).st_mtime_ns
            except OSError:
                mt = os.lstat(p).st_mtime_ns
            content = None
            if isf and not isl:
                try:
                    with open(p, "rb") as fh:
                        content = fh.read(64)
                except OSError:
                    pass
            out[p] = {"isdir": os.path.isdir(p) and not isl, "islink": isl, "isfile": isf, "mtime": mt, "content": content,
                      "kind": kind_letter(p)}
    return out


class _FrozenClock:
    """replaces the `datetime` name inside loguru._file_sink: `datetime.datetime.now()` is frozen"""

    def __init__(self, t):
        import loguru._file_sink as fs
        self.fs = fs
        self.orig = fs.datetime
        self.t = t
        holder = self

        class FrozenDT(pydt.datetime):
            @classmethod
            def now(cls, tz=None):
                return pydt.datetime.fromtimestamp(holder.t, tz)

        ns = types.SimpleNamespace(**{k: getattr(pydt, k) for k in dir(pydt) if not k.startswith("__")})
        ns.datetime = FrozenDT
        self.ns = ns

    def __enter__(self):
        self.fs.datetime = self.ns
        return self

    def __exit__(self, *a):
        self.fs.datetime = self.orig


def case_dur_us(case):
    if case["policy"] != "age":
        return 0
    return case["dur_us"] if "dur_us" in case else int(case["arg"]) * 10**6


def age_retention_arg(case):
    """the `retention=` argument of an age case, as configured"""
    if case.get("age_spelling") is not None:
        return case["age_spelling"]
    if "dur_us" in case:
        return pydt.timedelta(microseconds=case["dur_us"])
    return pydt.timedelta(seconds=case["arg"]) if case.get("age_form") == "timedelta" else "%d seconds" % case["arg"]


def run_case(case, case_root, keep=False):
    """execute one case on the real code inside directory `case_root` (relative to cwd, already
    created).  Returns (problems, steps) – problems: list of oracle findings; steps: data for the model."""
    from loguru._file_sink import FileSink
    problems, steps = [], []
    prefix = os.path.abspath(case_root) if case["absolute"] else case_root
    path = prefix + "/" + case["path"]
    info = family_info(path)
    t_frozen = int(time.time()) + 1000
    dur_us = case_dur_us(case)
    received = []          # callable policy: [(list, snapshot names)]
    state = {"root": prefix}

    def cb(logs):
        received.append((list(logs), set(snapshot(prefix))))

    if case["policy"] == "count":
        retention = case["arg"]
    elif case["policy"] == "age":
        retention = age_retention_arg(case)
    else:
        retention = cb
    if "events" in case:
        rotation = (lambda message, file: str(message).startswith("R")) if case["trigger"] == "rotate" else None
    else:
        rotation = (lambda message, file: str(message) == "m2\n") if case["trigger"] == "rotate" else None
    targets = prefix + "_targets"
    os.makedirs(targets + "/dirT", exist_ok=True)
    with open(targets + "/fileT", "w") as fh:
        fh.write("target\n")
    if not os.path.lexists(targets + "/fifoT"):
        os.mkfifo(targets + "/fifoT")
    with _FrozenClock(t_frozen) as clock:
        lg = hid = sink = None
        try:
            if case["api"] == "sink":
                sink = FileSink(path, retention=retention, rotation=rotation)
            else:
                from loguru._logger import Core, Logger
                lg = Logger(core=Core(), exception=None, depth=0, record=False, lazy=False, colors=False,
                            raw=False, capture=True, patchers=[], extra={})
                hid = lg.add(path, retention=retention, rotation=rotation, format="{message}", catch=False)
        except (OSError, ValueError, KeyError, IndexError) as e:
            return [("skip", "construction: %r" % (e,))], steps
        try:
            # populate
            base_count = (t_frozen - 10**6)
            for ent in case["entries"]:
                p = prefix + "/" + ent["name"]
                if os.path.lexists(p):
                    ent["skipped"] = True
                    continue
                try:
                    os.makedirs(os.path.dirname(p), exist_ok=True)
                    k = ent["kind"]
                    create_entry(p, k, targets)
                    if case["policy"] == "age":
                        mt_ns = (t_frozen * 10**6 - dur_us + ent.get("delta_us", ent["delta"] * 10**6)) * 1000
                    else:
                        mt_ns = (base_count + ent["delta"]) * 10**9
                    if k in ("file", "dir", "dirfull", "fifo", "socket", "chardev"):
                        os.utime(p, ns=(mt_ns, mt_ns))
                except (OSError, NotADirectoryError):
                    ent["skipped"] = True
            # the shared symlink target gets a fixed, old mtime
            mt_ns = ((t_frozen * 10**6 - dur_us - 7 * 10**6) * 1000 if case["policy"] == "age" else (base_count + 40) * 10**9)
            os.utime(targets + "/fileT", ns=(mt_ns, mt_ns))
            os.utime(targets + "/fifoT", ns=(mt_ns, mt_ns))

            def do(op):
                if op != "stop":
                    if sink is not None:
                        sink.write(op)
                    else:
                        lg.info(op[:-1])
                else:
                    if sink is not None:
                        sink.stop()
                    else:
                        lg.remove(hid)

            def place(ent, p):
                """create the entry and give it its modification time (relative to the clock as it is now)"""
                k = ent["kind"]
                create_entry(p, k, targets)
                if k in ("file", "dir", "dirfull", "fifo", "socket", "chardev"):
                    mt = mtime_ns_of(ent)
                    os.utime(p, ns=(mt, mt))

            def mtime_ns_of(ent):
                if case["policy"] == "age":
                    return (clock.t * 10**6 - dur_us + ent.get("delta_us", ent.get("delta", 0) * 10**6)) * 1000
                return (base_count + ent["delta"]) * 10**9

            history = "events" in case
            events = case["events"] if history else [["w", "m1\n"], ["w", "m2\n"], ["stop"]]
            for ev in events:
                if ev[0] in ("w", "stop"):
                    op = ev[1] if ev[0] == "w" else "stop"
                    before = snapshot(prefix)
                    tb = snapshot(targets)
                    ncalls = len(received)
                    exc = None
                    try:
                        do(op)
                    except Exception as e:  # noqa
                        exc = e
                    after = snapshot(prefix)
                    ta = snapshot(targets)
                    if history:
                        rotating = op != "stop" and op.startswith("R") and rotation is not None
                        expect_ret = rotating or (op == "stop" and rotation is None)
                    else:
                        rotating = op == "m2\n" and case["trigger"] == "rotate"
                        expect_ret = rotating or (op == "stop" and case["trigger"] == "stop")
                    problems += judge(case, info, op, before, after, expect_ret, exc, received[ncalls:], clock.t, steps, path,
                                      rot_msg=op.encode() if rotating else None)
                    if case["policy"] == "callable" and exc is None:
                        # what `_terminate_file` did, as far as the API shows it (model: Retention.terminate)
                        newf = [n for n, a in after.items() if rotating and a["content"] == op.encode() and n not in before]
                        calls_now = received[ncalls:]
                        state.setdefault("term", []).append({
                            "terminates": rotating or op == "stop", "rotating": rotating,
                            "file_open": not state.get("stopped", False), "has_rotation": rotation is not None,
                            "retention": len(calls_now), "create": bool(newf) or (rotating and any(
                                a["content"] == op.encode() for a in after.values())),
                            "order_observable": bool(calls_now) and bool(newf),
                            "new_seen_by_retention": bool(calls_now) and any(n in calls_now[0][1] for n in newf)})
                    if op == "stop":
                        state["stopped"] = True
                    # nothing outside the log directory is touched: the targets of the symbolic links
                    for n in sorted(set(tb) | set(ta)):
                        if n not in ta:
                            problems.append(("oracle", "%r removed %r, a file OUTSIDE the log directory (the target of "
                                                       "symbolic links named like log files)" % (op, n)))
                        elif n in tb and (tb[n]["mtime"], tb[n]["content"]) != (ta[n]["mtime"], ta[n]["content"]):
                            problems.append(("oracle", "%r modified %r, a file outside the log directory" % (op, n)))
                    state["final"] = after
                    if exc is not None and history:
                        break
                elif ev[0] == "clock":
                    clock.t += ev[1]
                elif ev[0] == "create":
                    ent = ev[1]
                    p = prefix + "/" + ent["name"]
                    if os.path.lexists(p):
                        continue
                    try:
                        os.makedirs(os.path.dirname(p), exist_ok=True)
                        place(ent, p)
                    except (OSError, NotADirectoryError):
                        pass
                elif ev[0] in ("touch", "unlink"):
                    snap = snapshot(prefix)
                    cands = sorted(n for n, a in snap.items() if a["isfile"] and not a["islink"]
                                   and (ev[0] == "touch" or a["content"] == b"old\n"))
                    if not cands:
                        continue
                    n = cands[ev[1] % len(cands)]
                    if ev[0] == "unlink":
                        os.remove(n)
                    else:
                        mt = mtime_ns_of({"delta": ev[2], "delta_us": ev[3]})
                        os.utime(n, ns=(mt, mt))
        finally:
            try:
                if sink is not None and sink._file is not None:
                    sink._file.close()
                if lg is not None:
                    try:
                        lg.remove()
                    except Exception:  # noqa
                        pass
            except Exception:  # noqa
                pass
    if "final" in state:
        steps.append({"final": state["final"], "term": state.get("term", [])})
    return problems, steps


def judge(case, info, op, before, after, expect_ret, exc, calls, t_frozen, steps, path, rot_msg=None):
    """the property itself, on one operation of the sink (model-independent)"""
    probs = []
    D = sorted(set(before) - set(after))
    if exc is not None:
        probs.append(("oracle", "%r raised %r" % (op, exc)))
    # safety: whatever disappears is a family member and was a regular file
    for d in D:
        b = before[d]
        if any(d.startswith(x + "/") for x in D if before[x]["isdir"]):
            continue
        if b["isdir"]:
            probs.append(("oracle", "directory %r was removed" % d))
        elif not in_family(info, d):
            probs.append(("oracle", "%r was removed but is not in the family of %r" % (d, path)))
        elif not b["isfile"]:
            what = {"p": "a FIFO", "s": "a socket", "c": "a character device", "b": "a block device",
                    "m": "a dangling link"}.get(b.get("kind"), "not a regular file")
            probs.append(("oracle", "%r was removed but was %s, not a regular file" % (d, what)))
    if not expect_ret:
        if D:
            probs.append(("oracle", "%r removed %r although no retention is due at this point" % (op, D)))
        if calls:
            probs.append(("oracle", "retention callable invoked at %r although no retention is due" % op))
        return probs
    new = None
    if rot_msg is not None:
        cands = [n for n, a in after.items() if a["content"] == rot_msg]
        if len(cands) == 1:
            new = cands[0]
        else:
            probs.append(("oracle", "after the rotation there are %d files holding exactly the new message" % len(cands)))
    pool = {n: a for n, a in after.items() if n != new}
    for d in D:
        pool[d] = before[d]
    managed = sorted(n for n, a in pool.items() if a["isfile"] and is_managed(info, n))
    survivors = [n for n in managed if n in after and n != new or (n in after and n not in D and n != new)]
    survivors = [n for n in managed if n not in D]
    step = {"op": op, "pool": [(n, pool[n]["kind"], pool[n]["mtime"]) for n in sorted(pool)], "deleted": D,
            "policy": case["policy"], "arg": case["arg"], "now": t_frozen, "calls": [c[0] for c in calls],
            "dur_us": case_dur_us(case),
            "age_cfg": (("s", case["age_spelling"]) if case.get("age_spelling") is not None else
                        ("t", case_dur_us(case)) if "dur_us" in case or case.get("age_form") == "timedelta" else
                        ("s", "%d seconds" % case["arg"])) if case["policy"] == "age" else None}
    steps.append(step)
    if case["policy"] == "count":
        order = sorted(managed, key=lambda n: (-pool[n]["mtime"], n))
        want = sorted(order[:max(case["arg"], 0)]) if case["arg"] >= 0 else None
        if want is not None and sorted(survivors) != want:
            probs.append(("oracle", "retention=%d: survivors %r, the %d most recent family files are %r"
                          % (case["arg"], sorted(survivors), case["arg"], want)))
    elif case["policy"] == "age":
        dur_us = case_dur_us(case)
        limit = (t_frozen * 10**6 - dur_us) * 1000
        want = sorted(n for n in managed if pool[n]["mtime"] > limit)
        if sorted(survivors) != want:
            ages = {n: (t_frozen * 10**9 - pool[n]["mtime"]) / 1e9 for n in set(want) ^ set(survivors)}
            probs.append(("oracle", "retention=%r (= %.6f s): survivors %r, family files modified within the duration "
                          "are %r; ages (s) of the files judged differently: %r"
                          % (case["arg"], dur_us / 1e6, sorted(survivors), want, ages)))
    else:
        if len(calls) != 1:
            probs.append(("oracle", "retention callable invoked %d times at %r" % (len(calls), op)))
        else:
            got = [posixpath.normpath(x) for x in calls[0][0]]
            if len(set(got)) != len(got):
                probs.append(("oracle", "retention callable received duplicates: %r" % (got,)))
            if sorted(set(got)) != managed:
                probs.append(("oracle", "retention callable received %r, the family files are %r" % (sorted(set(got)), managed)))
            if new is not None and new in calls[0][1] and before.get(new, {}).get("content") != rot_msg \
                    and not (new in before):
                probs.append(("oracle", "the new file %r already existed when retention ran" % new))
            if new is not None and new in before and new in calls[0][1]:
                probs.append(("oracle", "retention ran before the old file %r was renamed away" % new))
        if D:
            probs.append(("oracle", "callable policy but %r disappeared" % (D,)))
    hidden = [n for n, a in pool.items() if a["isfile"] and in_family(info, n) and n not in managed]
    if hidden:
        step["hidden_family"] = hidden
    return probs


def model_lines(case, path, steps):
    lines = []
    for st in steps:
        # modification times cross the pipe in MICROSECONDS in every stream
        ents = " ".join("%s %s %d" % (enc(n), f, m // 1000) for n, f, m in st["pool"])
        if st["policy"] == "count":
            lines.append(("ret %s c %d 0 %s" % (enc(path), st["arg"], ents)).rstrip())
        elif st["policy"] == "age":
            kind, arg = st["age_cfg"]
            ents_us = " ".join("%s %s %d" % (enc(n), f, m // 1000) for n, f, m in st["pool"])
            lines.append(("retcfg %s %s %s %d %s" % (enc(path), kind, enc(arg) if kind == "s" else "%d" % arg,
                                                     st["now"] * 10**6, ents_us)).rstrip())
        else:
            lines.append(("sel %s %s" % (enc(path), ents)).rstrip())
    return lines


def compare_model(st, out):
    """None if the model agrees with what the implementation did at this step"""
    if not out.startswith("ok"):
        return "model: " + out
    names = sorted(dec(x) for x in out.split()[1:])
    if st["policy"] == "callable":
        got = sorted(set(posixpath.normpath(x) for c in st["calls"] for x in c))
        return None if got == names else "callable received %r, model selects %r" % (got, names)
    return None if names == sorted(st["deleted"]) else "removed %r, model removes %r" % (sorted(st["deleted"]), names)


def case_key(case):
    return json.dumps(case, sort_keys=True)


def stream_e2e(ctx, drv, rng, cases=None, hist=False):
    base = tempfile.mkdtemp(prefix="c10e_")
    cwd = os.getcwd()
    pending, pending_term = [], []
    n = (ctx.n(150, 2000) if hist else ctx.n(450, 14000)) * (3 if getattr(ctx, "search_boost", False) else 1)
    try:
        os.chdir(base)
        todo = list(cases or [])
        for i in range(n if cases is None else 0):
            todo.append(gen_hist_case(rng, i) if hist else gen_case(rng, i))
        for i, case in enumerate(todo):
            root = "%s%d" % ("h" if hist else "c", i)
            os.mkdir(root)
            replay_case = json.loads(json.dumps(case))
            probs, steps = run_case(case, root)
            last = steps.pop() if steps and "final" in steps[-1] else {}
            final, term_obs = last.get("final", {}), last.get("term", [])
            for ob in term_obs:
                if ob["terminates"]:
                    pending_term.append((replay_case, ob, "term %d %d 1 0 %d %d" % (
                        ob["file_open"], ob["has_rotation"], 0 if "{" in case["path"].replace("{{", "") else 1, ob["rotating"])))
            shutil.rmtree(root, ignore_errors=True)
            shutil.rmtree(os.path.abspath(root) + "_targets", ignore_errors=True)
            if probs and probs[0][0] == "skip":
                ctx.stat("e2e_skipped_construction")
                continue
            prefix = os.path.abspath(root) if case["absolute"] else root
            path = prefix + "/" + case["path"]
            info = family_info(path)
            names = [prefix + "/" + e["name"] for e in case["entries"] if not e.get("skipped")]
            nfam = sum(1 for x in names if in_family(info, x))
            nontrivial = nfam >= 1 and nfam < len(names) and (any(c in case["path"] for c in "[]*?{") or case["path"].count(".") > 1)
            ctx.case(case_key(replay_case), nontrivial=nontrivial)
            ctx.stat("e2e_policy_" + case["policy"])
            ctx.stat("e2e_trigger_" + case["trigger"])
            ctx.stat("e2e_api_" + case["api"])
            ctx.stat("e2e_removed_files", sum(len(st["deleted"]) for st in steps))
            for e in case["entries"]:
                if not e.get("skipped"):
                    ctx.stat("e2e_kind_" + e["kind"])
            ctx.stat("e2e_family_entries", nfam)
            ctx.stat("e2e_neighbour_entries", len(names) - nfam)
            if any("hidden_family" in st for st in steps):
                ctx.stat("e2e_hidden_family_unmanaged")
            if i < 2:
                ctx.sample({"stream": "e2e", "path": case["path"], "policy": case["policy"], "arg": case["arg"],
                            "entries": [e["name"] for e in case["entries"]][:8],
                            "removed": [st["deleted"] for st in steps]})
            for kind, what in probs:
                ctx.violation("path %r, retention %s=%r, trigger %s: %s" % (case["path"], case["policy"], case["arg"], case["trigger"], what),
                              replay_case, kind="oracle")
            if "events" in case:
                ctx.stat("hist_cases")
                ctx.stat("hist_passes", len(steps))
                ctx.stat("hist_passes_%d" % min(len(steps), 4))
                for ev in case["events"]:
                    ctx.stat("hist_ev_" + ev[0])
                pending.append((replay_case, (steps, final), hist_model_line(case, path, steps, final)))
            else:
                for st, line in zip(steps, model_lines(case, path, steps)):
                    pending.append((replay_case, st, line))
    finally:
        os.chdir(cwd)
        shutil.rmtree(base, ignore_errors=True)
    out_all = drv.run([l for _, _, l in pending] + [l for _, _, l in pending_term]) if pending or pending_term else []
    if out_all is None:
        return
    out, out_term = out_all[:len(pending)], out_all[len(pending):]
    bad = 0
    for (case, st, line), o in zip(pending, out):
        ctx.traces_validated += 1
        if "events" in case:
            msg = compare_hist(case, st[0], st[1], o)
            name = "correspondence Retention.runEvs (history of passes)"
        else:
            msg = compare_model(st, o)
            name = "correspondence Retention.retentionOf (end to end)"
        if msg is not None:
            bad += 1
            if bad <= 3:
                ctx.broke(name, "path %r: %s" % (case["path"], msg))
            ctx.violation("path %r, retention %s=%r: %s" % (case["path"], case["policy"], case["arg"], msg), case,
                          kind="correspondence")
    ctx.stat("hist_model_lines" if hist else "e2e_model_steps", len(pending))
    # order of effects of _terminate_file (callable policies make the retention step observable)
    bad = 0
    for (case, ob, line), o in zip(pending_term, out_term):
        acts = o.split()
        ctx.stat("terminate_calls_compared")
        want_ret = acts.count("retention")
        msg = None
        if want_ret != ob["retention"]:
            msg = "retention ran %d times, model %d" % (ob["retention"], want_ret)
        elif ("create" in acts) != ob["create"]:
            msg = "new file created: %s, model %s" % (ob["create"], "create" in acts)
        elif "retention" in acts and "create" in acts and ob["order_observable"] and \
                (acts.index("retention") < acts.index("create")) == ob["new_seen_by_retention"]:
            msg = "retention %s the new file existed, model order %s" % (
                "ran when" if ob["new_seen_by_retention"] else "ran before", acts)
        if msg is not None:
            bad += 1
            if bad <= 3:
                ctx.broke("correspondence Retention.terminate (order of effects of _terminate_file)",
                          "path %r, %s: %s" % (case["path"], line, msg))
    ctx.stat("terminate_disagreements", bad)


# ----------------------------------------------------------------------------- documented duration spellings
DAY = 86400
DURATIONS = [("1 week", 604800, 604800), ("3 days", 259200, 259200), ("2 h", 7200, 7200), ("10 s", 10, 10),
             ("1 week, 3 days", 864000, 864000), ("1h30min", 5400, 5400), ("1.5 d", 129600, 129600),
             ("90 minutes", 5400, 5400), ("1 w 2 d", 777600, 777600), ("36 hours", 129600, 129600),
             ("2 weeks", 1209600, 1209600), ("1 day", DAY, DAY), ("12 hours", 43200, 43200),
             # calendar units have no fixed length: accept any value inside the calendar's own bounds
             ("1 month", 28 * DAY, 31 * DAY), ("2 months", 59 * DAY, 62 * DAY), ("1 year", 365 * DAY, 366 * DAY)]


def impl_policy(arg):
    """what `_make_retention_function(arg)` denotes, canonicalised: 'count N' | 'age <microseconds>' |
    'callable' | 'none' | 'err Kind'"""
    from loguru._file_sink import FileSink, Retention
    try:
        f = FileSink._make_retention_function(arg)
    except Exception as e:  # noqa
        return "err " + core.err_kind(e)
    if f is None:
        return "none"
    fn, kw = getattr(f, "func", None), getattr(f, "keywords", None)
    if fn is Retention.retention_count and set(kw) == {"number"}:
        return "count %d" % kw["number"]
    if fn is Retention.retention_age and set(kw) == {"seconds"}:
        us = kw["seconds"] * 1e6
        return "age %d" % round(us) if abs(us - round(us)) < 1e-3 * max(1.0, abs(us) * 1e-9) else "age %r" % (kw["seconds"],)
    return "callable" if callable(f) else "other"


def _special_args():
    """unusual but legal (or clearly illegal) `retention=` arguments: name -> (object, expected canonical policy, model line)"""
    import decimal
    import enum
    import functools

    class Keep(enum.IntEnum):
        THREE = 3

    class TD(pydt.timedelta):
        pass

    class S(str):
        pass

    class Fn:
        def __call__(self, logs):
            pass

    return {
        "bool_true": (True, "count 1", "mk i 1"), "bool_false": (False, "count 0", "mk i 0"),
        "intenum_3": (Keep.THREE, "count 3", "mk i 3"),
        "timedelta_subclass": (TD(seconds=2, microseconds=700000), "age 2700000", "mk t 2700000"),
        "str_subclass": (S("2 s 700 ms"), "age 2700000", "mk s %s" % enc("2 s 700 ms")),
        "callable_object": (Fn(), "callable", "mk c 0"), "partial": (functools.partial(print, end=""), "callable", "mk c 0"),
        "builtin": (len, "callable", "mk c 0"), "none": (None, "none", "mk n 0"),
        "decimal": (decimal.Decimal(2), "err TypeError", "mk o 0"), "list": ([1], "err TypeError", "mk o 0"),
        "bytes": (b"1 s", "err TypeError", "mk o 0"), "tuple": ((1,), "err TypeError", "mk o 0"),
        "time": (pydt.time(1, 0), "err TypeError", "mk o 0"), "date": (pydt.datetime(2020, 1, 1), "err TypeError", "mk o 0"),
    }


def dispatch_arg(r):
    """replay dict -> the retention argument"""
    if r.get("special") is not None:
        return _special_args()[r["special"]][0]
    if r.get("timedelta_us") is not None:
        return pydt.timedelta(microseconds=r["timedelta_us"])
    return r["retention"]


def stream_dispatch(ctx, drv, rng, only=None):
    """`_make_retention_function` over the documented argument forms: int -> that count; timedelta and
    every generated duration spelling (several units, fractional values, ms/us) -> the age policy of
    EXACTLY the denoted duration; callable -> itself; anything else rejected at add().  Direct oracle:
    the exact number of microseconds known by construction; correspondence: the Lean `makeRetention`."""
    items = []   # (replay dict, expected canonical policy or None, driver line)
    if only is not None:
        items.append(only)
    else:
        for text, lo, hi in DURATIONS:
            items.append({"stream": "dispatch", "retention": text, "range_s": [lo, hi]})
        for _ in range(ctx.n(400, 20000)):
            spelling, us = gen_duration(rng)
            if spelling is None:
                items.append({"stream": "dispatch", "retention": "timedelta", "timedelta_us": us, "expect_us": us})
            else:
                items.append({"stream": "dispatch", "retention": spelling, "expect_us": us})
        for n in (0, 1, 5, 17, rng.range(0, 1000)):
            items.append({"stream": "dispatch", "retention": n, "expect": "count %d" % n})
        for bad, exp in (("nope", "err ValueError"), ("", "err ValueError"), ("3 dayz", "err ValueError"),
                         ("1.2.3 s", "err ValueError"), (1.5, "err TypeError"), ("1e s", "err ValueError"),
                         ("s", "err ValueError"), ("5", "err ValueError"), ("1 s x", "err ValueError")):
            items.append({"stream": "dispatch", "retention": bad, "expect": exp})
        for name, (_obj, exp, _line) in sorted(_special_args().items()):
            items.append({"stream": "dispatch", "retention": name, "special": name, "expect": exp})
    lines, keep = [], []
    for r in items:
        arg = dispatch_arg(r)
        got = impl_policy(arg)
        ctx.case(("dispatch", repr(arg)), nontrivial="expect_us" in r and r["expect_us"] % 10**6 != 0)
        if "expect_us" in r:
            ctx.stat("dispatch_durations")
            if r["expect_us"] % 10**6:
                ctx.stat("dispatch_durations_with_subsecond_part")
            want = "age %d" % r["expect_us"]
        elif "range_s" in r:
            want = None
            lo, hi = r["range_s"]
            ok = got.startswith("age ") and got[4:].lstrip("-").isdigit() and lo * 10**6 <= int(got[4:]) <= hi * 10**6
            if not ok:
                ctx.violation("retention=%r is not an age policy of %d..%d seconds: %s" % (arg, lo, hi, got), r, kind="oracle")
        else:
            want = r["expect"]
        if want is not None and got != want:
            ctx.violation("retention=%r denotes %s, but the configured policy is %s" % (arg, want, got), r, kind="oracle")
        if r.get("special") is not None:
            ctx.stat("dispatch_unusual_argument_types")
            lines.append(_special_args()[r["special"]][2])
        elif isinstance(arg, str):
            lines.append("mk s %s" % enc(arg))
        elif isinstance(arg, pydt.timedelta):
            lines.append("mk t %d" % r["timedelta_us"])
        elif isinstance(arg, int) and not isinstance(arg, bool):
            lines.append("mk i %d" % arg)
        else:
            lines.append("mk o 0")
        keep.append((r, got))
    out = drv.run(lines)
    if out is None:
        return
    bad = 0
    for (r, got), o in zip(keep, out):
        if o != got:
            bad += 1
            if bad <= 3:
                ctx.broke("correspondence Retention.makeRetention", "retention=%r: impl %s, model %s" % (dispatch_arg(r), got, o))
    ctx.stat("dispatch_model_disagreements", bad)


# ----------------------------------------------------------------------------- the sink's own file names
def _fills_of(toks, name):
    """one decomposition of `name` along the template: the text each field stands for (None: no match)"""
    rx = "".join(re.escape(t[1]) if t[0] == "lit" else "(.*?)" for t in toks)
    m = re.fullmatch(rx, name, re.S)
    return None if m is None else list(m.groups())


def stream_own(ctx, drv, rng):
    """`FileSink._create_path()` and `generate_rename_path` on generated templates: the name of the file the
    sink creates, and the name a rotated file is moved to, are members of the sink's family whenever the
    fields render to non-empty text without '/' - theorems `created_path_in_family`,
    `renamed_path_in_family_any_fields`; model: `instantiate`, `renameTarget` over the generated
    format strings."""
    from loguru._file_sink import FileSink
    import loguru._file_sink as fsmod
    base = tempfile.mkdtemp(prefix="c10o_")
    cwd = os.getcwd()
    lines, keep = [], []
    try:
        os.chdir(base)
        here = os.getcwd()
        for i in range(ctx.n(200, 5000)):
            path = gen_path(rng)
            try:
                toks = template_tokens(path)
                sink = FileSink(path, delay=True)
                created_abs = sink._create_path()
            except (ValueError, KeyError, IndexError, AttributeError, TypeError):
                ctx.stat("own_skipped_template")
                continue
            if not created_abs.startswith(here + "/"):
                ctx.stat("own_skipped_outside")
                continue
            created = created_abs[len(here) + 1:]
            fills = _fills_of(toks, created)
            if fills is None:
                ctx.broke("FileSink._create_path() is not the configured path with its fields rendered",
                          "path %r -> %r" % (path, created))
                continue
            good = all(f and "/" not in f for f in fills)
            good_d = good and all("." not in f for f in fills)
            info = family_info(path)
            ctx.case(("own", path), nontrivial=bool(fills) and any(c in path for c in "[]*?."))
            ctx.stat("own_templates")
            if good and not in_family(info, created):
                ctx.broke("created_path_in_family vs FileSink._create_path",
                          "path %r creates %r, which is not in the family of the path" % (path, created))
            # the rename of a rotated file that keeps its name
            root, ext = os.path.splitext(created)
            want_counter = rng.chance(40)
            ctime = 1.0e9 + rng.below(10**6) + rng.below(10**6) / 10**6
            try:
                first = fsmod.generate_rename_path(root, ext, ctime)
                renamed = first
                if want_counter:
                    os.makedirs(os.path.dirname(first) or ".", exist_ok=True)
                    open(first, "w").close()
                    renamed = fsmod.generate_rename_path(root, ext, ctime)
                    os.remove(first)
            except OSError:
                ctx.stat("own_skipped_oserror")
                continue
            m = re.fullmatch(re.escape(root) + r"\.(.*)" + re.escape(ext), renamed, re.S) if renamed.startswith(root + ".") else None
            if m is None:
                ctx.broke("generate_rename_path does not insert '.<date>' before the extension",
                          "%r -> %r" % (created, renamed))
                continue
            inserted = m.group(1)
            date, counter = inserted, None
            if want_counter and "." in inserted:
                date, _, counter = inserted.rpartition(".")
            if good:
                ctx.stat("own_rename_judged")
                if not good_d:
                    ctx.stat("own_rename_judged_with_dots_in_fields")
                if not in_family(info, renamed):
                    ctx.broke("renamed_path_in_family_any_fields vs generate_rename_path",
                              "path %r: rotated file %r is moved to %r, which is not in the family" % (path, created, renamed))
            ftoks, fi = [], iter(fills)
            for t in toks:
                ftoks.append("L" + enc(t[1]) if t[0] == "lit" else "F" + enc(next(fi)))
            lines.append(("own %s %s %s %s" % (enc(path), enc(date), enc(counter) if counter is not None else "-", " ".join(ftoks))).rstrip())
            keep.append((path, created, renamed, good, good_d))
    finally:
        os.chdir(cwd)
        shutil.rmtree(base, ignore_errors=True)
    out = drv.run(lines) if lines else []
    if out is None:
        return
    bad = 0
    for (path, created, renamed, good, good_d), o in zip(keep, out):
        parts = o.split()
        if len(parts) != 4:
            ctx.broke("driver own", "%r -> %r" % (path, o))
            continue
        mc, mf, mr, mrf = dec(parts[0]), parts[1], dec(parts[2]), parts[3]
        if mc != created or mr != renamed or (good and mf != "1") or (good and mrf != "1"):
            bad += 1
            if bad <= 3:
                ctx.broke("correspondence Retention.instantiate / renameTarget (the sink's own file names)",
                          "path %r: implementation creates %r and renames to %r; model %r (family %s) and %r (family %s)"
                          % (path, created, renamed, mc, mf, mr, mrf))
    ctx.stat("own_model_disagreements", bad)


def probe_alias(ctx):
    """Candidate finding (NOT reported as a violation until it is listed in known_findings.json):
    a directory symlink matched by a `{time}` directory component makes glob return the same file
    under two names; retention_count counts it twice and removes a file the policy keeps."""
    from loguru._file_sink import FileSink
    base = tempfile.mkdtemp(prefix="c10a_")
    cwd = os.getcwd()
    try:
        os.chdir(base)
        os.makedirs("logs/2000")
        with open("logs/2000/app.log", "w") as fh:
            fh.write("old\n")
        os.utime("logs/2000/app.log", (10**9, 10**9))
        os.symlink("2000", "logs/latest")
        s = FileSink("logs/{time:YYYY}/app.log", retention=2)
        s.write("m1\n")
        try:
            s.stop()
        except Exception as e:  # noqa
            ctx.note("alias probe: stop() raised %r" % (e,))
        ctx.case(("probe", "symlink-alias"))
        if not os.path.exists("logs/2000/app.log"):
            ctx.stat("finding_symlinked_directory_alias_reproduced")
            ctx.violation("path 'logs/{time:YYYY}/app.log', retention=2, two log files + symlink logs/latest -> 2000: "
                          "logs/2000/app.log was removed although only 2 family files exist (the alias "
                          "logs/latest/app.log is counted as a third log)",
                          {"stream": "probe", "probe": "symlink-alias"}, key="C10-symlinked-directory-alias")
    finally:
        os.chdir(cwd)
        shutil.rmtree(base, ignore_errors=True)


def load_corpus():
    d = os.path.join(core.VERIF, "corpus", "C10")
    out = []
    if os.path.isdir(d):
        for f in sorted(os.listdir(d)):
            if f.endswith(".json"):
                out.append(json.load(open(os.path.join(d, f))))
    return out


def run(ctx):
    rng = ctx.rng
    drv = SafeDriver(ctx)
    timing = []

    def timed(name, f, *a, **k):
        t0 = time.time()
        f(*a, **k)
        timing.append("%s %.1fs" % (name, time.time() - t0))

    corpus = [c for c in load_corpus() if c.get("stream") in ("e2e", "hist")]
    if corpus:
        timed("corpus", stream_e2e, ctx, drv, rng.fork("corpus"), cases=corpus)
        ctx.stat("corpus_cases", len(corpus))
    timed("e2e", stream_e2e, ctx, drv, rng.fork("e2e"))
    timed("hist", stream_e2e, ctx, drv, rng.fork("hist"), hist=True)
    timed("dispatch", stream_dispatch, ctx, drv, rng.fork("dispatch"))
    probe_alias(ctx)
    timed("own", stream_own, ctx, drv, rng.fork("own"))
    timed("patterns", stream_patterns, ctx, drv, rng.fork("patterns"))
    timed("stdlib", stream_stdlib, ctx, drv, rng.fork("stdlib"))
    ctx.note("wall time per stream: " + ", ".join(timing))
    seen, uniq = set(), []
    for b in ctx.broken:
        if b["name"] not in seen:
            seen.add(b["name"])
            uniq.append(b)
    ctx.broken[:] = uniq


def replay(ctx, rep):
    r = rep["replay"]
    drv = SafeDriver(ctx)
    if r.get("stream") in ("e2e", "hist"):
        # several directories: an outcome that depends on set iteration order (tie-break lost) needs a few tries
        stream_e2e(ctx, drv, ctx.rng, cases=[json.loads(json.dumps(r)) for _ in range(8)])
    elif r.get("stream") == "patterns":
        path = r["path"]
        got = impl_patterns(path)
        print("path:", repr(path))
        print("implementation:", [dec(x) for x in got.split()[1:]] if got.startswith("ok") else got)
        out = (drv.run(["pats %s" % enc(path)]) or ["(model does not run)"])[0]
        print("model:         ", [dec(x) for x in out.split()[1:]] if out.startswith("ok") else out)
        try:
            want = expected_patterns(path)
        except ValueError:
            want = None
        print("property needs:", want)
        if got != out or (want is not None and got.startswith("ok") and [dec(x) for x in got.split()[1:]] != want):
            ctx.violations.append({"what": "patterns differ"})
    elif r.get("stream") == "dispatch":
        stream_dispatch(ctx, drv, ctx.rng, only=r)
    for v in ctx.violations:
        print("violation:", v["what"])
    bad = bool(ctx.violations)
    print("REPRODUCED" if bad else "not reproduced")
    return 1 if bad else 0
