"""C19 – size-based rotation keeps every file within the configured number of bytes (DESIGN §4 C19).
Shares the Lean area `Rotation`, its driver and several helpers with harness/c07.py."""
import decimal
import os
from fractions import Fraction

from harness import core
from harness import c07 as R
from harness.core import enc

PROP = "C19"
LEAN_TARGETS = ["LoguruModel.Props.C19"]
AUDIT_FILE = "LoguruModel/Audit/C19.lean"
DRIVER = "Rotation"
RULE = ("(limit S as int / float / Decimal / spelling, optional companion time condition, file encoding, the sink's "
        "open() keywords `buffering` (default, 1, -1, 2, 16, 64, 4096, 2^20) and `newline` (absent, None, '', LF, CR, CRLF), the log path (plain, through a symlinked directory, a symlinked file), the open() keyword `errors` (absent, strict, replace, ignore, backslashreplace, xmlcharrefreplace, namereplace, surrogatepass) with characters the encoding lacks, a foreign writer appending to the same file between two records, line end of the records (newline, or none / "
        "'|' as a callable format leaves them), through FileSink.write or through logger.add()/logger.info(), "
        "pre-existing size P, message sequence): messages are sized around the room left in the current file (exact "
        "fit, one byte over, larger than S, empty) with ASCII / 2- / 3- / 4-byte UTF-8 content; a real FileSink writes "
        "them into a scratch directory and the directory is judged by the size bound itself after every call; "
        "spellings of sizes are generated from (number, prefix, binary, bits/bytes) and compared with the exact "
        "quantity; adversarial strings over the parser alphabet are compared model vs code.  non-trivial = at least "
        "one rotation and at least one append without rotation; distinct by (spec, encoding, P, message texts)")
TRUSTED = [
    "Py/Float64.lean (IEEE-754 binary64: correctly rounded float(str), int->float, *, /) is a hand-written model; it is "
    "compared bit for bit with the doubles parse_size returns (stream 5) and its exactness on dyadic values with a "
    "53-bit numerator is proved (F64.roundPos_exact); size conditions built from strings carry the exact-decimal "
    "quantity, the value oracle accepts a relative error of 2^-48",
    "Rotation/Stream.lean (append-mode text stream: OS bytes, pending bytes, descriptor position) is a hand-written "
    "model of CPython's io, compared with real streams for eight buffering settings (stream 4)",
    "encodings are an oracle (bytes = len(message.encode(...))); only stateless encodings whose tell() is a byte offset "
    "(utf-8, latin-1, utf-16-le) are exercised",
]
ASSUMPTIONS = ["file.tell() after seek(0, 2) is the size of the file in bytes (checked on real streams in stream 4; a failure is "
               "reported as a broken assumption, it would be CPython's)", "frozen clock for companion time conditions"]

CONTENT = {
    "ascii": "abcxyz019 _-",
    "latin": "éèàüñ¿ß",
    "two": "éЖλש",
    "three": "€中日本√",
    "four": "😀𝄞🜚",
    "surrogate": "\udc80\ud800a",
}
PREFIX = "kmgtpezy"


def gen_text(rng, seq, want_bytes, encoding, kinds, end="\n", errors="default"):
    """a message tagged with its sequence number, of roughly `want_bytes` encoded bytes, ending in `end`
    (a newline as the default format produces, or whatever a callable format leaves: "|", nothing)"""
    tag = "<%d>" % seq
    body = ""
    pool = "".join(CONTENT[k] for k in kinds)
    while len((tag + body + end).encode(encoding, 'strict' if errors == 'default' else errors)) < want_bytes \
            and len(body) < 4 * want_bytes + 40:      # (with errors="ignore" a character may add no byte at all)
        body += rng.choice(pool)
    text = tag + body + end
    # trim to hit the target exactly when possible
    while len(text.encode(encoding, 'strict' if errors == 'default' else errors)) > want_bytes and body:
        body = body[:-1]
        text = tag + body + end
    if len(text.encode(encoding, 'strict' if errors == 'default' else errors)) < want_bytes and encoding != "utf-16-le":
        text = tag + body + "a" * (want_bytes - len(text.encode(encoding, 'strict' if errors == 'default' else errors))) + end
    return text


NEWLINES = ["default", "default", "default", None, "", "\n", "\r", "\r\n", "\r\n"]   # "default" = keyword not passed
KEY_NEWLINE = "C19-newline-translation-undercounted"


ERRORS = ["default", "default", "default", "default", "strict", "replace", "ignore", "backslashreplace",
          "xmlcharrefreplace", "namereplace", "surrogatepass"]
LENIENT = ("replace", "ignore", "backslashreplace", "xmlcharrefreplace", "namereplace")


def enc_bytes(text, encoding, errors):
    """text.encode with the sink's open() keyword `errors` ("default" = keyword not passed = strict)"""
    return text.encode(encoding, "strict" if errors == "default" else errors)


def partition_blobs(files, blobs, pre_bytes):
    """map every file's content back to message indices, given the bytes each message takes on disk
    (messages are made unique by a sequence tag) -> [(indices, size, holds the pre-existing content)]"""
    out = []
    for name, data in files:
        body, first = data, False
        if pre_bytes and data.startswith(pre_bytes):
            body, first = data[len(pre_bytes):], True
        idx, pos = [], 0
        while pos < len(body):
            hit = None
            for i, b in enumerate(blobs):
                if i not in idx and body.startswith(b, pos) and (hit is None or len(b) > len(blobs[hit])):
                    if not idx or i == idx[-1] + 1:
                        hit = i
            if hit is None:
                return None
            idx.append(hit)
            pos += len(blobs[hit])
        out.append((idx, len(data), first))
    out.sort(key=lambda e: (e[0][0] if e[0] else -1, not e[2]))
    return out


def on_disk(text, newline):
    """the characters the text layer writes for `text` under open()'s `newline` keyword"""
    nl = os.linesep if newline in ("default", None) else ("\n" if newline == "" else newline)
    return text.replace("\n", nl)


def as_is_packing(S, P, tb, db):
    """files the CURRENT accounting produces when it only counts message.encode(): rotate iff size + tb > S, grow by
    db (used solely to classify a violation as the known newline finding)"""
    files, cur, size = [], [], P
    for k in range(len(tb)):
        if size + tb[k] > S:
            files.append(cur)
            cur, size = [], 0
        cur.append(k)
        size += db[k]
    files.append(cur)
    return files


BUFFERINGS = [None, None, None, 1, -1, -1, 2, 16, 64, 4096, 1 << 20]   # None = FileSink's own default (1)
LINE_ENDS = ["\n", "\n", "\n", "\n", "|", "", ";\t"]


def is_number(r):
    """a real number, whatever its Python type (the property speaks of the quantity, not of `float`)"""
    import numbers
    return isinstance(r, (numbers.Real, decimal.Decimal)) and not isinstance(r, bool) and r == r \
        and r not in (float("inf"), float("-inf"))


def spell_size(rng, value, prefix_i, binary, bits):
    """value: Fraction with power-of-ten denominator, in the unit given -> spelling"""
    num = R.fmt_dec(value)
    if value.denominator == 1 and rng.chance(10):
        num = rng.choice([num + ".0", "+" + num, num + "e0", num + "."])
    u = PREFIX[prefix_i - 1] if prefix_i else ""
    if u and rng.chance(50):
        u = u.upper()
    i = ("i" if rng.chance(50) else "I") if binary else ""
    b = "b" if bits else "B"
    gap = rng.choice(["", " ", "  "])
    if u in ("e", "E") and gap == "":
        gap = " "    # "1EB" reads as the float "1E" followed by "B" and is rejected (ValueError) – see design notes
    return rng.choice(["", " "]) + num + gap + u + i + b + rng.choice(["", " "])


def exact_size(value, prefix_i, binary, bits):
    return value * (1024 if binary else 1000) ** prefix_i / (8 if bits else 1)


def gen_limit(rng, around):
    """a limit near `around` bytes -> (python object, wire item, floor, how)"""
    S = max(1, around)
    k = rng.below(10)
    if k < 3 and rng.chance(15):
        # other real numbers `_make_rotation_function` takes for a size: a Fraction, a bool, zero, a negative number
        j = rng.below(4)
        if j == 0:
            return Fraction(2 * S + 1, 2), "N%d" % S, S, "Fraction"
        if j == 1:
            return True, "N1", 1, "bool"
        if j == 2:
            return 0, "N0", 0, "zero"
        return -3, "N-3", -3, "negative"
    if k < 3:
        return S, "N%d" % S, S, "int"
    if k == 3:
        f = S + rng.choice([0.5, 0.25, 0.0, 0.75])
        return f, "N%d" % S, S, "float"
    if k == 4:
        return decimal.Decimal(S) + decimal.Decimal("0.5"), "N%d" % S, S, "Decimal"
    if k < 7:
        s = spell_size(rng, Fraction(S), 0, False, False)
        return s, "S" + enc(s), S, "spelling:B"
    if k == 7:
        s = spell_size(rng, Fraction(S * 8 + rng.choice([0, 4])), 0, False, True)
        return s, "S" + enc(s), S, "spelling:bits"
    if k == 8:
        s = spell_size(rng, Fraction(S, 1000), 1, False, False)
        return s, "S" + enc(s), S, "spelling:kB"
    v = Fraction(S * 1000 // 1024 + 1, 1000)   # x.xxx KiB, floor computed exactly
    s = spell_size(rng, v, 1, True, False)
    return s, "S" + enc(s), int(v * 1024), "spelling:KiB"


def listing(d):
    return {n: os.stat(os.path.join(d, n)).st_size for n in os.listdir(d)}


PATH_KINDS = ["plain", "plain", "plain", "dir_symlink", "file_symlink"]


def make_log_path(d, kind, pre):
    """where the sink is told to log -> (path handed to loguru, directory to look at).  The path may reach the file
    through a symbolic link: a symlinked log directory (/var/log/app -> /data/logs) or a symlinked log file."""
    logdir = os.path.join(d, "logs")
    if kind == "dir_symlink":
        real = os.path.join(d, "real_logs")
        os.mkdir(real)
        os.symlink(real, logdir)
    else:
        os.mkdir(logdir)
    path = os.path.join(logdir, "app.log")
    if kind == "file_symlink":
        os.mkdir(os.path.join(d, "targets"))
        target = os.path.join(d, "targets", "current.log")
        if pre is not None:
            with open(target, "wb") as fh:
                fh.write(pre)
        os.symlink(target, path)
    elif pre is not None:
        with open(path, "wb") as fh:
            fh.write(pre)
    return path, logdir


def over_limit(d, limit, blobs):
    """first file in the directory that breaks the bound *as the disk shows it right now*: more than `limit`
    bytes and not (a prefix of) one single message"""
    for name, size in listing(d).items():
        if size > limit:
            with open(os.path.join(d, name), "rb") as fh:
                data = fh.read()
            if len(data) > limit and not any(b.startswith(data) for b in blobs):
                return (name, len(data))
    return None


def run_sink_case(obj, ts0, pre, msgs, encoding, texts_bytes, S, P, buffering=None, newline="default",
                  path_kind="plain", errors="default"):
    """like R.impl_sink, but looks at the directory after every call (direct oracle, first half).
    The stream is NOT flushed by the harness: what the rotation test does not count must not pile up."""
    import loguru._file_sink as fs
    import shutil
    import tempfile
    d = tempfile.mkdtemp(prefix="verif-size-")
    ctimes = {}
    clock = R.FrozenClock()
    old_dt = fs.datetime
    over = None
    blobs = [enc_bytes(on_disk(t, newline), encoding, errors) for _, _, t in msgs]
    kw = {} if buffering is None else {"buffering": buffering}
    if newline != "default":
        kw["newline"] = newline
    if errors != "default":
        kw["errors"] = errors
    try:
        path, d_logs = make_log_path(d, path_kind, pre)
        rp = os.path.realpath
        with R.patched_ctime(lambda p: ctimes.get(rp(p), ts0), lambda p, t: ctimes.__setitem__(rp(p), t)):
            fs.datetime = clock.module
            try:
                try:
                    sink = fs.FileSink(path, rotation=obj, encoding=encoding, **kw)
                except Exception as e:  # noqa
                    return ("err", R.canon_err(e)), None
                try:
                    with R.time_limit(20):
                        for i, (utc, off, text) in enumerate(msgs):
                            clock.now_us = utc
                            sink.write(R.make_message(text, utc, off))
                            if over is None:
                                hit = over_limit(d_logs, max(S, P), blobs)
                                if hit:
                                    over = (i,) + hit
                except R.Hang:
                    return ("hang", 0), None
                finally:
                    try:
                        sink.stop()
                    except Exception:  # noqa
                        pass
            finally:
                fs.datetime = old_dt
        files = []
        for name in os.listdir(d_logs):
            with open(os.path.join(d_logs, name), "rb") as fh:
                files.append((name, fh.read()))
        return ("ok", files), over
    finally:
        shutil.rmtree(d, ignore_errors=True)


def run_logger_case(obj, pre, bodies, end, encoding, S, P, buffering=None, newline="default", path_kind="plain",
                    errors="default"):
    """the same through the public API: logger.add(path, format=…, rotation=…, buffering=…, encoding=…) and
    logger.info(); `end` == "\n" uses the string format "{message}", anything else a callable format that
    leaves the record without a line end.  Only size conditions (the clock is real here)."""
    import shutil
    import tempfile
    from loguru._logger import Core, Logger
    # a private logger with no other handler (same construction as loguru/__init__.py)
    logger = Logger(core=Core(), exception=None, depth=0, record=False, lazy=False, colors=False, raw=False,
                    capture=True, patchers=[], extra={})
    d = tempfile.mkdtemp(prefix="verif-size-")
    over = None
    blobs = [enc_bytes(on_disk(b + end, newline), encoding, errors) for b in bodies]
    kw = {} if buffering is None else {"buffering": buffering}
    if newline != "default":
        kw["newline"] = newline
    if errors != "default":
        kw["errors"] = errors
    try:
        path, d_logs = make_log_path(d, path_kind, pre)
        fmt = "{message}" if end == "\n" else (lambda record: "{message}" + end)
        try:
            hid = logger.add(path, format=fmt, rotation=obj, encoding=encoding, colorize=False, catch=False, **kw)
        except Exception as e:  # noqa
            return ("err", R.canon_err(e)), None
        try:
            with R.time_limit(20):
                for i, b in enumerate(bodies):
                    logger.info(b)
                    if over is None:
                        hit = over_limit(d_logs, max(S, P), blobs)
                        if hit:
                            over = (i,) + hit
        except R.Hang:
            return ("hang", 0), None
        except Exception as e:  # noqa
            return ("raised", R.canon_err(e)), None
        finally:
            logger.remove(hid)
        files = []
        for name in os.listdir(d_logs):
            with open(os.path.join(d_logs, name), "rb") as fh:
                files.append((name, fh.read()))
        return ("ok", files), over
    finally:
        shutil.rmtree(d, ignore_errors=True)


def greedy_with_foreign(S, P, ops):
    """the files the property demands when other writers also append: ops = ("m", i, blob) | ("x", j, blob);
    a record starts a new file iff the bytes REALLY in the current file plus its own exceed S"""
    files, cur, size = [], [b"x" * P], P
    for kind, _, blob in ops:
        if kind == "m" and size + len(blob) > S:
            files.append(b"".join(cur))
            cur, size = [], 0
        cur.append(blob)
        size += len(blob)
    files.append(b"".join(cur))
    return files


def run_foreign_case(S, P, ops, buffering=None):
    """a real FileSink (size rotation S) while another writer appends to the same path between two records
    -> ("ok", [contents]) | …"""
    import loguru._file_sink as fs
    import shutil
    import tempfile
    d = tempfile.mkdtemp(prefix="verif-size-")
    ctimes = {}
    try:
        path, d_logs = make_log_path(d, "plain", (b"x" * P) if P else None)
        rp = os.path.realpath
        with R.patched_ctime(lambda p: ctimes.get(rp(p), 0.0), lambda p, t: ctimes.__setitem__(rp(p), t)):
            kw = {} if buffering is None else {"buffering": buffering}
            sink = fs.FileSink(path, rotation=S, **kw)
            try:
                with R.time_limit(20):
                    for kind, i, blob in ops:
                        if kind == "x":
                            with open(path, "ab") as other:      # O_APPEND, like a second handler or another process
                                other.write(blob)
                        else:
                            sink.write(R.make_message(blob.decode("utf8"), i, 0))
            except R.Hang:
                return ("hang", 0)
            except Exception as e:  # noqa
                return ("raised", R.canon_err(e))
            finally:
                try:
                    sink.stop()
                except Exception:  # noqa
                    pass
        out = []
        for name in os.listdir(d_logs):
            with open(os.path.join(d_logs, name), "rb") as fh:
                out.append(fh.read())
        return ("ok", out)
    finally:
        shutil.rmtree(d, ignore_errors=True)


def float_obs(r):
    """what the driver op `sizef` prints for a Python result of parse_size"""
    if r is None:
        return "none"
    if isinstance(r, Exception):
        return "err " + R.canon_err(r)
    if r != r:
        return "nan"
    if r in (float("inf"), float("-inf")):
        return "inf" if r > 0 else "-inf"
    n, d = r.as_integer_ratio()
    return "%d/%d" % (n, d)


def model_float_obs(o):
    p = o.split(" ")
    if p[0] != "ok":
        return o
    n, d = (int(x) for x in p[1].split("/"))
    fr = Fraction(n, d)
    return "%d/%d" % (fr.numerator, fr.denominator)


def gen_number_spelling(rng):
    """number part of a size spelling as `float()` reads it: many digits, fractions that are not dyadic, exponents,
    magnitudes from subnormal to overflow, signs"""
    k = rng.below(12)
    if k < 3:
        s = str(rng.range(0, 10**rng.range(1, 6)))
    elif k < 5:
        s = "%d.%s" % (rng.range(0, 5000), "".join(rng.choice("0123456789") for _ in range(rng.range(1, 20))))
    elif k == 5:
        s = "".join(rng.choice("0123456789") for _ in range(rng.range(16, 40)))          # beyond 2^53
    elif k == 6:
        s = "%d.%de%s%d" % (rng.range(0, 99), rng.range(0, 10**6), rng.choice(["", "+", "-"]), rng.range(0, 40))
    elif k == 7:
        s = "%de%s%d" % (rng.range(1, 9999), rng.choice(["", "-"]), rng.choice([300, 307, 308, 309, 320, 323, 324, 330, 400]))
    elif k == 8:
        s = rng.choice(["0.1", "0.57", "4.35", "2.675", "1.15", "0.3", "1.1", "0.7", "1e23", "9007199254740993",
                        "9007199254740992", "4503599627370497.5", "0.0000001", ".5", "5.", "1e-7", "123456789.123456789"])
    elif k == 9:
        s = "." + "".join(rng.choice("0123456789") for _ in range(rng.range(1, 25)))
    elif k == 10:
        s = "%d" % (2 ** rng.range(40, 70) + rng.choice([-1, 0, 1]))
    else:
        s = "%d.%d" % (rng.range(0, 10**4), rng.choice([5, 25, 75, 125, 375, 0]))
    if rng.chance(8):
        s = rng.choice(["+", "-"]) + s
    if rng.chance(10):
        s = s.replace("e", "E")
    return s


def run_float_stream(ctx, drv, rng):
    """parse_size bit for bit: the double Python returns against `Rotation.parseSizeF` (binary64 model of
    `float(number)` and of the regenerated formula `s * i**u / b`), on spellings whose numbers need rounding."""
    from loguru import _string_parsers as sp
    lines, exp = [], []
    for i in range(ctx.n(2000, 60000)):
        num = gen_number_spelling(rng)
        prefix_i = rng.choice([0, 0, 1, 1, 2, 3, 4, 5, 6, 7, 8])
        binary = rng.chance(40) and prefix_i > 0
        u = PREFIX[prefix_i - 1] if prefix_i else ""
        if u and rng.chance(50):
            u = u.upper()
        gap = rng.choice(["", " "])
        if u in ("e", "E") and gap == "":
            gap = " "
        if not u and gap == "" and num[-1] in "eE":
            gap = " "
        text = num + gap + u + (rng.choice(["i", "I"]) if binary else "") + rng.choice(["b", "B", "B"])
        try:
            r = sp.parse_size(text)
        except Exception as ex:  # noqa
            r = ex
        ctx.case(("sizef", text), nontrivial=isinstance(r, float))
        ctx.stat("parse_size_binary64")
        if isinstance(r, float) and r not in (float("inf"), float("-inf")) and r.as_integer_ratio()[1] != 1:
            ctx.stat("parse_size_binary64:fractional")
        lines.append("sizef " + enc(text))
        exp.append((text, float_obs(r)))
    def judge(out):
        for (text, want), o in zip(exp, out):
            ctx.traces_validated += 1
            if model_float_obs(o) != want:
                ctx.stat("disagreements")
                ctx.broke("correspondence Rotation.parseSizeF", "parse_size(%r): Python %s, binary64 model %s" % (text, want, o))
    return lines, judge


def run_text_stream(ctx, drv, rng):
    """CPython's text stream in append mode against `Rotation/Stream.lean` (the hand-written model under
    `buffered_tell_is_file_size`): open(path, "a", buffering=…) like FileSink does, then random writes, appends by
    another descriptor, and the three ways of reading "the size of the file" (`seek(0, 2); tell()`, `tell()` alone,
    `os.fstat`).  Direct oracle for the assumption the size bound rests on: `seek(0, 2); tell()` IS the number of bytes
    the file really holds (pre-existing + own writes, flushed or not, + foreign appends), whatever the buffering."""
    import shutil
    import tempfile
    d = tempfile.mkdtemp(prefix="verif-stream-")
    lines, exp = [], []
    try:
        for i in range(ctx.n(250, 8000)):
            path = os.path.join(d, "s%d.log" % i)
            P = rng.choice([0, 0, 7, rng.range(1, 300)])
            with open(path, "wb") as fh:
                fh.write(b"p" * P)
            buffering = rng.choice([1, 1, -1, 2, 16, 64, 4096, 1 << 20])
            newline = rng.choice(["default", "default", "", "\n", "\r\n"])
            kw = {} if newline == "default" else {"newline": newline}
            f = open(path, mode="a", buffering=buffering, encoding="utf8", **kw)
            toks, vals, total = [], [], P
            try:
                for _ in range(rng.range(2, 12)):
                    k = rng.below(10)
                    if k < 5:
                        body = "".join(rng.choice("abcé€ ") for _ in range(rng.choice([0, 1, 5, 20, 70, rng.range(0, 300)])))
                        text = body + rng.choice(["\n", "\n", "\n", "", "|", "\nzz"])
                        n = len(on_disk(text, newline).encode("utf8"))
                        before = os.stat(path).st_size
                        f.write(text)
                        flushed = os.stat(path).st_size - before
                        total += n
                        toks.append("W%d:%d" % (n, flushed))
                    elif k < 7:
                        blob = b"#" * rng.range(1, 40)
                        with open(path, "ab") as other:
                            other.write(blob)
                        total += len(blob)
                        toks.append("X%d" % len(blob))
                    elif k == 7:
                        vals.append(f.tell())
                        toks.append("Mt")
                    elif k == 8:
                        vals.append(os.fstat(f.fileno()).st_size)
                        toks.append("Mf")
                    else:
                        f.seek(0, 2)
                        v = f.tell()
                        vals.append(v)
                        toks.append("Ms")
                        if v != total:
                            # a property of CPython's io, not of loguru: an assumption of the proof that no longer holds
                            ctx.broke("assumption: file.tell() after seek(0, 2) is the size of the file",
                                      "text stream opened with buffering=%r: after seek(0, 2) tell() is %d but the file "
                                      "holds %d bytes (ops %s)" % (buffering, v, total, " ".join(toks)))
                disk = os.stat(path).st_size
                pos = os.lseek(f.fileno(), 0, os.SEEK_CUR)
            finally:
                f.close()
            os.remove(path)
            ctx.case(("textstream", buffering, newline, P, tuple(toks)), nontrivial=("Ms" in toks and any(t[0] == "W" for t in toks)))
            ctx.stat("text_stream_cases")
            ctx.stat("text_stream_buffering:%s" % buffering)
            lines.append("stream %d %s" % (P, " ".join(toks)))
            exp.append((buffering, toks, "ok %s %d %d %d" % (",".join(str(v) for v in vals), disk, total - disk, pos)))
    finally:
        shutil.rmtree(d, ignore_errors=True)
    def judge(out):
        for (buffering, toks, want), o in zip(exp, out):
            ctx.traces_validated += 1
            if o != want:
                ctx.stat("disagreements")
                ctx.broke("correspondence Rotation.Stream", "buffering=%r ops=%s: CPython %r, model %r" % (buffering, " ".join(toks), want, o))
    return lines, judge


def canon_files(idx_lists):
    non = [f for f in idx_lists if f]
    return R.show_files(non) + " e%d" % (len(idx_lists) - len(non))


def canon_model(o):
    p = o.split(" ")
    if p[0] != "ok":
        return o
    body = p[1] if len(p) > 1 else ""
    parts = body.split("|")
    non = [x for x in parts if x]
    return "|".join(non) + " e%d" % (len(parts) - len(non))


def run(ctx):
    rng = ctx.rng
    drv = core.Driver(DRIVER)
    boost = 4 if getattr(ctx, "search_boost", False) else 1
    lines, expect = [], []

    def sink_case(obj, token, S, P, encoding, texts, stamps, off, eff, ts, pure, rep_extra, key=None, how="",
                  buffering=None, via="sink", end="\n", newline="default", path_kind="plain", errors="default"):
        pre = (b"x" * P) if P else None
        tb = [len(enc_bytes(t, encoding, errors)) for t in texts]          # what rotation_size must add
        disk_texts = [on_disk(t, newline) for t in texts]
        disk_blobs = [enc_bytes(t, encoding, errors) for t in disk_texts]
        db = [len(b) for b in disk_blobs]                                  # what reaches the file
        if via == "logger":
            got, over = run_logger_case(obj, pre, [t[:len(t) - len(end)] for t in texts], end, encoding, S, P, buffering,
                                        newline, path_kind, errors)
        else:
            got, over = run_sink_case(obj, ts, pre, [(u, off, t) for u, t in zip(stamps, texts)], encoding, tb, S, P,
                                      buffering, newline, path_kind, errors)
        rep = dict({"stream": "sink", "token": token, "spelling": obj if isinstance(obj, str) else repr(obj),
                    "limit_floor": S, "pre": P, "encoding": encoding, "texts": texts, "stamps": stamps, "offset": off,
                    "ctime": eff, "buffering": buffering, "via": via, "end": end, "newline": newline, "path_kind": path_kind, "errors": errors}, **rep_extra)
        ctx.stat("errors:" + errors)
        ctx.stat("path:" + path_kind)
        ctx.stat("newline:%r" % (newline,))
        ctx.stat("buffering:%s" % ("default" if buffering is None else buffering))
        ctx.stat("line_end:" + ("newline" if end == "\n" else "none" if end == "" else "other"))
        ctx.stat("via:" + via)
        if got[0] != "ok":
            ctx.violation("file sink with rotation %r: %s" % (rep["spelling"], got), dict(rep, observed=list(got)), key=key)
            return
        if over is not None and db == tb:
            ctx.violation("rotation %r, encoding %s, buffering %s, via %s, path %s: after message %d file %s has %d bytes "
                          "on disk > limit %d and is not a single message" % (rep["spelling"], encoding, buffering, via,
                                                                             path_kind, over[0], over[1], over[2], S),
                          dict(rep, observed=list(over)), key=key)
        part = partition_blobs(got[1], disk_blobs, pre)
        if part is None:
            ctx.violation("rotation %r: log files do not decompose into the written messages" % rep["spelling"], rep, key=key)
            return
        # A file over the bound is attributed to the finding KEY_NEWLINE iff the newline translation lengthens the
        # records AND, by the code's own accounting (bytes on disk so far + len(message.encode())), every message
        # appended to that file did fit; a file that the code's own accounting should have closed stays unclassified.
        def explained_by_newline(idx, size, init):
            acc = init
            for j, i in enumerate(idx):
                if j > 0 or init > 0:
                    if acc + tb[i] > max(S, init if j == 0 else 0) and acc + tb[i] > S:
                        return False
                acc += db[i]
            return True

        if key is None and db != tb:
            bad_files = [(idx, size, P if first else 0) for idx, size, first in part
                         if not (size <= max(S, P if first else 0) or (len(idx) == 1 and not first))]
            if bad_files and all(explained_by_newline(*f) for f in bad_files):
                key = KEY_NEWLINE
        if over is not None and db != tb:
            ctx.violation("rotation %r, encoding %s, buffering %s, newline %r, via %s: after message %d file %s has %d "
                          "bytes on disk > limit %d and is not a single message"
                          % (rep["spelling"], encoding, buffering, newline, via, over[0], over[1], over[2], S),
                          dict(rep, observed=list(over)), key=key)
        appended = 0
        for idx, size, first in part:
            init = P if first else 0
            if size != init + sum(db[i] for i in idx):
                ctx.violation("rotation %r: a file has %d bytes but its messages add up to %d"
                              % (rep["spelling"], size, init + sum(db[i] for i in idx)), rep, key=key)
            if not (size <= max(S, init) or (len(idx) == 1 and init == 0)):
                ctx.violation("rotation %r, encoding %s, errors %s, buffering %s, newline %r, via %s, path %s, limit %d: a "
                              "file with messages %s holds %d bytes on disk%s" % (rep["spelling"], encoding, errors, buffering,
                                                                               newline, via, path_kind, S, idx, size,
                                                            " (rotation_size counted %d + %s)" % (init, [tb[i] for i in idx])
                                                            if db != tb else ""),
                              dict(rep, observed=[idx, size]), key=key)
            if idx:
                appended += len(idx) - 1
        # minimality (pure size conditions): message i starts a new file only if it did not fit
        nonempty = sorted((e for e in part if e[0]), key=lambda e: e[0][0])
        empties = [e for e in part if not e[0]]
        original = [e for e in part if e[2]] if P else (empties[:1] or nonempty[:1])
        if pure and original:
            seq = original[:1] + [e for e in nonempty if e is not original[0]]
            for prev, cur in zip(seq, seq[1:]):
                k = cur[0][0]
                if not (prev[1] + db[k] > S):
                    ctx.violation("rotation %r, encoding %s, errors %s, limit %d: message %d (%d bytes) started a new file "
                                  "although the current one had %d bytes" % (rep["spelling"], encoding, errors, S, k, db[k],
                                                                            prev[1]),
                                  dict(rep, observed=[k, prev[1]]), key=key)
        obs = canon_files([p[0] for p in part])
        ctx.case(("sink", token, encoding, P, tuple(texts)), nontrivial=(len(part) > 1 and appended > 0))
        ctx.stat("sink:" + how)
        ctx.stat("encoding:" + encoding)
        ctx.stat("files", len(part))
        msgs = " ".join("%d,%d,%d,%d,%d" % (u, off, b, len(t), dk) for u, b, t, dk in zip(stamps, tb, texts, db))
        lines.append("sink %s %d %d %s" % (token, eff, P, msgs))
        expect.append((rep, obs))

    # ---- stream 0: corpus (F4 regression and minimised past cases)
    import json
    for name, c in R.load_corpus("C19"):
        texts = c["texts"]
        stamps = list(range(len(texts)))
        ts, eff = R.ctime_pair(0)
        ctx.stat("corpus")
        sink_case(R.object_of_token(c["token"]), c["token"], c["limit_floor"], c.get("pre", 0), c.get("encoding", "utf8"),
                  texts, stamps, 0, eff, ts, True, {"corpus": name}, key=c.get("key"), how="corpus",
                  buffering=c.get("buffering"), via=c.get("via", "sink"), end=c.get("end", "\n"),
                  newline=c.get("newline", "default"), path_kind=c.get("path_kind", "plain"),
                  errors=c.get("errors", "default"))

    # ---- stream 2: spellings of sizes denote the documented quantities (value level; evaluated before the sink-level
    # stream so that a wrong QUANTITY is reported as such, not through one of its consequences on a directory)
    vr = rng.fork("values")
    from loguru import _string_parsers as sp
    plines, pexp = [], []
    for i in range(ctx.n(3000, 100000)):
        prefix_i = vr.choice([0, 0, 1, 1, 2, 2, 3, 4, 5, 6, 7, 8])
        binary = vr.chance(35) and prefix_i > 0
        bits = vr.chance(30)
        value = Fraction(vr.choice([1, 2, 8, 10, 16, 100, 500, 1024, vr.range(1, 5000), 1004, 12, 1001, vr.range(1, 5000)]))
        if vr.chance(35):
            value += Fraction(vr.choice([5, 25, 75, 125, 1, 3]), vr.choice([10, 100, 1000]))
        s = spell_size(vr, value, prefix_i, binary, bits)
        want = exact_size(value, prefix_i, binary, bits)
        try:
            r = sp.parse_size(s)
        except Exception as ex:  # noqa
            r = ex
        ctx.case(("size", s), nontrivial=True)
        ctx.stat("parse_size")
        ctx.stat("parse_size:%s%s%s" % (PREFIX[prefix_i - 1] if prefix_i else "", "i" if binary else "", "b" if bits else "B"))
        ok = is_number(r) and abs(Fraction(r) - want) <= want / 2**48
        if not ok:
            ctx.violation("parse_size(%r) = %r, the spelling denotes %s bytes%s" % (
                s, r, want, "" if not is_number(r) or want.denominator == 1 else
                " (a fractional quantity: no file may grow beyond %d bytes)" % (want.numerator // want.denominator)),
                {"stream": "size", "text": s, "expected": str(want)})
        plines.append("size " + enc(s))
        pexp.append((s, r, want))
    alpha = ["1", "0", "5", ".", " ", "e", "E", "-", "+", "k", "K", "m", "g", "i", "I", "b", "B", "b", "B", "kb", "MiB", "1.5",
             "z", "y", "\t", "x", "d", "h"]
    alines, aexp = [], []
    for i in range(ctx.n(2000, 80000)):
        s = "".join(vr.choice(alpha) for _ in range(vr.range(1, 6)))
        if vr.chance(60):
            s = vr.choice(["1", "12", "1.5", "1e3", "+2", ".5", "1.", "1e", "-1", "1.2.3", "e1"]) + s
        try:
            r = sp.parse_size(s)
            e = "none" if r is None else ("num", r)
        except Exception as ex:  # noqa
            e = "err " + R.canon_err(ex)
        ctx.case(("size-adv", s))
        ctx.stat("parse_size_adversarial:" + (e if isinstance(e, str) else "value"))
        alines.append("size " + enc(s))
        aexp.append((s, e))

    # ---- stream 1: real FileSinks around the limit
    n1 = ctx.n(2500, 30000) * boost
    for i in range(n1):
        encoding = rng.choice(["utf8", "utf8", "utf8", "latin-1", "utf-16-le", "ascii"])
        errors = rng.choice(ERRORS)
        if errors == "surrogatepass" and encoding not in ("utf8", "utf-16-le"):
            errors = "default"
        if encoding in ("latin-1", "ascii") and errors in LENIENT:
            # characters the encoding does not have: what reaches the file depends on the error handler
            kinds = rng.choice([["ascii", "three"], ["ascii", "latin", "two"], ["four", "ascii"], ["ascii", "three", "four"]])
        elif encoding == "ascii":
            kinds = ["ascii"]
        elif errors == "surrogatepass":
            kinds = rng.choice([["ascii", "surrogate"], ["surrogate", "two"]])
        elif encoding == "latin-1":
            kinds = rng.choice([["ascii"], ["latin"], ["ascii", "latin"]])
        else:
            kinds = rng.choice([["ascii"], ["two"], ["three"], ["four"], ["ascii", "two", "three", "four"], ["latin"]])
        around = rng.choice([16, 24, 40, 64, 100, rng.range(8, 200)])
        obj, item, S, how = gen_limit(rng, around)
        if S >= 2:
            P = rng.choice([0, 0, 0, rng.range(1, S), S, S + rng.range(1, 30), S - 1 if S > 1 else 0])
        else:
            P = rng.choice([0, 0, 5, 1])       # limits of one byte, zero, negative: every record gets its own file
        pure = True
        token = item
        off = rng.choice(R.OFFSETS)
        eff0 = R.gen_creation(rng) - off
        ts, eff = R.ctime_pair(eff0)
        sem = None
        if rng.chance(25):
            pure = False
            meaning = rng.choice([("freq", "daily"), ("freq", "hourly"), ("interval", R.HOUR), ("daily", (12, 0, 0, 0), None)])
            sem = meaning
            tobj, ttok, _ = R.render(rng, meaning)
            if rng.chance(50):
                obj, token = [obj, tobj], item + ";" + ttok
            else:
                obj, token = [tobj, obj], ttok + ";" + item
            if rng.chance(30):
                obj = tuple(obj)
            elif rng.chance(15):
                obj = [obj[:1], obj[1]]          # a nested list: any(any(...), ...) is the same any-of
            how += "+time"
        elif rng.chance(6) and not isinstance(obj, bool):
            obj = rng.choice([[obj], (obj,), {obj}, [[obj]]])     # containers of one condition
            how += "+container"
        buffering = rng.choice(BUFFERINGS)
        newline = rng.choice(NEWLINES)
        path_kind = rng.choice(PATH_KINDS)
        end = rng.choice(LINE_ENDS)
        via = "logger" if pure and rng.chance(20) else "sink"
        nmsg = rng.range(2, 9) if rng.chance(80) else rng.range(9, 16)
        texts, stamps = [], []
        room = S - P
        t = eff
        for k in range(nmsg):
            c = rng.below(10)
            if c < 3 and room > 6:
                want = room                      # exact fit
            elif c < 5 and room > 5:
                want = room + 1                  # one byte over
            elif c == 5:
                want = S + rng.range(1, 20)      # larger than the limit
            elif c == 6:
                want = 0                         # shortest possible
            else:
                want = rng.range(5, max(6, S // 2 + 3))
            if encoding == "utf-16-le":
                want += want % 2
            text = gen_text(rng, k, want, encoding, kinds, end, errors)
            if rng.chance(12) and len(text) > 8:
                mid = len(text) // 2            # a multi-line record: every inner line end is translated as well
                text = text[:mid] + "\n" + text[mid + 1:]
            b = len(enc_bytes(text, encoding, errors))
            texts.append(text)
            room = room - b if room - b >= 0 and room >= 0 else S - b
            t += rng.choice([0, 1, 1000, 60 * 10**6, R.HOUR, R.HOUR * 7, R.DAY]) if not pure else k
            stamps.append(t)
        sink_case(obj, token, S, P, encoding, texts, stamps, off, eff, ts, pure, {}, how=how, buffering=buffering,
                  via=via, end=end, newline=newline, path_kind=path_kind, errors=errors)

    # ---- stream 1b: another writer appends to the same file between two records (a second handler on the same
    # path, another process): the size test must see the real end of the file
    flines, fexp = [], []
    for i in range(ctx.n(300, 6000) * boost):
        S = rng.choice([16, 24, 40, 64, 100, rng.range(12, 150)])
        P = rng.choice([0, 0, rng.range(1, S)])
        ops, room, k, j = [], S - P, 0, 0
        for _ in range(rng.range(3, 10)):
            if ops and rng.chance(35):
                blob = ("#x%d%s#\n" % (j, "." * rng.below(12))).encode()
                ops.append(("x", j, blob))
                j += 1
            else:
                want = room if (room > 6 and rng.chance(35)) else room + 1 if (room > 5 and rng.chance(20)) else rng.range(5, max(6, S // 2))
                blob = gen_text(rng, k, want, "utf8", ["ascii"]).encode()
                ops.append(("m", k, blob))
                k += 1
            room = room - len(ops[-1][2]) if room - len(ops[-1][2]) >= 0 else S - len(ops[-1][2])
        buffering = rng.choice([None, None, 1])
        got = run_foreign_case(S, P, ops, buffering)
        want_files = sorted(f for f in greedy_with_foreign(S, P, ops) if f)
        nx = sum(1 for o in ops if o[0] == "x")
        ctx.case(("foreign", S, P, tuple(o[2] for o in ops)), nontrivial=(nx > 0 and len(want_files) > 1))
        ctx.stat("foreign_writer_cases")
        ctx.stat("foreign_appends", nx)
        rep_ = {"stream": "foreign", "limit_floor": S, "pre": P, "buffering": buffering,
                "ops": [[kind, idx, blob.decode()] for kind, idx, blob in ops],
                "expected": [len(f) for f in want_files]}
        if got[0] != "ok":
            ctx.violation("size rotation %d with another writer on the same file: %s" % (S, got), dict(rep_, observed=list(got)))
            continue
        seen = sorted(f for f in got[1] if f)
        if seen != want_files:
            ctx.violation("size rotation %d, pre-existing %d bytes, another writer appending between records: files of %s "
                          "bytes on disk, the limit demands %s (a record must start a new file when the bytes really in "
                          "the file plus its own exceed the limit)" % (S, P, [len(f) for f in seen], [len(f) for f in want_files]),
                          dict(rep_, observed=[len(f) for f in seen]))
        toks = " ".join("X%d" % len(b) if kind == "x" else "%d,0,%d,%d" % (idx, len(b), len(b)) for kind, idx, b in ops)
        # expected message indices per file, for the model
        idx_files, cur, size = [], [], P
        for kind, idx, b in ops:
            if kind == "m" and size + len(b) > S:
                idx_files.append(cur)
                cur, size = [], 0
            if kind == "m":
                cur.append(idx)
            size += len(b)
        idx_files.append(cur)
        flines.append("sink N%d 0 %d %s" % (S, P, toks))
        fexp.append((rep_, canon_files(idx_files)))

    try:
        out = drv.run(lines + plines + alines + flines)
    except core.DriverError as e:
        ctx.broke("driver:" + DRIVER, str(e))
        out = []
    for (rep_, want), o in zip(fexp, out[len(lines) + len(plines) + len(alines):]):
        ctx.traces_validated += 1
        if canon_model(o) != want:
            ctx.stat("disagreements")
            ctx.broke("correspondence Rotation.sink (foreign writer)", "ops=%r spec=%r model=%r" % (rep_["ops"], want, o))
    for (rep, obs), o in zip(expect, out):
        ctx.traces_validated += 1
        m = canon_model(o)
        if m != obs:
            ctx.stat("disagreements")
            ctx.broke("correspondence Rotation.sink", "spec=%r impl=%r model=%r" % (rep["spelling"], obs, m))
            ctx.violation("implementation and model disagree on the files of rotation %r (encoding %s, P=%d): impl %s, "
                          "model %s (the model is characterised by file_size_bounded / new_file_only_when_needed)"
                          % (rep["spelling"], rep["encoding"], rep["pre"], obs, m),
                          dict(rep, observed=obs, expected=m), kind="correspondence")
    base = len(lines)
    for (s, r, want), o in zip(pexp, out[base:base + len(plines)]):
        ctx.traces_validated += 1
        p = o.split(" ")
        good = p[0] == "ok" and Fraction(*[int(x) for x in p[1].split("/")]) == want
        if not good:
            ctx.stat("disagreements")
            ctx.broke("correspondence Rotation.parseSize", "parse_size(%r): exact %s, model %r" % (s, want, o))
    base += len(plines)
    for (s, e), o in zip(aexp, out[base:]):
        ctx.traces_validated += 1
        p = o.split(" ")
        if isinstance(e, str):
            good = o == e
        else:
            if p[0] == "ok":
                q = Fraction(*[int(x) for x in p[1].split("/")])
                r = e[1]
                good = (r == float("inf") and q > 10**300) or (r != float("inf") and (
                    abs(Fraction(r) - q) <= abs(q) / 2**48 or (q != 0 and abs(q) < Fraction(1, 10**300))))
            else:
                good = False
        if not good:
            ctx.stat("disagreements")
            ctx.broke("correspondence Rotation.parseSize", "parse_size(%r): impl %r, model %r" % (s, e, o))
    # ---- stream 5: parse_size in binary64, bit for bit; stream 4: CPython's buffered text stream vs the stream model
    # (what `tell` is) – one driver process for both
    l5, judge5 = run_float_stream(ctx, drv, rng.fork("float"))
    l4, judge4 = run_text_stream(ctx, drv, rng.fork("textstream"))
    try:
        out = drv.run(l5 + l4)
    except core.DriverError as e:
        ctx.broke("driver:" + DRIVER, str(e))
        out = []
    judge5(out[:len(l5)])
    judge4(out[len(l5):])
    R.dedup_broken(ctx)


def replay(ctx, rep):
    r = rep["replay"]
    if r.get("stream") == "foreign":
        ops = [(k, i, t.encode()) for k, i, t in r["ops"]]
        got = run_foreign_case(r["limit_floor"], r["pre"], ops, r.get("buffering"))
        want = sorted(f for f in greedy_with_foreign(r["limit_floor"], r["pre"], ops) if f)
        seen = sorted(f for f in got[1] if f) if got[0] == "ok" else None
        print("limit=%d pre-existing=%d ops=%r" % (r["limit_floor"], r["pre"], [(k, len(b)) for k, _, b in ops]))
        print("files on disk (bytes):", [len(f) for f in seen] if seen is not None else got)
        print("demanded by the limit:", [len(f) for f in want])
        bad = seen != want
    elif r.get("stream") == "size":
        from loguru import _string_parsers as sp
        try:
            v = sp.parse_size(r["text"])
        except Exception as ex:  # noqa
            v = ex
        want = Fraction(r["expected"])
        bad = not (is_number(v) and abs(Fraction(v) - want) <= want / 2**48)
        print("parse_size(%r) = %r, expected %s" % (r["text"], v, want))
    else:
        obj = R.object_of_token(r["token"])
        texts, enc_, S, P = r["texts"], r["encoding"], r["limit_floor"], r["pre"]
        tb = [len(enc_bytes(t, enc_, r.get("errors", "default"))) for t in texts]
        buffering, via, end = r.get("buffering"), r.get("via", "sink"), r.get("end", "\n")
        newline = r.get("newline", "default")
        path_kind = r.get("path_kind", "plain")
        errors = r.get("errors", "default")
        disk_texts = [on_disk(t, newline) for t in texts]
        disk_blobs = [enc_bytes(t, enc_, errors) for t in disk_texts]
        if via == "logger":
            got, over = run_logger_case(obj, (b"x" * P) if P else None, [t[:len(t) - len(end)] for t in texts], end, enc_,
                                        S, P, buffering, newline, path_kind, errors)
        else:
            got, over = run_sink_case(obj, R.ctime_pair(r["ctime"])[0], (b"x" * P) if P else None,
                                      [(u, r["offset"], t) for u, t in zip(r["stamps"], texts)], enc_, tb, S, P, buffering,
                                      newline, path_kind, errors)
        bad = got[0] != "ok" or over is not None
        sizes = None
        if got[0] == "ok":
            part = partition_blobs(got[1], disk_blobs, (b"x" * P) if P else None)
            tb = [len(b) for b in disk_blobs]
            sizes = [(idx, size) for idx, size, first in part] if part else None
            if part is None:
                bad = True
            else:
                for idx, size, first in part:
                    init = P if first else 0
                    if not (size <= max(S, init) or (len(idx) == 1 and init == 0)):
                        bad = True
                obs = canon_files([p[0] for p in part])
                if r.get("expected") is not None and obs != r["expected"] and isinstance(r["expected"], str):
                    bad = True
                if "observed" in r and isinstance(r["observed"], list) and len(r["observed"]) == 2 \
                        and isinstance(r["observed"][0], int):
                    # minimality violation: message k started a new file although it fitted
                    k = r["observed"][0]
                    for idx, size, first in part:
                        if idx and idx[0] == k and not first:
                            prev = [s for i2, s, f2 in part if i2 and i2[-1] == k - 1]
                            if prev and prev[0] + tb[k] <= S:
                                bad = True
        print("rotation=%r encoding=%s limit=%d pre=%d buffering=%s newline=%r via=%s line end=%r path=%s"
              % (r.get("spelling"), enc_, S, P, buffering, newline, via, end, path_kind))
        print("files (messages, bytes):", sizes if sizes is not None else got)
        print("first over-limit file seen during the run:", over)
    print("REPRODUCED" if bad else "not reproduced")
    return 1 if bad else 0
