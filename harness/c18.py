"""C18 – compression is lossless, removes the source only after success, never overwrites
(DESIGN §4 C18).  Uses the execution engine of harness/c08.py (real loguru objects over a real scratch
directory through harness/fsshim.py, Lean model through lean/drivers/C08.lean).

Streams: (1) spellings of the format string: `FileSink._make_compression_function` vs the model's
`parseCompression` and vs Python's own `.strip().lstrip('.')`; (2) compression scenarios: nine formats x
contents (empty, large, non-ASCII, other encodings) x pre-existing collisions (target, renamed target,
both, chains) x rotation / final stop / callable, fault-free and with every single fault (thorough:
pairs); every archive is DECOMPRESSED with the stdlib and compared byte for byte with the closed file at
the moment the source is removed (this is where the codec contract is checked rather than assumed).
"""
import functools

from harness import core, c08
from harness.c08 import CEXTS, KIND, PRE, I, S, W, base_sc
from harness.core import enc, dec

PROP = "C18"
LEAN_TARGETS = ["LoguruModel.Props.C18"]
AUDIT_FILE = "LoguruModel/Audit/C18.lean"
DRIVER = "C08"
RULE = ("(a) format spellings: strings built from the nine names, white space (ASCII and Unicode), dots and "
        "noise, non-trivial = accepted spelling that differs from the bare name or a rejected near miss; "
        "(b) executions = (compression scenario, fault set): format x payload x encoding x collision set x "
        "operation list, all single faults (thorough: pairs); non-trivial = a compression was attempted; "
        "distinct by (scenario, fault set)")
TRUSTED = c08.TRUSTED
ASSUMPTIONS = c08.ASSUMPTIONS + ["archives are read back with the same stdlib codecs that wrote them"]

SPACES = [" ", "\t", "\n", "\r", "\x0b", "\x0c", "\x1c", "\x1f", "\x85", "\xa0", " ", " ", " ",
          " ", " ", " ", " ", "　"]
NOISE = ["​", "x", "GZ", "Gz", ". ", " .", "..", "tar", "gz", ".", "-", "﻿", "\x00", "tgz", "7z", "rar"]


def gen_spelling(rng):
    r = rng.below(100)
    name = rng.choice(CEXTS)
    if r < 45:
        pre = "".join(rng.choice(SPACES) for _ in range(rng.below(3)))
        post = "".join(rng.choice(SPACES) for _ in range(rng.below(3)))
        return pre + "." * rng.below(3) + name + post
    if r < 70:
        parts = [rng.choice(SPACES + NOISE + CEXTS) for _ in range(rng.range(0, 4))]
        return "".join(parts)
    if r < 85:
        return rng.choice(SPACES) * rng.below(2) + "." * rng.below(2) + name + rng.choice(NOISE + SPACES)
    return rng.choice(NOISE) + name


def impl_spelling(s):
    from loguru._file_sink import Compression, FileSink
    try:
        f = FileSink._make_compression_function(s)
    except ValueError:
        return ("err", "ValueError")
    except Exception as e:  # noqa
        return ("err", core.err_kind(e))
    if not (isinstance(f, functools.partial) and f.func is Compression.compression):
        return ("other", repr(f))
    inner = f.keywords["compress_function"]
    kind = {Compression.copy_compress: "copy", Compression.add_compress: "add",
            Compression.write_compress: "write"}.get(inner.func, "?")
    return ("ok", kind, f.keywords["ext"])


def spelling_stream(ctx, drv):
    rng = ctx.rng.fork("spellings")
    n = ctx.n(1500, 40000)
    cases = [c for c in CEXTS] + ["." + c for c in CEXTS] + [" ." + c + "\n" for c in CEXTS] + ["", " ", ".", "tar.", "GZ"]
    cases += [gen_spelling(rng) for _ in range(n)]
    try:
        outs = drv.run(["fmt " + enc(s) for s in cases])
    except core.DriverError as e:
        ctx.broke("driver:" + drv.name, str(e))
        outs = [None] * len(cases)
    for s, o in zip(cases, outs):
        got = impl_spelling(s)
        norm = s.strip().lstrip(".")
        ctx.case(("spelling", s), nontrivial=(norm in CEXTS and s != norm) or (norm not in CEXTS and any(c in s for c in CEXTS)))
        ctx.stat("spelling:" + ("accepted" if got[0] == "ok" else "rejected"))
        # direct oracle: the property's own reading of the accepted spellings
        if norm in CEXTS:
            exp = ("ok", KIND[norm], "." + norm)
        else:
            exp = ("err", "ValueError")
        if got != exp:
            ctx.violation("compression=%r: expected %r, observed %r" % (s, exp, got),
                          {"stream": "spelling", "spelling": s, "expected": list(exp), "observed": list(got)})
        if o is None:
            continue
        parts = o.split(" ")
        model = ("ok", parts[1], dec(parts[2])) if parts[0] == "ok" else ("err", parts[1]) if parts[0] == "err" else ("bad", o)
        ctx.traces_validated += 1
        if model != got:
            ctx.broke("correspondence FileSink.parseCompression", "spelling %r: implementation %r, model %r" % (s, got, model))
            ctx.violation("implementation and model disagree on compression=%r: %r vs %r" % (s, got, model),
                          {"stream": "spelling", "spelling": s, "expected": list(model), "observed": list(got)},
                          kind="correspondence")


def scenarios(ctx):
    rng = ctx.rng.fork("c18-scenarios")
    out = []
    payloads = ["ascii", "uni", "big", "empty"]
    encodings = ["utf8", "utf8", "utf-16-le", "utf-32-be"]
    collisions = [[], [["A_R_5_1_b_0", "a", [PRE + 1]]],
                  [["A_R_5_1_b_0", "a", [PRE + 1]], ["A_R_6_1_R_5_1_b_0", "a", [PRE + 2]]],
                  [["A_R_5_1_b_0", "a", []], ["A_R_6_1_R_5_1_b_0", "a", [PRE + 2]], ["A_R_6_2_R_5_1_b_0", "a", [PRE + 3]]],
                  [["R_5_1_b_0", "f", [PRE + 4]], ["A_R_5_2_b_0", "a", [PRE + 5]]]]
    for i, ext in enumerate(CEXTS):
        # rotation with same-name rename; the archive name collides; second rotation hits the chain again
        out.append(base_sc(comp=ext, spelling=rng.choice([ext, "." + ext, " " + ext + " ", "\t." + ext + "\n"]),
                           payload=payloads[i % 4], encoding=encodings[(i // 2) % 4], pre=collisions[i % 5],
                           ops=[I(), W(1), W(), W(), W(1), W(), W(1), S()]))
        # no rotation: compression at the final stop, archive of the fixed name collides
        out.append(base_sc(rot=False, comp=ext, payload=payloads[(i + 1) % 4], encoding=encodings[(i + 1) % 4],
                           pre=[["A_b_0", "a", [PRE + 6]]] if i % 2 else [["A_b_0", "a", [PRE + 6]], ["A_R_6_1_b_0", "a", [PRE + 7]]],
                           ops=[W(), W(), S(), ["r"], W(), S()]))
    # file-name length and script: every format with a long ASCII / long CJK / mixed non-ASCII base name,
    # closed at rotation (renamed name = even longer) and at the final stop
    for i, ext in enumerate(CEXTS):
        out.append(base_sc(comp=ext, stem=c08.LONG_STEMS[i % len(c08.LONG_STEMS)], dir="logs",
                           payload=payloads[i % 4], ops=[W(), W(1), W(), S()]))
    out += c08.chdir_scenarios(["gz", "tar", "zip"])
    tail = byte_scenarios(ctx) + c08.hole_scenarios(ctx.quick, ctx.rng.fork("c18-holes"),
                                                   comps=(("tar.gz",) if ctx.quick else ("bz2", "tar.gz", "zip")))
    out.append(base_sc(comp="call", ops=[I(), W(), W(1), W(), S()]))
    out.append(base_sc(comp="call", rot=False, ops=[W(), S()]))
    out.append(base_sc(comp="call", timed=True, ops=[W(0, 1), W(1, 2), W(1, 2), S(2)]))
    nrand = ctx.n(4, 40)
    for _ in range(nrand):
        sc = c08.gen_scenario(rng)
        if sc["comp"] is None:
            sc["comp"] = rng.choice(CEXTS)
        sc["payload"] = rng.choice(payloads)
        if sc["comp"] in CEXTS:
            sc["spelling"] = rng.choice(["", ".", " ", " ."]) + sc["comp"] + rng.choice(["", " ", "\n"])
        out.append(sc)
    c08.with_names(out, shift=1)
    if ctx.quick:
        # quick tier: every format once with rotation, every second one at stop, plus the random ones
        out = [sc for j, sc in enumerate(out) if j >= 18 or j % 2 == 0 or j % 4 == 1]
    return out + c08.with_names(tail, shift=5)


def byte_scenarios(ctx):
    """"exactly the bytes of the closed file": contents with CR LF, lone CR, NUL and other control characters, and
    bytes >= 0x80 that are not valid UTF-8, under sink encodings other than UTF-8 (utf-16 with BOM, utf-16-le,
    latin-1), for EVERY format; the archive is compared byte for byte with the closed file at the moment the source
    is removed (monitor `archive_roundtrip`).  Quick: two combinations per format, thorough: all six."""
    combos = [("ctl", "utf8"), ("latin", "latin-1"), ("ctl", "utf-16"), ("latin", "utf-16"), ("ctl", "latin-1"),
              ("ctl", "utf-16-le")]
    out = []
    for i, ext in enumerate(CEXTS):
        pick = combos if not ctx.quick else [combos[i % 6], combos[(i + 1 + i // 6) % 6]]
        for j, (payload, encoding) in enumerate(pick):
            sc = base_sc(comp=ext, payload=payload, encoding=encoding, ops=[W(), W(), W(1), W(), S()],
                         rot=(j % 2 == 0))
            if not sc["rot"]:
                sc["ops"] = [W(), W(), W(), S()]
            # all of them fault-free; under every single fault: one zip scenario (quick) / every sixth one (thorough)
            if (ext != "zip" or j != 0) if ctx.quick else ((i + j) % 6 != 2):
                sc["nofaults"] = True
            out.append(sc)
    return out


def run(ctx):
    drv = core.Driver(DRIVER)
    spelling_stream(ctx, drv)
    execs = []
    for item in c08.load_corpus(PROP):
        ex = c08.execute(item["scenario"], tuple(item.get("faults", [])))
        execs.append((item["scenario"], tuple(item.get("faults", [])), ex))
        ctx.stat("corpus")
    scs = scenarios(ctx)
    execs += c08.explore(ctx, scs, pairs=(False if ctx.quick else 150), errno_sweep=(2 if ctx.quick else 1))
    for sc, _f, ex in execs[:2]:
        ctx.sample({"scenario": sc, "line": ex.line})
    for sc, _f, ex in execs:
        ctx.stat("format:" + str(sc.get("comp")))
        ctx.stat("payload:" + sc.get("payload", "ascii"))
    c08.judge(ctx, execs, drv, PROP)


def replay(ctx, rep):
    r = rep["replay"]
    if r.get("stream") == "spelling":
        s = r["spelling"]
        got = impl_spelling(s)
        norm = s.strip().lstrip(".")
        exp = ("ok", KIND[norm], "." + norm) if norm in CEXTS else ("err", "ValueError")
        try:
            out = core.Driver(DRIVER).run(["fmt " + enc(s)])[0]
        except core.DriverError:
            out = "(driver does not build on this tree)"
        print("compression=%r\nimplementation: %r\nmodel: %s\nexpected: %r" % (s, got, out, exp))
        bad = got != exp
        print("REPRODUCED" if bad else "not reproduced")
        return 1 if bad else 0
    return c08.replay(ctx, rep)
