"""C11 – time formatting tokens render the exact calendar fields of the instant (DESIGN §4 C11)."""
import calendar
import os
import datetime as pydt

from harness import core
from harness.core import enc, dec

PROP = "C11"
LEAN_TARGETS = ["LoguruModel.Props.C11"]
AUDIT_FILE = "LoguruModel/Audit/C11.lean"
DRIVER = "C11"
RULE = ("(spec, instant) pairs: specs built from documented tokens / literals / bracket escapes / '!UTC' "
        "(structured stream, judged by an oracle computed from the datetime object's own API) and random "
        "strings over the token alphabet (adversarial stream, implementation vs Lean model); non-trivial = "
        "spec contains >= 2 tokens or an escape or the !UTC suffix; distinct by (spec, instant).  Round 5: histories "
        "of 20-90 calls over pools of up to 64 specs on one process-wide memoiser (each call judged by the oracle and "
        "by the Lean history model), suffix look-alike literals, zoneinfo zones incl. LMT offsets with seconds, the "
        "handler path '{time:<spec>}', aware_now() under several TZ settings")
TRUSTED = [
    "Py/Calendar.lean (proleptic Gregorian arithmetic) is modelled, validated against datetime for sampled/all days",
    "strftime is delegated: for specs containing '%' only the delegation itself is checked",
    "_format_timezone: regenerated from the source over exact integer microseconds (the code uses float seconds: "
    "the reading of float //, %, is_integer and %09.06f for |offset| < 24 h is trusted, tied by the correspondence)",
    "functools.lru_cache is modelled as a table with an arbitrary replacement policy (only its key is read from the source)",
]
ASSUMPTIONS = ["C locale month/day names", "fixed-offset zones (datetime.timezone); named zones only via tzname()"]

try:
    import zoneinfo
    _avail = zoneinfo.available_timezones()
except Exception:  # noqa  (no tz database on this machine: the zoneinfo part of the zone stream is skipped)
    zoneinfo, _avail = None, set()
ZONES = [z for z in ["Europe/Paris", "America/New_York", "Australia/Lord_Howe", "Asia/Kolkata", "Africa/Monrovia",
                     "Europe/Amsterdam", "Pacific/Apia", "America/St_Johns", "Asia/Kathmandu", "Europe/Dublin",
                     "America/Caracas", "Pacific/Chatham", "Antarctica/Troll"] if z in _avail]
ZONES_CACHE = {}

EPOCH = pydt.datetime(1970, 1, 1, tzinfo=pydt.timezone.utc)
US = pydt.timedelta(microseconds=1)

TOKENS = ["YYYY", "YY", "Q", "MMMM", "MMM", "MM", "M", "DDDD", "DDD", "DD", "D", "dddd", "ddd", "d", "E",
          "HH", "H", "hh", "h", "mm", "m", "ss", "s", "S", "SS", "SSS", "SSSS", "SSSSS", "SSSSSS", "A",
          "Z", "ZZ", "zz", "X", "x"]
LITERALS = ["-", ":", " ", "/", "T", ".", ",", "é", "|", "#", "(", ")", "_", "UTC", "!", "at", "[", "]", "!UTC "]
OFFSETS_US = [0, 3600 * 10**6, -5 * 3600 * 10**6, 19800 * 10**6, -34200 * 10**6, 14 * 3600 * 10**6,
              -12 * 3600 * 10**6, 3661 * 10**6, -3661 * 10**6, -3600 * 10**6 - 1, 1, -1, 59 * 10**6,
              -59 * 10**6, -60 * 10**6, 86399999999, -86399999999, 7230099000, -12345067020,
              -1800 * 10**6, 45 * 60 * 10**6, -30 * 10**6, -(23 * 3600 + 59 * 60) * 10**6]
USECS = [0, 1, 9, 10, 99, 999, 1000, 45, 100002, 499999, 500000, 999999, 123456, 99999, 900000]


def correct_tz(dt, sep):
    off = dt.utcoffset() // US
    sign = "+" if off >= 0 else "-"
    a = abs(off)
    h, rem = divmod(a, 3600 * 10**6)
    m, rem = divmod(rem, 60 * 10**6)
    s, us = divmod(rem, 10**6)
    z = "%s%02d%s%02d" % (sign, h, sep, m)
    if s or us:
        z += "%s%02d" % (sep, s)
        if us:
            z += ".%06d" % us
    return z


def f1_tz(dt, sep):
    """what the code renders (known finding F1): minutes floored before abs for negative offsets"""
    off = dt.utcoffset() // US
    sign = "+" if off >= 0 else "-"
    mins = abs(off // (60 * 10**6))
    h, m = divmod(mins, 60)
    rem = abs(off) % (60 * 10**6)
    s, us = divmod(rem, 10**6)
    z = "%s%02d%s%02d" % (sign, h, sep, m)
    if s or us:
        z += "%s%02d" % (sep, s)
        if us:
            z += ".%06d" % us
    return z


def oracle_token(tok, dt, tz=correct_tz):
    """Independent rendering of one token from the datetime object's own API."""
    us6 = "%06d" % dt.microsecond
    if tok == "YYYY": return "%04d" % dt.year
    if tok == "YY": return ("%04d" % dt.year)[-2:]
    if tok == "Q": return str({1: 1, 2: 1, 3: 1, 4: 2, 5: 2, 6: 2, 7: 3, 8: 3, 9: 3, 10: 4, 11: 4, 12: 4}[dt.month])
    if tok == "MMMM": return calendar.month_name[dt.month]
    if tok == "MMM": return calendar.month_abbr[dt.month]
    if tok == "MM": return "%02d" % dt.month
    if tok == "M": return str(dt.month)
    if tok == "DDDD": return dt.strftime("%j")
    if tok == "DDD": return str(int(dt.strftime("%j")))
    if tok == "DD": return "%02d" % dt.day
    if tok == "D": return str(dt.day)
    if tok == "dddd": return calendar.day_name[dt.weekday()]
    if tok == "ddd": return calendar.day_abbr[dt.weekday()]
    if tok == "d": return str(dt.isoweekday() - 1)
    if tok == "E": return str(dt.isoweekday())
    if tok == "HH": return "%02d" % dt.hour
    if tok == "H": return str(dt.hour)
    if tok == "hh": return dt.strftime("%I")
    if tok == "h": return str(int(dt.strftime("%I")))
    if tok == "mm": return "%02d" % dt.minute
    if tok == "m": return str(dt.minute)
    if tok == "ss": return "%02d" % dt.second
    if tok == "s": return str(dt.second)
    if tok in ("S", "SS", "SSS", "SSSS", "SSSSS", "SSSSSS"): return us6[:len(tok)]
    if tok == "A": return dt.strftime("%p")
    if tok == "Z": return tz(dt, ":")
    if tok == "ZZ": return tz(dt, "")
    if tok == "zz": return dt.tzname() or ""
    if tok == "X": return str((dt - EPOCH) // pydt.timedelta(seconds=1))
    if tok == "x": return str((dt - EPOCH) // US)
    raise KeyError(tok)


def mk_dt(fields):
    from loguru._datetime import datetime as ldt
    y, mo, d, h, mi, s, us, off, name = fields
    tz = pydt.timezone(pydt.timedelta(microseconds=off), name) if name is not None else \
        pydt.timezone(pydt.timedelta(microseconds=off))
    return ldt(y, mo, d, h, mi, s, us, tzinfo=tz)


class RuleTz(pydt.tzinfo):
    """a zone whose offset depends on the date (daylight-saving style): `dst_us` in the months `months`, `std_us`
    otherwise.  One object is shared by consecutive calls, like a ZoneInfo instance."""

    def __init__(self, std_us, dst_us, months, names=("STD", "DST")):
        self.std_us, self.dst_us, self.months, self.names = std_us, dst_us, frozenset(months), names

    def _on(self, dt):
        return dt is not None and dt.month in self.months

    def utcoffset(self, dt):
        return pydt.timedelta(microseconds=self.dst_us if self._on(dt) else self.std_us)

    def dst(self, dt):
        return pydt.timedelta(microseconds=(self.dst_us - self.std_us) if self._on(dt) else 0)

    def tzname(self, dt):
        return self.names[1] if self._on(dt) else self.names[0]


DEFAULT_SPEC = "YYYY-MM-DD HH:mm:ss.SSS Z"
DEFAULT_PIECES = [("tok", "YYYY"), ("lit", "-"), ("tok", "MM"), ("lit", "-"), ("tok", "DD"), ("lit", " "), ("tok", "HH"),
                  ("lit", ":"), ("tok", "mm"), ("lit", ":"), ("tok", "ss"), ("lit", "."), ("tok", "SSS"), ("lit", " "),
                  ("tok", "Z")]


def gen_instant(rng):
    mode = rng.below(10)
    if mode == 0:
        y = rng.choice([1, 2, 999, 1000, 1969, 1970, 2000, 2038, 2242, 9998, 9999])
    elif mode == 1:
        y = rng.choice([1900, 2000, 2100, 2024, 2023, 1600])
    else:
        y = rng.range(1, 9999)
    mo = rng.range(1, 12) if not rng.chance(30) else rng.choice([1, 2, 3, 12])
    dim = calendar.monthrange(y, mo)[1]
    d = rng.choice([1, dim, rng.range(1, dim)])
    h = rng.choice([0, 11, 12, 13, 23, rng.range(0, 23)])
    mi = rng.choice([0, 59, rng.range(0, 59)])
    s = rng.choice([0, 59, rng.range(0, 59)])
    us = rng.choice(USECS) if rng.chance(70) else rng.range(0, 999999)
    if rng.chance(75):
        off = rng.choice(OFFSETS_US)
    elif rng.chance(50):
        off = rng.range(-56, 56) * 15 * 60 * 10**6
    else:
        off = rng.range(-86399999999, 86399999999)
    name = rng.choice(["UTC", "EST", "A", "", "ABC", "+03", "Zé", None])
    return (y, mo, d, h, mi, s, us, off, name)


def model_name(fields):
    """tzname() as Python computes it for timezone(offset) without a name"""
    dt = mk_dt(fields)
    return dt.tzname() or ""


LOOKALIKES = ["UTC", "!UTC", "UT", "C", "U", "!", "!UT", "!utc", "utc", "UTC!", "TC", "!!UTC", " !UTC", "!UTC!UTC", "!UTC]", "[!UTC"]


def finish_spec(pieces, utc):
    """spec text of a piece list, and the reading the documentation gives it: a spec that ends with the four
    characters '!UTC' carries the suffix (once) - also when they come from the generator's last literal; everything
    before them is the body (look-alikes in the middle, a doubled suffix, ... are literal text)."""
    merged = []
    for k, t in pieces:
        if k == "lit" and merged and merged[-1][0] == "lit":
            merged[-1] = ("lit", merged[-1][1] + t)
        else:
            merged.append((k, t))
    spec = "".join(t if k != "esc" else "[" + t + "]" for k, t in merged) + ("!UTC" if utc else "")
    if not utc and spec.endswith("!UTC") and merged and merged[-1][0] == "lit" and merged[-1][1].endswith("!UTC"):
        k, t = merged[-1]
        merged = merged[:-1] + ([(k, t[:-4])] if t[:-4] else [])
        utc = True
    return spec, merged, utc


def gen_structured(rng):
    """list of pieces (kind, text); adjacency of same-letter tokens is avoided so that the greedy
    scanner cannot re-cut the spec differently from the generator's intent"""
    n = rng.range(1, 7)
    pieces = []
    prev_tok = None
    for _ in range(n):
        k = rng.below(10)
        if k < 6:
            tok = rng.choice(TOKENS)
            if prev_tok is not None and prev_tok[-1].lower() == tok[0].lower() and not rng.chance(35):
                pieces.append(("lit", rng.choice(["-", ":", " ", "/"])))
            pieces.append(("tok", tok))
            prev_tok = tok
        elif k < 8:
            lit = rng.choice(LITERALS[:13]) if not rng.chance(22) else rng.choice(LOOKALIKES)
            pieces.append(("lit", lit))
            prev_tok = None
        else:
            inner = rng.choice(TOKENS + ["!UTC", ""])
            pieces.append(("esc", inner))
            prev_tok = None
    utc = rng.chance(25)
    return pieces, utc


ALPHA = list("HhmsSYMDZzAXxEQd") + ["[", "]", "!UTC", " ", "-", "[]", "[!UTC]", "U", "T", "C", "!", "SSSSSS", "é", "dd"]


def gen_adversarial(rng):
    n = rng.range(0, 9)
    s = "".join(rng.choice(ALPHA) for _ in range(n))
    if rng.chance(6):
        s = "YYYY-MM-DD HH:mm:ss.SSS Z"
    if rng.chance(25):
        s += "!UTC"
    if rng.chance(4):
        s += "%" + rng.choice("YmdHMSfzZj")
    return s


DOC_TOKENS_LONGEST_FIRST = sorted(TOKENS, key=lambda t: -len(t))


def recut(pieces):
    """Independent reading of a spec given as pieces: runs of adjacent token pieces are re-cut by the rule of
    the documentation - at every position the LONGEST documented token wins (a run of S longer than six is
    rejected by the library and never generated)."""
    out, run = [], ""
    def flush():
        nonlocal run
        i = 0
        while i < len(run):
            for t in DOC_TOKENS_LONGEST_FIRST:
                if run.startswith(t, i):
                    out.append(("tok", t))
                    i += len(t)
                    break
            else:
                out.append(("lit", run[i]))
                i += 1
        run = ""
    for k, t in pieces:
        if k == "tok":
            run += t
        else:
            flush()
            out.append((k, t))
    flush()
    return out


JOURNAL = []        # every format() call of this process, in order: whatever state the implementation keeps between
META = {}           # calls (a memoiser, a remembered zone, ...) is a function of this list


def ser_call(spec, dt, zone_ids):
    base = [spec, dt.year, dt.month, dt.day, dt.hour, dt.minute, dt.second, dt.microsecond]
    tz = dt.tzinfo
    if isinstance(tz, RuleTz):
        zid = zone_ids.setdefault(id(tz), len(zone_ids))
        return base + [{"rule": [tz.std_us, tz.dst_us, sorted(tz.months)], "id": zid, "fold": dt.fold}]
    if zoneinfo is not None and isinstance(tz, zoneinfo.ZoneInfo):
        return base + [{"zoneinfo": tz.key, "fold": dt.fold}]
    args = tz.__getinitargs__()
    return base + [{"offset": args[0] // US, "name": args[1] if len(args) > 1 else None}]


def deser_call(c, zones):
    from loguru._datetime import datetime as ldt
    z = c[8]
    if "rule" in z:
        tz = zones.setdefault(("rule", z["id"]), RuleTz(*z["rule"]))
    elif "zoneinfo" in z:
        tz = zones.setdefault(("zi", z["zoneinfo"]), zoneinfo.ZoneInfo(z["zoneinfo"]))
    elif z["name"] is None:
        tz = pydt.timezone(pydt.timedelta(microseconds=z["offset"]))
    else:
        tz = pydt.timezone(pydt.timedelta(microseconds=z["offset"]), z["name"])
    return c[0], ldt(*c[1:8], tzinfo=tz, fold=z.get("fold", 0))


def impl_format(dt, spec):
    JOURNAL.append((spec, dt))
    try:
        return ("ok", format(dt, spec))
    except OverflowError:
        return ("skip", "overflow")
    except Exception as e:  # noqa
        return ("err", core.err_kind(e))


def line_of(spec, fields):
    y, mo, d, h, mi, s, us, off, name = fields
    return "fmt %s %d %d %d %d %d %d %d %d %s" % (enc(spec), y, mo, d, h, mi, s, us, off, enc(model_name(fields)))


def resolve_model(out, dt):
    parts = out.split(" ")
    if parts[0] == "ok":
        return ("ok", dec(parts[1]))
    if parts[0] == "strftime":
        d2 = dt.astimezone(pydt.timezone.utc) if parts[1] == "1" else dt
        try:
            return ("ok", d2.strftime(dec(parts[2])))
        except OverflowError:
            return ("skip", "overflow")
    if parts[0] == "err":
        return ("err", parts[1])
    return ("bad", out)


def f1_applies(fields):
    off = fields[7]
    return off < 0 and off % (60 * 10**6) != 0


def clear_cache():
    """start a history from an empty memoiser when the implementation has one that can be emptied"""
    import loguru._datetime as ld
    cc = getattr(getattr(ld, "_compile_format", None), "cache_clear", None)
    if callable(cc):
        cc()
    JOURNAL.append(("", None))                 # a clearing is part of the history of the process


def call_token(spec, fields):
    y, mo, d, h, mi, s, us, off, name = fields
    return "%s,%d,%d,%d,%d,%d,%d,%d,%d,%s" % (enc(spec), y, mo, d, h, mi, s, us, off, enc(name or ""))


def resolve_hist(tok, dt):
    parts = tok.split(":")
    if parts[0] == "ok":
        return ("ok", dec(parts[1]))
    if parts[0] == "strftime":
        try:
            d2 = dt.astimezone(pydt.timezone.utc) if parts[1] == "1" else dt
            return ("ok", d2.strftime(dec(parts[2])))
        except OverflowError:
            return ("skip", "overflow")
    if parts[0] == "err":
        return ("err", parts[1])
    return ("bad", tok)


def gen_pool_entry(rng):
    """-> (spec, pieces or None, utc): pieces (already re-cut) when the oracle can judge the spec"""
    kind = rng.below(12)
    if kind < 7:
        pieces, utc = gen_structured(rng)
        spec, pieces, utc = finish_spec(pieces, utc)
        if spec == "" or "%" in spec or "SSSSSSS" in spec or not pieces or spec == DEFAULT_SPEC:
            return ("HH:mm" + ("!UTC" if utc else ""), [("tok", "HH"), ("lit", ":"), ("tok", "mm")], utc)
        return (spec, recut(pieces), utc)
    if kind < 9:
        return (gen_adversarial(rng), None, None)
    if kind == 9:
        utc = rng.chance(50)
        return (DEFAULT_SPEC + ("!UTC" if utc else ""), list(DEFAULT_PIECES), utc)
    if kind == 10:
        return (rng.choice(["SSSSSSS", "HH SSSSSSSS", "[SSSSSSS]!UTC", "%H:%M", "HH%%", "", "!UTC", "%Y!UTC"]), None, None)
    # families of specs that differ only by what a careless key would drop (suffix, case, a trailing blank)
    base = rng.choice(["HH", "Z", "zz HH", "x", "DD HH:mm ZZ", "hh A", "H", "h"])
    utc = rng.chance(50)
    out = []
    for word in base.split(" "):
        if out:
            out.append(("lit", " "))
        for part in word.replace(":", " : ").split(" "):
            if part:
                out.append(("tok", part) if part in TOKENS else ("lit", part))
    if rng.chance(25):
        out.append(("lit", " "))
    spec, out, utc = finish_spec(out, utc)
    return (spec, out, utc)


class StrSub(str):
    """a str subclass instance is a legal format spec"""


def run_histories(ctx, rng, drv_lines, drv_cases):
    """stream 3: histories of calls on the one process-wide memoiser of `_compile_format`"""
    from loguru._datetime import datetime as ldt
    nh = ctx.n(60, 2500) * (2 if getattr(ctx, "search_boost", False) else 1)
    for hi in range(nh):
        rh = rng.fork("hist%d" % hi)
        npool = rh.choice([2, 3, 5, 8, 31, 32, 33, 34, 40, 64])
        pool = [gen_pool_entry(rh) for _ in range(npool)]
        zone = zspec = None
        if rh.chance(30):
            if ZONES and rh.chance(50):
                zname = rh.choice(ZONES)
                zone, zspec = ZONES_CACHE.setdefault(zname, zoneinfo.ZoneInfo(zname)), {"zoneinfo": zname}
            else:
                std = rh.choice([0, 3600, -18000, 34200, 19800, -12600]) * 10**6
                delta = rh.choice([3600, 1800, -3600, 7200]) * 10**6
                months = rh.choice([(4, 5, 6, 7, 8, 9, 10), (11, 12, 1, 2), (7,)])
                zone, zspec = RuleTz(std, std + delta, months), {"rule": [std, std + delta, list(months)]}
        META["case_start"] = len(JOURNAL)
        clear_cache()
        ncalls = rh.range(20, 90) if npool < 31 else rh.range(60, 140)
        calls, toks, dts, gots = [], [], [], []
        prev = None
        failed = False
        for ci in range(ncalls):
            if npool >= 31 and ci < npool:
                entry = pool[ci]                                   # fill the memoiser beyond its size first
            else:
                entry = pool[rh.below(min(3, npool))] if rh.chance(45) else rh.choice(pool)
            spec, pieces, utc = entry
            f = prev if (prev is not None and rh.chance(20)) else gen_instant(rh)
            prev = f
            if zone is not None:
                y = min(max(f[0], 2), 9998)
                d = min(f[2], 28)
                dt = ldt(y, f[1], d, f[3], f[4], f[5], f[6], tzinfo=zone)
                raw = [y, f[1], d, f[3], f[4], f[5], f[6], None, None]
                fixed = (y, f[1], d, f[3], f[4], f[5], f[6], dt.utcoffset() // US, dt.tzname() or "")
            else:
                dt = mk_dt(f)
                raw = list(f)
                fixed = f[:8] + (model_name(f),)
            how = rh.below(20)
            if how == 0:
                dt = dt.replace(microsecond=dt.microsecond)              # a copy made by the datetime API
            elif how == 1:
                dt = ldt.combine(dt.date(), dt.timetz())
            elif how == 2 and zone is None:
                try:
                    dt = dt.astimezone(dt.tzinfo)                        # same zone: same fields, a new object
                except OverflowError:
                    pass
            ctx.stat("history_dt:" + ("replace", "combine", "astimezone")[how] if how < 3 else "history_dt:plain")
            got = impl_format(dt, StrSub(spec) if rh.chance(6) else spec)
            calls.append([spec] + raw)
            if got[0] == "skip":
                ctx.stat("skipped_overflow")
                continue
            ctx.case(("hist", hi, ci, spec, fixed), nontrivial=True)
            ctx.stat("history_calls")
            toks.append(call_token(spec, fixed))
            dts.append((spec, fixed, len(calls) - 1))
            gots.append(got)
            if pieces is not None:
                ref = mk_dt(fixed)
                try:
                    d2 = ref.astimezone(pydt.timezone.utc) if utc else ref
                except OverflowError:
                    continue
                exp = "".join(oracle_token(t, d2) if k == "tok" else t for k, t in pieces)
                if got != ("ok", exp):
                    exp_f1 = "".join(oracle_token(t, d2, f1_tz) if k == "tok" else t for k, t in pieces)
                    key = "F1-negative-offset-with-seconds" if (got == ("ok", exp_f1) and f1_applies(fixed)
                                                                and not utc) else None
                    ctx.violation("call %d of a history of format() calls (%d distinct specs so far): format(%r, %r): "
                                  "expected %r, observed %r" % (ci + 1, len({c[0] for c in calls}), dt.isoformat(), spec,
                                                                exp, got[1]),
                                  {"stream": "history", "calls": calls, "zone": zspec, "index": len(calls) - 1,
                                   "expected": exp, "observed": got[1]}, key=key)
                    if key is None:
                        failed = True
                        break
        if toks:
            drv_lines.append("hist 32 " + " ".join(toks))
            drv_cases.append((dts, gots, calls, zspec))
        ctx.stat("histories")
        if failed:
            break


def run_handler_path(ctx, rng):
    """stream 4: the place the property is observed at - a handler format '{time:<spec>}' with the record's time set
    by a patcher - renders what format(dt, spec) renders (judged by the oracle)"""
    from loguru import logger
    n = ctx.n(40, 1500)
    try:
        logger.remove()
    except ValueError:
        pass
    for i in range(n):
        fields = gen_instant(rng)
        pieces, utc = gen_structured(rng)
        spec, pieces, utc = finish_spec(pieces, utc)
        if spec == "" or "%" in spec or "SSSSSSS" in spec or not pieces or any(c in spec for c in "{}<>\\"):
            continue
        if rng.chance(15):
            spec, pieces, utc = DEFAULT_SPEC, list(DEFAULT_PIECES), False
        else:
            pieces = recut(pieces)
        dt = mk_dt(fields)
        try:
            d2 = dt.astimezone(pydt.timezone.utc) if utc else dt
        except OverflowError:
            continue
        out = []
        hid = logger.add(lambda m: out.append(str(m)), format="{time:" + spec + "}|{message}", colorize=False)
        try:
            logger.patch(lambda r: r.update(time=dt)).info("m")
        except OverflowError:
            continue
        finally:
            logger.remove(hid)
        exp = "".join(oracle_token(t, d2) if k == "tok" else t for k, t in pieces) + "|m\n"
        ctx.case(("handler", spec, fields), nontrivial=True)
        ctx.stat("handler_path")
        if out != [exp]:
            exp_f1 = "".join(oracle_token(t, d2, f1_tz) if k == "tok" else t for k, t in pieces) + "|m\n"
            key = "F1-negative-offset-with-seconds" if (out == [exp_f1] and f1_applies(fields) and not utc) else None
            ctx.violation("handler format '{time:%s}|{message}' with record time %s: expected %r, observed %r"
                          % (spec, dt.isoformat(), exp, out),
                          {"stream": "handler", "spec": spec, "instant": list(fields), "expected": exp,
                           "observed": out[0] if out else None}, key=key)
            if key is None:
                break


def aware_now_at(naive, tzname):
    """run loguru's aware_now() with the wall clock reading `naive` in the process time zone `tzname`"""
    import os
    import time
    import loguru._datetime as ld

    class Frozen(ld.datetime_):
        @classmethod
        def now(cls, tz=None):
            return naive

    old_tz, old_cls = os.environ.get("TZ"), ld.datetime_
    os.environ["TZ"] = tzname
    time.tzset()
    ld.datetime_ = Frozen
    try:
        return ld.aware_now()
    finally:
        ld.datetime_ = old_cls
        if old_tz is None:
            os.environ.pop("TZ", None)
        else:
            os.environ["TZ"] = old_tz
        time.tzset()


def run_aware_now(ctx, rng):
    """stream 5: aware_now() (the record's time) carries the wall-clock fields it read and the UTC offset / zone name
    the tz database gives for that local time in the process zone"""
    import loguru._datetime as ld
    if not ZONES or not hasattr(ld, "aware_now") or not hasattr(ld, "datetime_"):
        ctx.stat("aware_now_skipped")
        return
    n = ctx.n(120, 6000)
    for i in range(n):
        zname = rng.choice(ZONES + ["UTC"])
        z = ZONES_CACHE.setdefault(zname, zoneinfo.ZoneInfo(zname))
        y = rng.choice([1971, 1985, 1999, 2011, 2024, 2037, rng.range(1971, 2037)])
        naive = pydt.datetime(y, rng.range(1, 12), rng.range(1, 28), rng.range(0, 23), rng.range(0, 59),
                              rng.range(0, 59), rng.choice(USECS))
        # local times inside a gap or a fold have no single answer: keep two hours' distance from every switch
        offs = {(naive + pydt.timedelta(hours=k)).replace(tzinfo=z).utcoffset() for k in (-3, -2, -1, 0, 1, 2, 3)}
        if len(offs) != 1:
            ctx.stat("aware_now_near_switch")
            continue
        try:
            got = aware_now_at(naive, zname)
        except (OverflowError, OSError, ValueError) as e:
            ctx.stat("aware_now_platform_error:" + type(e).__name__)
            continue
        want = naive.replace(tzinfo=z)
        ctx.case(("aware_now", zname, naive.isoformat()), nontrivial=True)
        ctx.stat("aware_now")
        ok = (isinstance(got, ld.datetime) and got.replace(tzinfo=None) == naive and got.utcoffset() == want.utcoffset()
              and got.tzname() == want.tzname())
        if not ok:
            ctx.violation("aware_now() with the clock at %s in zone %s gives %r (offset %s, name %r); the instant is %s "
                          "(offset %s, name %r)" % (naive.isoformat(), zname, got, got.utcoffset(), got.tzname(),
                                                     want.isoformat(), want.utcoffset(), want.tzname()),
                          {"stream": "aware_now", "zone": zname, "naive": naive.isoformat(),
                           "expected": want.isoformat() + " " + str(want.tzname()),
                           "observed": got.isoformat() + " " + str(got.tzname())})
            break



def watch_first_violation(ctx):
    """remember how many distinct specs the process had formatted when the first violation was seen"""
    orig = ctx.violation

    def violation(what, replay, key=None, kind="oracle"):
        r = orig(what, replay, key=key, kind=kind)
        if r and "journal_len" not in META:
            own = replay.get("stream") in ("history", "zones")          # these replays re-run their own case
            META["journal_len"] = META.get("case_start", 0) if own else max(0, len(JOURNAL) - 1)
        return r
    ctx.violation = violation


def confirm_replay(ctx):
    """A replay must reproduce in a FRESH process.  A failure that needs what earlier calls of this process left behind
    (a memoiser keyed by less than the spec, ...) does not: it then gets the journal of the distinct specs formatted
    before it (`prior_specs`, replayed first)."""
    import json
    import subprocess
    import tempfile
    if not ctx.violations or META.get("confirmed"):
        return
    META["confirmed"] = True
    v = ctx.violations[0]
    if v["replay"].get("stream") == "aware_now":
        return

    def fresh():
        fd, path = tempfile.mkstemp(suffix=".json", prefix="c11replay")
        try:
            with os.fdopen(fd, "w") as f:
                json.dump({"replay": v["replay"]}, f)
            p = subprocess.run([os.path.join(core.VERIF, "check"), PROP, "--replay", path], stdout=subprocess.PIPE,
                               stderr=subprocess.STDOUT, timeout=300, env=dict(os.environ, C11_REPLAY_NO_MODEL="1"))
            return p.returncode == 1
        except (OSError, subprocess.TimeoutExpired):
            return True                       # cannot tell: leave the replay as it is
        finally:
            os.unlink(path)
    if fresh():
        return
    zone_ids = {}
    prior = [ser_call(sp, d, zone_ids) if d is not None else None
             for sp, d in JOURNAL[:META.get("journal_len", len(JOURNAL))]]
    v["replay"]["prior_calls"] = prior
    ok = fresh()
    ctx.note("first violation depends on state left by earlier calls: replay carries the %d prior calls (%s)"
             % (len(prior), "reproduces in a fresh process" if ok else "still not reproduced in a fresh process"))
    if ok:
        v["what"] += "  [after the %d format() calls this process had made before - state surviving between calls]" % len(prior)


def gen_percent_cases(ctx, rng):
    """stream 6: Python's own `fmt % args` against the model's reading of it (`Datetime.percentFormat`, the function the
    two-phase theorem `build_render` is about) - on the conversions the module uses: %s, %d, %0Nd, literal text;
    well-formed cases, one argument too many, a string for an integer conversion"""
    lines, exps = [], []
    n = ctx.n(400, 20000)
    for i in range(n):
        fmt, vals, toks = "", [], []
        for _ in range(rng.range(0, 7)):
            k = rng.below(5)
            if k == 0:
                fmt += rng.choice(["-", ":", " ", "é", "UTC", "d", "s", "0", "[x]", "T", ""])
                continue
            if k == 1:
                fmt += "%s"
                if rng.chance(50):
                    v = rng.choice(["", "AM", "Monday", "+01:00", "é%", "%d", "UTC+05:30"])
                else:
                    v = rng.choice([0, 7, -7, 12, 1234567, -1])
            else:
                fmt += "%d" if k == 2 else "%%0%dd" % rng.range(1, 9)
                v = rng.choice([0, 1, 9, 10, 99, 100, 999, 1000, 9999, 10000, -1, -12, -123456, 2024, 999999,
                                253402300799, rng.range(-10**7, 10**7)])
                if rng.chance(5):
                    v = "x"
            vals.append(v)
        if rng.chance(8):
            vals.append(rng.choice([1, "a"]))
        try:
            exp = "ok " + enc(fmt % tuple(vals))
        except TypeError:
            exp = "err TypeError"
        except ValueError:
            exp = "err ValueError"
        lines.append("pct " + enc(fmt) + "".join(" " + ("i%d" % v if isinstance(v, int) else "s" + enc(v)) for v in vals))
        exps.append((exp, fmt, vals))
        ctx.case(("pct", fmt, tuple(vals)))
        ctx.stat("percent_format")
    return lines, exps


def run(ctx):
    rng = ctx.rng
    watch_first_violation(ctx)
    drv = core.Driver(DRIVER)
    boost = 5 if getattr(ctx, "search_boost", False) else 1

    # ---- known finding F1: probe its witness on every run
    w = (2020, 1, 1, 0, 0, 0, 0, -3661 * 10**6, "W")
    got = impl_format(mk_dt(w), "Z")
    ctx.case(("witness", "F1"))
    if got == ("ok", "-01:02:01"):
        ctx.violation("Z renders offset -01:01:01 as -01:02:01",
                      {"stream": "oracle", "spec": "Z", "instant": list(w), "expected": "-01:01:01", "observed": got[1]},
                      key="F1-negative-offset-with-seconds")
    elif got != ("ok", "-01:01:01"):
        ctx.violation("Z on offset -01:01:01 gives %r" % (got,),
                      {"stream": "oracle", "spec": "Z", "instant": list(w), "expected": "-01:01:01", "observed": got[1]})

    # ---- stream 0: corpus (regressions of fixed defects, always first)
    corpus = [
        ("x", (2020, 1, 1, 0, 0, 0, 500000, 0, "UTC"), "1577836800500000"),       # F2 (fixed)
        ("X x", (1969, 12, 31, 23, 59, 59, 500000, 0, "UTC"), "-1 -500000"),
        ("X", (9999, 12, 31, 23, 59, 59, 999999, 0, "UTC"), "253402300799"),
        ("hh A", (2018, 1, 1, 0, 1, 2, 3, 0, "UTC"), "12 AM"),
        ("Z ZZ", (2018, 1, 1, 0, 1, 2, 3, 3661 * 10**6, "A"), "+01:01:01 +010101"),
    ]
    for spec, fields, exp in corpus:
        got = impl_format(mk_dt(fields), spec)
        ctx.case(("corpus", spec, fields), nontrivial=True)
        if got != ("ok", exp):
            ctx.violation("corpus case %r at %r: expected %r, observed %r" % (spec, fields, exp, got),
                          {"stream": "oracle", "spec": spec, "instant": list(fields), "expected": exp, "observed": got[1]})

    # ---- stream 3: histories on the process-wide memoiser (first: the process has formatted little so far, a failure
    # that needs earlier state gets a short journal); 4: the handler path; 5: aware_now()
    hist_lines, hist_cases = [], []
    run_histories(ctx, rng.fork("histories"), hist_lines, hist_cases)
    run_handler_path(ctx, rng.fork("handler"))
    run_aware_now(ctx, rng.fork("aware_now"))

    # ---- stream 1: structured specs judged by the independent oracle (and sent to the model too)
    n1 = ctx.n(4000, 150000) * boost
    lines, cases = [], []
    for i in range(n1):
        fields = gen_instant(rng)
        pieces, utc = gen_structured(rng)
        spec, pieces, utc = finish_spec(pieces, utc)
        if spec == "" or "%" in spec or "SSSSSSS" in spec or spec == "YYYY-MM-DD HH:mm:ss.SSS Z" or not pieces:
            continue
        if any(k == "lit" and "UTC" in t.upper() for k, t in pieces):
            ctx.stat("suffix_lookalike_in_body")
        dt = mk_dt(fields)
        got = impl_format(dt, spec)
        if got[0] == "skip":
            ctx.stat("skipped_overflow")
            continue
        try:
            d2 = dt.astimezone(pydt.timezone.utc) if utc else dt
        except OverflowError:
            ctx.stat("skipped_overflow")
            continue
        pieces = recut(pieces)
        exp = "".join(oracle_token(t, d2) if k == "tok" else t for k, t in pieces)
        ntok = sum(1 for k, _ in pieces if k == "tok")
        ctx.case((spec, fields), nontrivial=(ntok >= 2 or utc or any(k == "esc" for k, _ in pieces)))
        for k, t in pieces:
            if k == "tok":
                ctx.stat("token:" + t)
        ctx.stat("structured")
        if i < 3:
            ctx.sample({"stream": "structured", "spec": spec, "instant": list(fields), "impl": got[1]})
        if got != ("ok", exp):
            exp_f1 = "".join(oracle_token(t, d2, f1_tz) if k == "tok" else t for k, t in pieces)
            key = None
            if got == ("ok", exp_f1) and f1_applies(fields) and not utc:
                key = "F1-negative-offset-with-seconds"
            ctx.violation("format(%r, %r): expected %r, observed %r" % (dt.isoformat(), spec, exp, got[1]),
                          {"stream": "oracle", "spec": spec, "instant": list(fields), "expected": exp, "observed": got[1]},
                          key=key)
        lines.append(line_of(spec, fields))
        cases.append((spec, fields, got))

    # ---- stream 1b: date-dependent zones shared by consecutive calls (state must not survive from one call to the
    # next): the same tzinfo OBJECT, instants on both sides of its switch, the same spec - default format included
    from loguru._datetime import datetime as ldt
    nz = ctx.n(150, 4000) * boost
    for zi in range(nz):
        rz = rng.fork("zone%d" % zi)
        std = rz.choice([0, 3600, -18000, 34200, 19800, -12600]) * 10**6
        delta = rz.choice([3600, 3600, 1800, -3600, 7200]) * 10**6
        months = rz.choice([(4, 5, 6, 7, 8, 9, 10), (11, 12, 1, 2), (7,), (1, 2, 3, 4, 5, 6)])
        zone = RuleTz(std, std + delta, months)
        zname = None
        if ZONES and rz.chance(35):
            zname = rz.choice(ZONES)
            zone = ZONES_CACHE.setdefault(zname, zoneinfo.ZoneInfo(zname))   # ONE object per zone for the whole run
        kind = rz.below(4)
        if kind == 0:
            pieces, utc = list(DEFAULT_PIECES), False
        elif kind == 1:
            pieces, utc = list(DEFAULT_PIECES), True
        else:
            pieces, utc = gen_structured(rz)
            if not any(t in ("Z", "ZZ", "zz", "x", "X", "HH", "H") for k, t in pieces if k == "tok"):
                pieces = pieces + [("lit", " "), ("tok", rz.choice(["Z", "ZZ", "zz", "x"]))]
        spec, pieces, utc = finish_spec(pieces, utc)
        if "%" in spec or "SSSSSSS" in spec or not pieces:
            continue
        cut = recut(pieces) if kind >= 2 else pieces
        META["case_start"] = len(JOURNAL)
        history = []
        for ci in range(rz.range(2, 5)):
            f = gen_instant(rz)
            y = min(max(f[0], 2), 9998)
            mo = rz.choice(sorted(months)) if ci % 2 == 0 else rz.choice([m for m in range(1, 13) if m not in months])
            if zname is not None:                   # real zones: local mean time before ~1900 (offsets with seconds),
                y = rz.choice([1850, 1880, 1915, 1942, 1971, 1999, 2011, 2024, 2037, 2100, y])  # DST on both sides
                mo = rz.choice([1, 7, 3, 10, 11, 4])
            d = min(f[2], 28)
            dt = ldt(y, mo, d, f[3], f[4], f[5], f[6], tzinfo=zone, fold=rz.below(2) if zname else 0)
            history.append([y, mo, d, f[3], f[4], f[5], f[6], dt.fold])
            got = impl_format(dt, spec)
            if got[0] == "skip":
                continue
            off_us = (dt.utcoffset() // US)
            fixed = (y, mo, d, f[3], f[4], f[5], f[6], off_us, dt.tzname())
            ref = mk_dt(fixed)
            d2 = ref.astimezone(pydt.timezone.utc) if utc else ref
            exp = "".join(oracle_token(t, d2) if k == "tok" else t for k, t in cut)
            ctx.case(("zone", spec, fixed, ci), nontrivial=True)
            ctx.stat("zones:default" if kind < 2 else "zones:structured")
            ctx.stat("zones:zoneinfo" if zname else "zones:rule")
            if got != ("ok", exp):
                exp_f1 = "".join(oracle_token(t, d2, f1_tz) if k == "tok" else t for k, t in cut)
                key = "F1-negative-offset-with-seconds" if got == ("ok", exp_f1) and f1_applies(fixed) and not utc else None
                ctx.violation("format(%r, %r) with a date-dependent zone (call %d on the same tzinfo object): expected %r, "
                              "observed %r" % (dt.isoformat(), spec, ci + 1, exp, got[1]),
                              {"stream": "zones", "case": zi, "spec": spec, "instant": list(fixed), "call": ci,
                               "zone": [std, std + delta, list(months)], "zoneinfo": zname, "history": history,
                               "expected": exp, "observed": got[1]}, key=key)
                break

    # ---- stream 2: adversarial strings, implementation vs model
    n2 = ctx.n(4000, 150000) * min(boost, 2)
    for i in range(n2):
        fields = gen_instant(rng)
        spec = gen_adversarial(rng)
        dt = mk_dt(fields)
        got = impl_format(dt, spec)
        if got[0] == "skip":
            ctx.stat("skipped_overflow")
            continue
        ctx.case((spec, fields), nontrivial=(len(spec) >= 3))
        ctx.stat("adversarial")
        if got[0] == "err":
            ctx.stat("impl_err:" + got[1])
        if "%" in spec:
            ctx.stat("strftime_delegated")
        if i < 3:
            ctx.sample({"stream": "adversarial", "spec": spec, "instant": list(fields), "impl": got[1]})
        lines.append(line_of(spec, fields))
        cases.append((spec, fields, got))

    # ---- grid: every token x 24 hours x offsets (thorough: full; quick: sampled)
    grid_offsets = OFFSETS_US if not ctx.quick else OFFSETS_US[::3]
    for tok in TOKENS + ["YYYY-MM-DD HH:mm:ss.SSS Z", "YYYY-MM-DD HH:mm:ss.SSS Z!UTC", ""]:
        for h in (range(24) if not ctx.quick else (0, 1, 11, 12, 13, 23)):
            for off in grid_offsets:
                fields = (rng.choice([1, 999, 1000, 2024, 9999]), rng.choice([1, 2, 12]), rng.range(1, 28), h,
                          rng.range(0, 59), rng.range(0, 59), rng.choice(USECS), off, "G")
                dt = mk_dt(fields)
                got = impl_format(dt, tok)
                if got[0] == "skip":
                    continue
                ctx.case((tok, fields))
                ctx.stat("grid")
                if tok in TOKENS:
                    exp = oracle_token(tok, dt)
                    if got != ("ok", exp):
                        key = "F1-negative-offset-with-seconds" if (
                            tok in ("Z", "ZZ") and f1_applies(fields) and got == ("ok", oracle_token(tok, dt, f1_tz))) else None
                        ctx.violation("format(%r, %r): expected %r, observed %r" % (dt.isoformat(), tok, exp, got[1]),
                                      {"stream": "oracle", "spec": tok, "instant": list(fields), "expected": exp,
                                       "observed": got[1]}, key=key)
                elif tok.startswith("YYYY-MM-DD HH:mm:ss.SSS Z"):
                    try:
                        d3 = dt.astimezone(pydt.timezone.utc) if tok.endswith("!UTC") else dt
                    except OverflowError:
                        continue
                    exp = "%04d-%02d-%02d %02d:%02d:%02d.%03d %s" % (
                        d3.year, d3.month, d3.day, d3.hour, d3.minute, d3.second, d3.microsecond // 1000,
                        correct_tz(d3, ":"))
                    if got != ("ok", exp):
                        f1 = "%04d-%02d-%02d %02d:%02d:%02d.%03d %s" % (
                            d3.year, d3.month, d3.day, d3.hour, d3.minute, d3.second, d3.microsecond // 1000,
                            f1_tz(d3, ":"))
                        key = "F1-negative-offset-with-seconds" if (got == ("ok", f1) and f1_applies(fields)
                                                                    and not tok.endswith("!UTC")) else None
                        ctx.violation("format(%r, %r): expected %r, observed %r" % (dt.isoformat(), tok, exp, got[1]),
                                      {"stream": "oracle", "spec": tok, "instant": list(fields), "expected": exp,
                                       "observed": got[1]}, key=key)
                lines.append(line_of(tok, fields))
                cases.append((tok, fields, got))

    # ---- calendar stream: Py/Calendar vs datetime.date (thorough: all days)
    step = 97 if ctx.quick else 1
    cal_lines, cal_exp = [], []
    for ordinal in range(1, 3652060, step):
        z = ordinal - 719163
        d = pydt.date.fromordinal(ordinal)
        cal_lines.append("civil %d" % z)
        cal_exp.append("%d %d %d %d %d %d" % (d.year, d.month, d.day, d.weekday(), d.timetuple().tm_yday, z))
    ctx.exhaustive = not ctx.quick
    confirm_replay(ctx)
    pct_lines, pct_exps = gen_percent_cases(ctx, rng.fork("percent"))
    out_all = drv.run(lines + cal_lines + hist_lines + pct_lines)
    out = out_all[:len(lines) + len(cal_lines)]
    badp = 0
    for (exp, fmt, vals), o in zip(pct_exps, out_all[len(lines) + len(cal_lines) + len(hist_lines):]):
        if exp != o and badp < 3:
            badp += 1
            ctx.broke("correspondence Datetime.percentFormat (Python's % operator)",
                      "%r %% %r: Python %r, model %r" % (fmt, tuple(vals), exp, o))
    out_all = out_all[:len(lines) + len(cal_lines) + len(hist_lines)]
    for (dts, gots, calls, zspec), o in zip(hist_cases, out_all[len(lines) + len(cal_lines):]):
        toks = o.split(";")
        if len(toks) != len(dts):
            ctx.broke("correspondence Datetime.runHistory", "history line answered %r" % (o[:200],))
            continue
        for (spec, fixed, idx), got, tok in zip(dts, gots, toks):
            m = resolve_hist(tok, mk_dt(fixed))
            if m[0] == "skip":
                continue
            ctx.traces_validated += 1
            if m != got:
                ctx.stat("disagreements")
                ctx.broke("correspondence Datetime.runHistory",
                          "call %d spec=%r instant=%r impl=%r model=%r" % (idx, spec, fixed, got, m))
                ctx.violation("call %d of a history of format() calls: implementation and model (history_lru: every call "
                              "renders formatDt of its own spec and instant) disagree on format(%r, %r): impl %r, model %r"
                              % (idx + 1, mk_dt(fixed).isoformat(), spec, got, m),
                              {"stream": "history", "calls": calls[:idx + 1], "zone": zspec, "index": idx,
                               "expected": m[1], "observed": got[1]}, kind="correspondence")
                break
        if ctx.stats.get("disagreements", 0) > 20:
            break
    for (spec, fields, got), o in zip(cases, out):
        dt = mk_dt(fields)
        m = resolve_model(o, dt)
        if m[0] == "skip":
            continue
        ctx.traces_validated += 1
        if m != got:
            ctx.stat("disagreements")
            ctx.broke("correspondence Datetime.formatDt",
                      "spec=%r instant=%r impl=%r model=%r" % (spec, fields, got, m))
            # is it a failing input of the property?  the model is characterised by the theorems of
            # Props/C11; consult the oracle for this very input when the spec is a single token.
            ctx.violation("implementation and model disagree on format(%r, %r): impl %r, model %r"
                          % (dt.isoformat(), spec, got, m),
                          {"stream": "model", "spec": spec, "instant": list(fields), "expected": m[1], "observed": got[1]},
                          kind="correspondence")
            if ctx.stats.get("disagreements", 0) > 20:
                break
    bad = 0
    for e, o in zip(cal_exp, out[len(lines):]):
        ctx.evaluations += 1
        if e != o:
            bad += 1
            if bad < 3:
                ctx.broke("correspondence Py.Calendar", "expected %s got %s" % (e, o))
    ctx.stat("calendar_days_checked", len(cal_exp))
    confirm_replay(ctx)
    if ctx.broken:
        # deduplicate
        seen, uniq = set(), []
        for b in ctx.broken:
            if b["name"] not in seen:
                seen.add(b["name"])
                uniq.append(b)
        ctx.broken[:] = uniq


def replay(ctx, rep):
    r = rep["replay"]
    if r.get("prior_calls"):
        zones = {}
        for c in r["prior_calls"]:            # what the process had formatted before (state surviving between calls)
            if c is None:
                clear_cache()
                continue
            sp, d = deser_call(c, zones)
            impl_format(d, sp)
        print("(%d prior calls made first)" % len(r["prior_calls"]))
    if r.get("stream") == "zones":
        from loguru._datetime import datetime as ldt
        zone = zoneinfo.ZoneInfo(r["zoneinfo"]) if r.get("zoneinfo") else RuleTz(r["zone"][0], r["zone"][1], r["zone"][2])
        got = None
        for h in r["history"]:                      # the same tzinfo object, call after call
            dt = ldt(*h[:7], tzinfo=zone, fold=(h[7] if len(h) > 7 else 0))
            got = impl_format(dt, r["spec"])
            print("format(%s, %r) -> %r" % (dt.isoformat(), r["spec"], got))
        print("expected for the last call:", r["expected"])
        bad = got != ("ok", r["expected"])
        print("REPRODUCED" if bad else "not reproduced")
        return 1 if bad else 0
    if r.get("stream") == "history":
        from loguru._datetime import datetime as ldt
        zs = r.get("zone")
        zone = None
        if zs:
            zone = zoneinfo.ZoneInfo(zs["zoneinfo"]) if "zoneinfo" in zs else RuleTz(*zs["rule"])
        clear_cache()
        got = None
        for c in r["calls"][:r["index"] + 1]:
            dt = ldt(*c[1:8], tzinfo=zone) if zone is not None else mk_dt(tuple(c[1:]))
            got = impl_format(dt, c[0])
        print("history of %d calls (%d distinct specs); last: format(%s, %r) -> %r"
              % (r["index"] + 1, len({c[0] for c in r["calls"][:r["index"] + 1]}), dt.isoformat(), c[0], got))
        print("expected for the last call:", r["expected"])
        bad = got != ("ok", r["expected"])
        print("REPRODUCED" if bad else "not reproduced")
        return 1 if bad else 0
    if r.get("stream") == "handler":
        from loguru import logger
        try:
            logger.remove()
        except ValueError:
            pass
        dt = mk_dt(tuple(r["instant"]))
        out = []
        hid = logger.add(lambda m: out.append(str(m)), format="{time:" + r["spec"] + "}|{message}", colorize=False)
        logger.patch(lambda rec: rec.update(time=dt)).info("m")
        logger.remove(hid)
        print("handler format {time:%s}|{message} at %s -> %r; expected %r" % (r["spec"], dt.isoformat(), out, r["expected"]))
        bad = out != [r["expected"]]
        print("REPRODUCED" if bad else "not reproduced")
        return 1 if bad else 0
    if r.get("stream") == "aware_now":
        got = aware_now_at(pydt.datetime.fromisoformat(r["naive"]), r["zone"])
        obs = got.isoformat() + " " + str(got.tzname())
        print("aware_now() at %s in %s -> %s; expected %s" % (r["naive"], r["zone"], obs, r["expected"]))
        bad = obs != r["expected"]
        print("REPRODUCED" if bad else "not reproduced")
        return 1 if bad else 0
    fields = tuple(r["instant"])
    dt = mk_dt(fields)
    got = impl_format(dt, r["spec"])
    print("spec=%r instant=%s" % (r["spec"], dt.isoformat()))
    print("implementation:", got)
    if not os.environ.get("C11_REPLAY_NO_MODEL"):
        try:
            out = core.Driver(DRIVER).run([line_of(r["spec"], fields)])[0]
            print("model:         ", resolve_model(out, dt))
        except core.DriverError as e:
            print("model:          (driver does not run: %s)" % str(e).splitlines()[0])
    print("expected:      ", r.get("expected"))
    bad = got != ("ok", r.get("expected"))
    print("REPRODUCED" if bad else "not reproduced")
    return 1 if bad else 0
