"""C20 – logger.parse() is independent of the chunk size and equals a whole-text regex scan
(DESIGN §4 C20).

Streams
  corpus   minimised / historical cases (corpus/C20/*.json), always first
  model    (tie C) the Lean scanners `lineScanner` / `blockScanner` and `findIter` over them vs
           `logger.parse(io.StringIO|BytesIO(t), <the regex they model>, chunk=k)` for ALL k in 1..|t|+1,
           irregular short reads, and the whole-text scan with spans vs `re.finditer`
  oracle   DIRECT ORACLE, independent of the model: for (regex, text) drawn from a grammar of
           line-oriented log regexes, first decide with the real `re` engine whether the pair satisfies
           the instances of (R) restart and (P) prefix stability the proof uses on this text; pairs
           outside are counted and not judged; inside, parse(..., chunk=k) must equal
           [cast(m.groupdict()) for m in re.finditer(rx, t)] for every k in 1..|t|+1, through every kind
           of source (StringIO/BytesIO, short reads, str path, pathlib, os.PathLike, open text / binary
           file); files the function opened must be closed at exhaustion and after generator.close()
  args     invalid file / cast / pattern raise TypeError before anything is opened (vs the model too)
  roundtrip  a file written by a loguru handler, parsed back with a regex mirroring its format,
           recovers every record in order (all chunk sizes in a sample, and the default chunk)
  trace    (round 5, tie C for Parse/Trace.lean) the real event sequence of one use of the generator – open, every
           read call, every item the consumer receives, the exception that reaches it, close – against `parseTrace`
           of the Lean model, over sources × casts (also raising) × consumer limits (close() / dropping the
           generator) × reads that raise × wrong-typed patterns × missing files × invalid arguments
  fault    (round 5) DIRECT ORACLE on iterations that end some other way than plain exhaustion (judge_fault):
           the file the function opened is closed and not used afterwards; the consumer received exactly the
           beginning of the whole-text result
  interleaved / large (round 5)  two generators alive at once; inputs of 30 KiB – 1 MiB with records longer than
           the default chunk, parsed with the DEFAULT chunk (argument omitted)
The three streams that need the Lean model (args, model, trace) are generators; `drive_streams` starts the driver
once for all of them.
"""
import gc
import io
import json
import os
import pathlib
import re
import shutil
import tempfile
import time

from harness import core
from harness.core import enc

PROP = "C20"
LEAN_TARGETS = ["LoguruModel.Props.C20"]
AUDIT_FILE = "LoguruModel/Audit/C20.lean"
DRIVER = "C20"
RULE = ("(regex, text, source, cast) cases; regexes from a grammar of line-oriented log formats (greedy/lazy "
        "quantifiers, optional groups, alternation, multi-line blocks, (?m) anchors, look-around; str and bytes) "
        "plus small adversarial regexes; texts mostly conforming with noise, empty, without trailing newline, "
        "multi-byte; every case is run for ALL chunk sizes 1..|text|+1.  A case is judged only if the pair is "
        "empirically inside the property's domain ((R),(P) instances on this text, decided with the real re "
        "engine).  non-trivial = inside the domain, >= 2 matches and >= 1 match straddling a chunk boundary for "
        "some k (always true for k=1 when a match is longer than 1); distinct by (regex, text, bytes?)")
TRUSTED = [
    "the `re` engine is a parameter of the theorems (a scanner with the locality conditions (R),(P)); "
    "that a concrete (regex, text) pair satisfies them is decided empirically per case by the harness",
    "tools/extractors/parse_shape.py: statement-by-statement shape check of _find_iter/parse (fails closed)",
    "CPython's generator protocol is the shared model Py/Generators.lean (validated by C16's stream); that a `with` "
    "statement calls __exit__ once on every exit of its body and that open().__exit__ closes are written into "
    "parseAuto/openerAuto and tied by the event-trace stream",
]
ASSUMPTIONS = ["chunk >= 1", "text files are decoded by open() defaults (the property speaks about the decoded content)",
               "a cast converter that raises ends the iteration with that exception (the records before it are delivered)"]

LINE_RX = r"(?P<l>[^\n]*\n|[^\n]+)"
BLOCK_RX = r"(?P<a>[^\n]*)\n(?P<b>[^\n]*)\n"
CONT_RX = r"(?P<l>[^\n]*\n(?: [^\n]*\n)*)"      # a line and the complete indented lines after it: the last match
#                                                   can grow although it does not reach the end of the buffer
SCANNER_RX = {"line": LINE_RX, "linem": LINE_RX, "block": BLOCK_RX, "cont": CONT_RX}


def parse_fn():
    from loguru import logger
    return logger.parse


# ----------------------------------------------------------------------------- cast specs
def mk_cast(spec):
    """spec: ["none"] | ["dict"|"dictsub", [[key, j], …]] | ["fn"|"fnret"|"callobj"]
    ->  (cast argument or None, pure function on a dict)"""
    if spec[0] == "none":
        return None, lambda g: g
    if spec[0] == "dict":
        conv = {}
        for key, j in spec[1]:
            conv[key] = (lambda v, j=j: (j, v))

        def pure(g):
            g = dict(g)
            for key, c in conv.items():
                if key in g:
                    g[key] = c(g[key])
            return g
        return conv, pure
    if spec[0] == "dictcount":
        # converters with a visible state (the number of calls so far is part of the result): a converter is user code,
        # it must be called exactly once per record that has the key, in the order of the records – results must not
        # be memoised, shared between records with equal values, or computed ahead
        conv = {key: CountingConverter() for key, j in spec[1]}
        sim = {key: CountingConverter() for key in conv}

        def pure(g):
            g = dict(g)
            for key, c in sim.items():
                if key in g:
                    g[key] = c(g[key])
            return g
        return conv, pure
    if spec[0] == "dictsub":
        # a dict subclass (collections.OrderedDict) whose converters are callable objects / builtins
        import collections
        conv = collections.OrderedDict()
        for key, j in spec[1]:
            conv[key] = Tagger(j) if j % 2 else repr

        def pure(g):
            g = dict(g)
            for key, c in conv.items():
                if key in g:
                    g[key] = c(g[key])
            return g
        return conv, pure
    if spec[0] in ("fn", "fnret", "callobj"):
        def fn(g):
            for key in sorted(g):
                g[key] = ("f", g[key])
            g["_n"] = len(g)
            if spec[0] == "fnret":          # the documented contract is IN PLACE: a returned value is ignored
                return {"returned": "ignored"}
            return None

        def pure(g):
            g = dict(g)
            fn(g)
            return g
        return (CallableCast(fn) if spec[0] == "callobj" else fn), pure
    raise ValueError(spec)


class CountingConverter:
    def __init__(self):
        self.n = 0

    def __call__(self, v):
        self.n += 1
        return (self.n, v)


class Tagger:
    """a converter that is a callable object, not a function"""

    def __init__(self, j):
        self.j = j

    def __call__(self, v):
        return (self.j, v)


class CallableCast:
    """a `cast` that is a callable object (neither a function nor a dict)"""

    def __init__(self, fn):
        self.fn = fn

    def __call__(self, groups):
        return self.fn(groups)


# ----------------------------------------------------------------------------- sources
class ShortReader:
    """file-like object whose read(n) returns between 1 and n items (never more), as sockets/pipes do"""

    def __init__(self, content, seed):
        self.content, self.pos, self.rng = content, 0, core.Rng(seed)
        self.reads = []

    def read(self, n=-1):
        if n is None or n < 0:
            n = len(self.content) - self.pos
        if n == 0:
            return self.content[:0]
        m = 1 + self.rng.below(n)
        piece = self.content[self.pos:self.pos + m]
        self.pos += len(piece)
        self.reads.append(piece)
        return piece


class PathLikeObj:
    """an os.PathLike that is nothing else: only __fspath__ (str() is the default object repr)"""

    def __init__(self, p):
        self.p = p

    def __fspath__(self):
        return self.p


class PathLikeStr(PathLikeObj):
    """an os.PathLike whose str() is the path too (as pathlib.Path)"""

    def __str__(self):
        return self.p


class OpenTracker:
    """records every file loguru._logger opens through the builtin `open` (module-attribute
    interception, DESIGN §6) and keeps a reference so that only an explicit close() closes it"""

    def __enter__(self):
        import loguru._logger as L
        self.L, self.files = L, []
        self.had = "open" in L.__dict__
        self.old = L.__dict__.get("open")
        L.open = self._open
        return self

    def _open(self, *a, **kw):
        f = open(*a, **kw)
        self.files.append(f)
        return f

    def __exit__(self, *exc):
        if self.had:
            self.L.open = self.old
        else:
            del self.L.open
        for f in self.files:
            try:
                f.close()
            except Exception:
                pass
        return False


SOURCES_STR = ["stringio", "short", "path", "pathlib", "pathlike", "pathlike_str", "textfile"]
SOURCES_BYTES = ["bytesio", "short", "binfile"]


class Workdir:
    def __init__(self):
        self.d = tempfile.mkdtemp(prefix="c20_")
        self.n = 0

    def file(self, data):
        self.n += 1
        p = os.path.join(self.d, "f%d.log" % self.n)
        with open(p, "wb") as f:
            f.write(data)
        return p

    def close(self):
        shutil.rmtree(self.d, ignore_errors=True)


def content_for(kind, text, wd):
    """the content `parse` is going to see for this kind of source, and a factory of fresh sources"""
    if kind == "stringio":
        return text, (lambda: io.StringIO(text)), None
    if kind == "bytesio":
        return text, (lambda: io.BytesIO(text)), None
    if kind == "short":
        return text, None, None   # caller builds ShortReader with a seed
    if kind in ("path", "pathlib", "pathlike", "pathlike_str", "textfile"):
        p = wd.file(text.encode("utf8"))
        with open(p) as f:        # exactly what `open(str(file))` decodes
            seen = f.read()
        if kind == "path":
            return seen, (lambda: p), p
        if kind == "pathlib":
            return seen, (lambda: pathlib.Path(p)), p
        if kind == "pathlike":
            return seen, (lambda: PathLikeObj(p)), p
        if kind == "pathlike_str":
            return seen, (lambda: PathLikeStr(p)), p
        return seen, (lambda: open(p)), p
    if kind == "binfile":
        p = wd.file(text)
        return text, (lambda: open(p, "rb")), p
    raise ValueError(kind)


def compiled_variant(pat):
    """the same regex as a compiled pattern object; a leading inline `(?m)` / `(?s)` becomes a flag argument
    of re.compile (so the flags live only in the pattern object)"""
    flags = 0
    lead = {"(?m)": re.M, "(?s)": re.S}
    for k, f in lead.items():
        kk = k.encode() if isinstance(pat, bytes) else k
        if pat.startswith(kk):
            return re.compile(pat[len(kk):], flags | f)
    return re.compile(pat)


def run_parse(src, rx, k, cast, compiled=False):
    try:
        kw = {} if cast is None else {"cast": cast}
        if compiled:
            rx = compiled_variant(rx)
        return ("ok", list(parse_fn()(src, rx, chunk=k, **kw)))
    except Exception as e:  # noqa
        return ("err", core.err_kind(e) + ": " + str(e)[:80])


# ----------------------------------------------------------------------------- domain decision
def spans(rx, s):
    return [(m.start(), m.end(), m.groupdict()) for m in rx.finditer(s)]


def in_domain(rx, t):
    """Does (rx, t) satisfy every instance of the hypotheses the proof of find_iter_eq_scan uses on
    this text, for every chunking?  Buffers are t[a:b] with a a reachable trim point (0 or the end of
    a match of a scan started at a reachable point); used instances: restart on t[a:] at every
    index, prefixStable on (t[a:b], t[b:]) for every b.  Decided with the real re engine."""
    n = len(t)
    cache, todo, seen = {}, [0], {0}
    while todo:
        a = todo.pop()
        S = spans(rx, t[a:])
        cache[a] = S
        for s, e, _ in S:
            if e == s:
                return False, "empty-match"
            if a + e not in seen:
                seen.add(a + e)
                todo.append(a + e)
    for a in sorted(seen):
        S = cache[a]
        for i, (s, e, _) in enumerate(S):
            if [x[2] for x in cache[a + e]] != [x[2] for x in S[i + 1:]]:
                return False, "restart"
        for b in range(a, n + 1):
            Sb = spans(rx, t[a:b])
            if Sb[:-1] != S[:max(len(Sb) - 1, 0)]:
                return False, "prefix"
    return True, ""


# ----------------------------------------------------------------------------- generators
MSG_ALPHA = list("abcXYZ 019:|-[]_.,") + ["é", "日", "😀", "\t", "  "]
WORDS = ["INFO", "DEBUG", "WARNING", "ERROR", "WARN", "x", "main", "a_b"]


def gen_msg(rng, lo=0, hi=8):
    return "".join(rng.choice(MSG_ALPHA) for _ in range(rng.range(lo, hi)))


def gen_format(rng):
    """one log format: (regex source, record generator, feature set)"""
    feats = set()
    parts, gens = [], []
    multiline_anchor = rng.chance(25)
    if multiline_anchor:
        parts.append("(?m)^")
        feats.add("(?m)")
    starts_with_digit = False
    # time-like field
    if rng.chance(60):
        kind = rng.below(4)
        if kind == 0:
            parts.append(r"(?P<time>\d{2}:\d{2}:\d{2})")
            gens.append(lambda r: "%02d:%02d:%02d" % (r.below(24), r.below(60), r.below(60)))
        elif kind == 1:
            parts.append(r"(?P<time>[0-9:.]+)")
            gens.append(lambda r: "%02d:%02d.%03d" % (r.below(60), r.below(60), r.below(1000)))
        elif kind == 2:
            parts.append(r"(?P<ts>\d+(?:\.\d+)?)")
            gens.append(lambda r: str(r.below(5000)) + ("." + str(r.below(100)) if r.chance(50) else ""))
            feats.add("optional")
        else:
            parts.append(r"(?P<time>[0-9:]+?)")
            gens.append(lambda r: "%d:%02d" % (r.below(24), r.below(60)))
            feats.add("lazy")
        starts_with_digit = True
        sep = rng.choice([" ", " | ", " - ", "\t"])
        parts.append(re.escape(sep))
        gens.append(lambda r, sep=sep: sep)
    # optional tag
    if rng.chance(35):
        parts.append(r"(?:\[(?P<tag>\w+)\] )?")
        gens.append(lambda r: ("[%s] " % r.choice(WORDS)) if r.chance(60) else "")
        feats.add("optional")
    # level
    if rng.chance(70):
        kind = rng.below(4)
        if kind == 0:
            parts.append(r"(?P<level>[A-Z]+)")
        elif kind == 1:
            parts.append(r"(?P<level>INFO|DEBUG|WARNING|ERROR)")
            feats.add("alternation")
        elif kind == 2:
            parts.append(r"(?P<level>\w+)")
        else:
            parts.append(r"(?P<level>INFO|WARN(?:ING)?|E(?P<sub>RR)OR)")
            feats.add("alternation")
            feats.add("optional")
        gens.append(lambda r: r.choice(WORDS[:5]))
        sep = rng.choice([" ", ": ", " - ", " | "])
        parts.append(re.escape(sep))
        gens.append(lambda r, sep=sep: sep)
    # number
    if rng.chance(30):
        parts.append(r"(?P<n>\d+) ")
        gens.append(lambda r: "%d " % r.below(1000))
    # message + terminator
    kind = rng.below(8)
    if kind == 0:
        parts.append(r"(?P<msg>.*)")
        term = rng.choice(["", r"\n", r"(?:\n|$)"])
        gens.append(lambda r: gen_msg(r))
        feats.add("greedy")
    elif kind == 1:
        feats.add("lazy")
        if multiline_anchor or rng.chance(50):
            if not multiline_anchor:
                parts.insert(0, "(?m)")
                feats.add("(?m)")
            parts.append(r"(?P<msg>.*?)")
            term = "$"
        else:
            parts.append(r"(?P<msg>.*?)")
            term = r"\n"
        gens.append(lambda r: gen_msg(r))
    elif kind == 2:
        parts.append(r"(?P<msg>[^\n]*)")
        term = rng.choice([r"\n", "", r"\n?"])
        gens.append(lambda r: gen_msg(r))
    elif kind == 3:
        parts.append(r"(?P<msg>[^\n]+)")
        term = rng.choice([r"\n", ""])
        gens.append(lambda r: gen_msg(r, 1, 8))
    elif kind == 4:
        # multi-line block: continuation lines are indented
        parts.append(r"(?P<msg>[^\n]*(?:\n[ \t]+[^\n]*)*)")
        term = rng.choice([r"\n", "", r"(?:\n|$)"])
        gens.append(lambda r: "\n".join([gen_msg(r)] + ["  " + gen_msg(r) for _ in range(r.below(3))]))
        feats.add("multiline-block")
    elif kind == 5 and starts_with_digit:
        # multi-line block: everything up to the next line that starts like a record (look-ahead)
        parts.append(r"(?P<msg>.*(?:\n(?!\d).*)*)")
        term = rng.choice([r"\n", ""])
        gens.append(lambda r: "\n".join([gen_msg(r)] + ["at " + gen_msg(r) for _ in range(r.below(3))]))
        feats.add("multiline-block")
        feats.add("lookahead")
    elif kind == 6:
        # two-field tail with a lazy first part
        parts.append(r"(?P<key>\w+?)=(?P<val>[^\n ]*)")
        term = rng.choice(["", r"\n"])
        gens.append(lambda r: r.choice(WORDS) + "=" + gen_msg(r, 0, 5).replace(" ", "_"))
        feats.add("lazy")
    else:
        parts.append(r"(?P<msg>[^\n]*?)(?: #(?P<id>\d+))?")
        term = rng.choice([r"\n", "(?m:$)"])
        gens.append(lambda r: gen_msg(r) + ((" #%d" % r.below(100)) if r.chance(50) else ""))
        feats.add("lazy")
        feats.add("optional")
    parts.append(term)
    rx = "".join(parts)

    def record(r):
        return "".join(g(r) for g in gens)
    return rx, record, feats


ADV_RX = [r"(?P<x>a+)", r"(?P<x>a+b?)", r"(?P<x>a*)", r"(?<=a)(?P<b>b)", r"(?P<x>a+)(?=b)", r"^(?P<x>.+)$",
          r"(?P<x>\w+)\Z", r"(?P<x>a|ab)", r"\b(?P<w>\w+)\b", r"(?P<x>[ab]+)\n", r"\n(?P<a>a+)", r"(?P<x>.)",
          r"(?P<x>a.*?b)", r"(?s)(?P<x>a.*?b)", r"(?P<x>(?:ab)+)", r"(?m)^(?P<x>a*)$", r"(?<!a)(?P<x>b+)",
          r"(?P<x>b+)(?!a)", r"(?P<q>a{2,3})", r"(?P<x>ab|b\n)", r"(?P<x>[^\n]*\n|[^\n]+)", BLOCK_RX,
          r"(?P<t>This[\s\S]*Text\n)", r"(?P<x>a)(?P<y>b)?",
          # the last match can grow although it does not reach the end of the buffer
          r"[ab]+\n", r"(a)(?P<x>b+)",      # no / not only named groups: groupdict() is {} / partial
          CONT_RX, r"(?P<x>(?:ab)+)\n?", r"(?P<h>[ab]\n)(?P<c>(?: [^\n]*\n)*)", r"(?P<x>a(?: b)*)(?P<e>)",
          # outside the domain on purpose (look-behind / anchors at a previous match, unbounded look-ahead)
          r"(?m)(?P<y>b)|^(?P<x>a)", r"(?P<x>ab|(?<=b)c)", r"(?P<x>a)(?![\s\S]*c)", r"(?P<y>b)|\b(?P<x>a)",
          r"(?P<x>a+)$", r"(?P<x>a\n?)\Z|(?P<y>b)"]


def gen_case(rng):
    """-> (rx source, text (str), feature set)"""
    if rng.chance(15):
        rx = rng.choice(ADV_RX)
        t = "".join(rng.choice(["a", "a", "b", "b", "\n", " ", "ab", "c"]) for _ in range(rng.range(0, 14)))
        return rx, t, {"adversarial"}
    rx, record, feats = gen_format(rng)
    nrec = rng.choice([0, 1, 2, 2, 3, 3, 4, 5])
    lines = []
    for _ in range(nrec):
        if rng.chance(12):
            lines.append(gen_msg(rng, 0, 10))          # noise line
        else:
            lines.append(record(rng))
    t = "\n".join(lines)
    if lines and rng.chance(65):
        t += "\n"
    if rng.chance(3):
        t = ""
    if rng.chance(4):
        t = t.replace("\n", "\r\n", 1)
    if rng.chance(5):
        t = "\n" + t
    if rng.chance(5):
        t = t + "\n\n"
    return rx, t[:90], feats


def gen_cast_spec(rng, rx_c):
    names = sorted(k if isinstance(k, str) else k.decode() for k in rx_c.groupindex)
    r = rng.below(10)
    if r < 4:
        return ["none"]
    if r < 8:
        keys = [n for n in names if rng.chance(60)] + (["zz_absent"] if rng.chance(40) else [])
        return [rng.choice(["dict", "dict", "dictsub", "dictcount"]), [[k, j] for j, k in enumerate(keys)]]
    return [rng.choice(["fn", "fn", "fnret", "callobj"])]


def canon(v):
    """JSON-able form of a parse result (bytes values -> latin-1 str with a tag)"""
    if isinstance(v, bytes):
        return {"b": v.decode("latin-1")}
    if isinstance(v, (list, tuple)):
        return [canon(x) for x in v]
    if isinstance(v, dict):
        return {str(k): canon(x) for k, x in v.items()}
    return v


# ----------------------------------------------------------------------------- one oracle case
def expected_for(rx_c, content, pure):
    return [pure(m.groupdict()) for m in rx_c.finditer(content)]


def build_source(kind, content_text, wd, seed):
    """-> (content as parse will see it, factory(k) -> fresh source object, path or None)"""
    seen, fac, path = content_for(kind, content_text, wd)
    if kind == "short":
        return seen, (lambda: ShortReader(content_text, seed)), None
    return seen, fac, path


def close_if_file(src):
    if hasattr(src, "close") and not isinstance(src, (str, pathlib.Path)):
        try:
            src.close()
        except Exception:
            pass


def judge_case(ctx, rx_src, text, is_bytes, kind, cast_spec, ks, wd, seed, stream="oracle", extra=None):
    """run parse for every k in ks through `kind`, compare with re.finditer on the same content.
    Returns number of failures reported."""
    pat = rx_src.encode("ascii") if is_bytes else rx_src
    rx_c = re.compile(pat)
    data = text.encode("utf8") if is_bytes else text
    cast, pure = mk_cast(cast_spec)
    content, fac, path = build_source(kind, data, wd, seed)
    exp = expected_for(rx_c, content, pure)
    bad = 0
    for k in ks:
        src = fac()
        if cast_spec[0] == "dictcount":
            cast = mk_cast(cast_spec)[0]          # stateful converters: a fresh set for every call of parse
        try:
            with OpenTracker() as trk:
                compiled = bool(extra and extra.get("compiled")) or ((seed + k) % 4 == 0)
                got = run_parse(src, pat, k, cast, compiled)
                opened = list(trk.files)
                closed = [f.closed for f in opened]
        finally:
            close_if_file(src)
        ctx.stat("parse_calls")
        rep = {"stream": stream, "pattern": rx_src, "bytes": is_bytes, "text": text, "chunk": k, "source": kind,
               "cast": cast_spec, "seed": seed, "compiled": compiled}
        if compiled:
            ctx.stat("pattern_passed_compiled")
        if extra:
            rep.update(extra)
        if got != ("ok", exp):
            bad += 1
            rep["expected"] = canon(exp)
            rep["observed"] = canon(got[1])
            ctx.violation("parse(%s, %r, chunk=%d) on %r: expected %d dicts %r, observed %r"
                          % (kind, rx_src, k, text, len(exp), canon(exp)[:4], canon(got[1]) if got[0] == "err" else canon(got[1])[:4]),
                          rep)
            break
        if path is not None and kind in ("path", "pathlib", "pathlike", "pathlike_str"):
            if len(opened) == 0:
                ctx.stat("open_not_observed")
            elif not all(closed):
                bad += 1
                rep["stream"] = "closed"
                rep["mode"] = "exhausted"
                ctx.violation("file opened by parse(%s) is still open after the iteration was exhausted (chunk=%d)"
                              % (kind, k), rep)
                break
            else:
                ctx.stat("closed_after_exhaustion")
    return bad


def early_close_case(ctx, rx_src, text, kind, k, wd):
    """generator.close() after the first item: the file the function opened must be closed"""
    seen, fac, path = content_for(kind, text, wd)
    rep = {"stream": "closed", "mode": "early", "pattern": rx_src, "bytes": False, "text": text,
           "chunk": k, "source": kind, "cast": ["none"], "seed": 0}
    with OpenTracker() as trk:
        try:
            gen = parse_fn()(fac(), rx_src, chunk=k)
            try:
                next(gen)
                took = 1
            except StopIteration:
                took = 0
            during = [f.closed for f in trk.files]
            gen.close()
        except Exception as e:  # noqa
            ctx.violation("parse(%s, %r, chunk=%d) on %r raised %s" % (kind, rx_src, k, text, core.err_kind(e)),
                          dict(rep, stream="oracle"))
            return 1
        after = [f.closed for f in trk.files]
    ctx.stat("early_close_checks")
    if took == 1 and during and all(during):
        ctx.stat("closed_before_consumer_finished")
    if after and not all(after):
        ctx.violation("file opened by parse(%s) is still open after generator.close()" % kind, rep)
        return 1
    return 0


# ----------------------------------------------------------------------------- lazy pipeline: event traces, faults
class RecFile:
    """a file object that records what is done to it: "R" per read call, "C" per close call; the k-th
    `read(chunk)` call (the initial `read(0)` is call 0) can be made to raise OSError"""

    def __init__(self, inner, log, fail_at=None):
        self.inner, self.log, self.fail_at = inner, log, fail_at
        self.calls, self.pieces, self.first = 0, [], None

    def read(self, n=-1):
        self.log.append("R")
        if self.first is None:
            self.first = self.inner.read(n)
            return self.first
        self.calls += 1
        if self.fail_at is not None and self.calls == self.fail_at:
            self.pieces.append(None)
            raise OSError("injected read fault")
        piece = self.inner.read(n)
        self.pieces.append(piece)
        return piece

    def __enter__(self):
        return self

    def __exit__(self, *exc):
        self.close()
        return False

    def close(self):
        self.log.append("C")
        self.inner.close()

    @property
    def closed(self):
        return self.inner.closed


class OpenRec:
    """`open` as seen by loguru._logger replaced by one that logs "O" and hands out a RecFile"""

    def __init__(self, log, fail_at):
        self.log, self.fail_at, self.files = log, fail_at, []

    def __enter__(self):
        import loguru._logger as L
        self.L = L
        self.had = "open" in L.__dict__
        self.old = L.__dict__.get("open")
        L.open = self._open
        return self

    def _open(self, *a, **kw):
        f = open(*a, **kw)
        self.log.append("O")
        rf = RecFile(f, self.log, self.fail_at)
        self.files.append(rf)
        return rf

    def __exit__(self, *exc):
        if self.had:
            self.L.open = self.old
        else:
            del self.L.open
        for rf in self.files:
            try:
                rf.inner.close()
            except Exception:
                pass
        return False


class Raiser:
    """a converter: prefixes the value with '#' (None becomes ('#', None)); raises ValueError on its call
    number `at` (0-based) or, if `marker` is given, on a value containing the marker"""

    def __init__(self, at=None, marker=None):
        self.at, self.marker, self.n = at, marker, 0

    def __call__(self, v):
        i = self.n
        self.n += 1
        if self.at is not None and i == self.at:
            raise ValueError("injected converter fault")
        if self.marker is not None and v is not None and self.marker in v:
            raise ValueError("injected converter fault")
        if v is None:
            return ("#", None)
        return (b"#" if isinstance(v, bytes) else "#") + v


def cast_is_faulty(c):
    return (c[0] == "dict" and (c[2] is not None or c[3] is not None)) or \
        (c[0] == "fn" and (c[1] is not None or c[2] is not None))


def mk_fault_cast(spec, is_bytes):
    """spec: ["none"] | ["dict", key, at|None, marker|None] | ["fn", at|None, marker|None] | ["invalid"]
    -> (cast argument or None, fresh pure simulator: list of groupdicts -> (list of expected dicts, raised?))"""
    def mk_marker(m):
        if m is None:
            return None
        return m.encode("latin-1") if is_bytes else m

    if spec[0] == "none":
        return None, (lambda gds: (gds, False))
    if spec[0] == "invalid":
        return 123, None
    if spec[0] == "dict":
        _, key, at, marker = spec
        marker = mk_marker(marker)

        def build():
            return {key: Raiser(at, marker), "zz_absent": (lambda v: v)}

        def sim(gds):
            conv = build()
            out = []
            for g in gds:
                g = dict(g)
                try:
                    for kk, c in conv.items():
                        if kk in g:
                            g[kk] = c(g[kk])
                except ValueError:
                    return out, True
                out.append(g)
            return out, False
        return build(), sim
    if spec[0] == "fn":
        _, at, marker = spec
        marker = mk_marker(marker)

        def build():
            r = Raiser(at, None)

            def fn(g):
                i = r.n
                r.n += 1
                if at is not None and i == at:
                    raise ValueError("injected cast fault")
                if marker is not None and any(v is not None and marker in v for v in g.values()):
                    raise ValueError("injected cast fault")
                for kk in sorted(g):
                    if g[kk] is not None:
                        g[kk] = (b"#" if isinstance(g[kk], bytes) else "#") + g[kk]
            return fn

        def sim(gds):
            fn = build()
            out = []
            for g in gds:
                g = dict(g)
                try:
                    fn(g)
                except ValueError:
                    return out, True
                out.append(g)
            return out, False
        return build(), sim
    raise ValueError(spec)


FAULT_SOURCES_STR = ["stringio", "path", "pathlib", "pathlike", "pathlike_str", "textfile"]
FAULT_SOURCES_BYTES = ["bytesio", "binfile"]


def run_fault(case, wd):
    """Execute one use of the generator `parse(...)` as `case` describes and record the event log.
    case: pattern (str source or None = invalid pattern), bytes, text, source, chunk, cast (fault-cast spec),
    limit (None | n), fail_at (None | k), mismatch (bool: pattern of the other string type), missing (bool: the
    path does not exist).  -> dict(log, pieces, seen, file_kind, first)"""
    is_bytes, text, kind = case["bytes"], case["text"], case["source"]
    data = text.encode("utf8") if is_bytes else text
    log = []
    rx_src = case["pattern"]
    if rx_src is None:
        pat = 123
    else:
        pat = rx_src.encode("ascii") if (is_bytes != bool(case.get("mismatch"))) else rx_src
    cast, sim = mk_fault_cast(case["cast"], is_bytes)
    seen, path, wrapped, opened_by_me = data, None, None, None
    file_kind = {"stringio": "textFile", "bytesio": "binaryFile", "textfile": "textFile", "binfile": "binaryFile",
                 "path": "pathStr", "pathlib": "pathLike", "pathlike": "pathLike", "pathlike_str": "pathLike",
                 "other": "other"}[kind]
    if kind == "stringio":
        wrapped = RecFile(io.StringIO(data), log, case.get("fail_at"))
        src = wrapped
    elif kind == "bytesio":
        wrapped = RecFile(io.BytesIO(data), log, case.get("fail_at"))
        src = wrapped
    elif kind == "other":
        src = object()
    else:
        raw = data if is_bytes else data.encode("utf8")
        path = wd.file(raw)
        if not is_bytes:
            with open(path) as f:
                seen = f.read()
        if case.get("missing"):
            path = path + ".missing"
        if kind == "textfile":
            opened_by_me = open(path) if not case.get("missing") else None
            wrapped = RecFile(opened_by_me, log, case.get("fail_at"))
            src = wrapped
        elif kind == "binfile":
            opened_by_me = open(path, "rb")
            wrapped = RecFile(opened_by_me, log, case.get("fail_at"))
            src = wrapped
        elif kind == "path":
            src = path
        elif kind == "pathlib":
            src = pathlib.Path(path)
        elif kind == "pathlike":
            src = PathLikeObj(path)
        else:
            src = PathLikeStr(path)
    limit = case.get("limit")
    yields = []
    exc = None
    with OpenRec(log, case.get("fail_at")) as orec:
        kw = {} if cast is None else {"cast": cast}
        gen = parse_fn()(src, pat, chunk=case["chunk"], **kw)
        try:
            if limit != 0:
                for d in gen:
                    yields.append(d)
                    log.append(("Y", d))
                    if limit is not None and len(yields) >= limit:
                        break
        except Exception as e:  # noqa
            exc = e
            log.append("E" + core.err_kind(e).split(":")[0])
        finally:
            if case.get("abandon"):
                # the consumer just drops the generator: CPython finalises it (GeneratorExit at the yield)
                d = None
                del gen
                gc.collect()
            else:
                gen.close()
        rf = orec.files[0] if orec.files else wrapped
        still_open = [f for f in orec.files if not f.inner.closed]
    caller_closed = bool(wrapped is not None and wrapped.inner is not None and wrapped.inner.closed)
    if opened_by_me is not None:
        opened_by_me.close()
    return {"log": log, "pieces": list(rf.pieces) if rf is not None else [], "first": rf.first if rf is not None else None,
            "seen": seen, "file_kind": file_kind, "yields": yields, "exc": exc, "sim": sim, "pat": pat,
            "opened": len(orec.files), "still_open": len(still_open), "caller_closed": caller_closed}


def judge_fault(ctx, case, res, stream):
    """DIRECT ORACLE on one faulty / abandoned iteration (independent of the Lean model):
    (i) a file the function opened is closed – exactly once, nothing read or yielded afterwards – however the
    iteration ended; a caller's file object is never closed;  (ii) what the consumer received before the
    iteration ended is exactly the beginning of [cast(m.groupdict()) for m in re.finditer(...)]: all of it when
    nothing failed and the consumer did not stop, exactly `limit` items when it stopped, exactly the records
    before the one whose converter raised.  Returns 1 if a violation was reported."""
    log = res["log"]
    rep = dict(case, stream="fault")
    how = ("the consumer %s the generator after %r item(s)" % ("dropped" if case.get("abandon") else "closed", case.get("limit"))
           if case.get("limit") is not None
           else "exhaustion") + ("; read #%d raises OSError" % case["fail_at"] if case.get("fail_at") else "") + \
        ("; a converter raises" if cast_is_faulty(case["cast"]) else "")
    marks = [x if isinstance(x, str) else "Y" for x in log]
    if res["opened"]:
        # closed (a second close() would be harmless and is not judged here – the trace correspondence pins
        # "exactly once"); after the first close nothing is read or yielded, only the exception reaches the consumer
        after = marks[marks.index("C") + 1:] if "C" in marks else []
        if res["still_open"] or "C" not in marks or any(m != "C" and not m.startswith("E") for m in after):
            ctx.violation("file opened by parse(%s, %r, chunk=%d) on %r is %s after the iteration ended (%s): events %s"
                          % (case["source"], case["pattern"], case["chunk"], case["text"],
                             "still open" if (res["still_open"] or "C" not in marks) else "used after it was closed", how,
                             "".join(m[0] for m in marks)), dict(rep, what="closed"))
            return 1
        ctx.stat("fault_closed_ok")
    elif res["caller_closed"] or "C" in marks:
        # not demanded by the property text (it speaks about files the function opened): reported as a broken
        # tie (theorem caller_file_never_opened_or_closed no longer describes the code), not as a failing input
        ctx.stat("caller_file_closed_by_parse")
        ctx.broke("correspondence Parse.parseTrace (caller's file object closed by parse)",
                  "source=%s %s" % (case["source"], how))
    if case["pattern"] is None or case["cast"][0] == "invalid" or case["source"] == "other" or case.get("mismatch") \
            or case.get("missing"):
        if res["yields"]:
            ctx.violation("parse(%s) with an invalid argument yielded %d item(s)" % (case["source"], len(res["yields"])),
                          dict(rep, what="yields"))
            return 1
        return 0
    rx_c = re.compile(res["pat"])
    gds = [m.groupdict() for m in rx_c.finditer(res["seen"])]
    exp, raised = res["sim"](gds)
    got = res["yields"]
    lim = case.get("limit")
    want = exp if lim is None else exp[:lim]
    ok = (got == want) if not case.get("fail_at") else (got == want[:len(got)])
    if not ok:
        ctx.violation("parse(%s, %r, chunk=%d) on %r (%s): the consumer received %r…, re.finditer + cast give %r…"
                      % (case["source"], case["pattern"], case["chunk"], case["text"], how, canon(got)[:4], canon(want)[:4]),
                      dict(rep, what="yields", expected=canon(want), observed=canon(got)))
        return 1
    ctx.stat("fault_yields_ok")
    return 0


def gen_fault(rng, nmatches, ndata, group_names):
    """a way for the iteration to end other than plain exhaustion"""
    case = {"limit": None, "fail_at": None}
    r = rng.below(10)
    cast = ["none"]
    if r < 3:
        case["limit"] = rng.choice([0, 1, 1, 2, max(1, nmatches - 1), max(1, nmatches), nmatches + 1])
        cast = rng.choice([["none"], ["fn", None, None]] + ([["dict", rng.choice(group_names), None, None]] if group_names else []))
    elif r < 6:
        at = rng.range(0, max(0, nmatches))
        cast = ["fn", at, None] if (rng.chance(40) or not group_names) else ["dict", rng.choice(group_names), at, None]
        if rng.chance(30):
            case["limit"] = rng.range(1, nmatches + 1)
    elif r < 9:
        case["fail_at"] = rng.range(1, ndata + 2)
        if rng.chance(30):
            case["limit"] = rng.range(1, nmatches + 1)
        cast = rng.choice([["none"], ["fn", None, None]])
    else:
        case["fail_at"] = rng.range(1, ndata + 2)
        cast = ["fn", rng.range(0, max(0, nmatches)), None]
    case["cast"] = cast
    if case["limit"] is not None and rng.chance(40):
        case["abandon"] = True
    return case


def trace_stream(ctx, drv, rng, wd, boost):
    """tie C for Parse/Trace.lean: the real event sequence (open, every read call, every item the consumer
    receives, the exception that reaches it, close) of `parse` with the line regex against `parseTrace` in the
    Lean model, over sources × casts × consumer limits × read faults × converter faults × wrong-typed
    patterns × missing files × invalid arguments; the direct oracle `judge_fault` judges the same runs."""
    n = ctx.n(400, 8000) * boost
    lines, metas = [], []
    wd = Workdir()          # its own scratch directory (it is emptied now and then; other streams keep files in theirs)
    try:
        yield from _trace_stream(ctx, rng, wd, n, lines, metas)
    finally:
        wd.close()


def _trace_stream(ctx, rng, wd, n, lines, metas):
    for i in range(n):
        t = gen_model_text(rng)
        if rng.chance(40):
            t = t.replace("a", "b", 1)
        is_bytes = rng.chance(25)
        kind = rng.choice(FAULT_SOURCES_BYTES if is_bytes else FAULT_SOURCES_STR)
        if "\r" in t and kind not in ("stringio", "bytesio", "binfile"):
            kind = "bytesio" if is_bytes else "stringio"
        data_len = len(t.encode("utf8")) if is_bytes else len(t)
        k = rng.range(1, data_len + 1) if rng.chance(80) else rng.choice([1, 2, 64, 65536])
        nm = len(re.findall(LINE_RX, t))
        case = {"pattern": LINE_RX, "bytes": is_bytes, "text": t, "source": kind, "chunk": k,
                "limit": None, "fail_at": None, "cast": ["none"], "seed": 0}
        r = rng.below(20)
        marker = rng.choice(["b", "b", "\n", "é" if not is_bytes else "b"])
        if r < 4:
            pass
        elif r < 8:
            case["limit"] = rng.choice([0, 1, 1, 2, 3, max(1, nm), nm + 1])
            case["cast"] = rng.choice([["none"], ["dict", "l", None, None], ["fn", None, None]])
        elif r < 12:
            case["cast"] = rng.choice([["dict", "l", None, marker], ["fn", None, marker]])
            if rng.chance(30):
                case["limit"] = rng.range(1, nm + 1)
        elif r < 16:
            case["fail_at"] = rng.range(1, data_len // max(1, k) + 2)
            case["cast"] = rng.choice([["none"], ["dict", "l", None, marker], ["fn", None, None]])
            if rng.chance(30):
                case["limit"] = rng.range(1, nm + 1)
        elif r == 16:
            case["mismatch"] = True
            if rng.chance(50):
                case["fail_at"] = 1
        elif r == 17:
            if kind in ("path", "pathlib", "pathlike", "pathlike_str"):
                case["missing"] = True
            else:
                case["cast"] = ["invalid"]
        elif r == 18:
            case["pattern"] = None
            case["cast"] = rng.choice([["none"], ["invalid"]])
        else:
            case["source"] = "other"
            case["cast"] = rng.choice([["none"], ["invalid"], ["fn", None, None]])
        if case["limit"] is not None and rng.chance(30):
            case["abandon"] = True
        res = run_fault(case, wd)
        ctx.case(("trace", t, is_bytes, case["source"], k, json.dumps(case["cast"]), case["limit"], case["fail_at"],
                  bool(case.get("mismatch")), bool(case.get("missing")), case["pattern"] is None),
                 nontrivial=(nm >= 2 and (case["limit"] not in (None, 0) or case["fail_at"] or case["cast"][0] != "none")))
        ctx.stat("trace_cases")
        ctx.stat("trace_end:" + ("limit" if case["limit"] is not None else "exhaustion")
                 + ("+readfault" if case["fail_at"] else "") + ("+castfault" if cast_is_faulty(case["cast"]) else ""))
        ctx.traces_validated += 1
        if judge_fault(ctx, case, res, "trace"):
            return
        # the model line: exactly the read outcomes the implementation met
        def wire(p):
            if p is None:
                return "!OSError"
            return enc(latin(p) if isinstance(p, bytes) else p)
        c = case["cast"]
        if c[0] == "dict":
            cs = "dict" if not c[3] else "dictraise:%d" % ord(c[3])
        elif c[0] == "fn":
            cs = "fn" if not c[2] else "fnraise:%d" % ord(c[2])
        else:
            cs = c[0]
        lines.append("trace %s %d %s %d %d %s %s %d %s" % (
            res["file_kind"], 0 if case["source"] == "pathlike" else 1, "OSError" if case.get("missing") else "-",
            0 if case.get("mismatch") else 1, 0 if case["pattern"] is None else 1, cs,
            "-" if case["limit"] is None else str(case["limit"]), k, " ".join(wire(p) for p in res["pieces"])))
        impl = ",".join(x if isinstance(x, str) else "Y" + enc(latin(x[1]["l"]) if is_bytes else x[1]["l"]) for x in res["log"]) or "_"
        metas.append((case, impl))
        if wd.n > 200:
            shutil.rmtree(wd.d, ignore_errors=True)
            os.makedirs(wd.d, exist_ok=True)
            wd.n = 0
    out = yield [l.rstrip() for l in lines]      # evaluated by the Lean driver (one invocation for all streams)
    if out is None:
        return
    bad = 0
    for (case, impl), o in zip(metas, out):
        if impl != o:
            bad += 1
            ctx.stat("trace_disagreements")
            if bad <= 3:
                ctx.broke("correspondence Parse.parseTrace (tie C, event traces)",
                          "case=%s implementation=%s model=%s" % (json.dumps(case, ensure_ascii=True), impl, o))



# ----------------------------------------------------------------------------- several generators alive at once
def interleaved_case(ctx, rng, a, b, wd):
    """two `parse` generators over different (regex, text, cast) alive at the same time, advanced alternately in
    random bursts: each must yield exactly its own whole-text result (no state shared between calls)"""
    gens, exps, reps = [], [], []
    for (rx_src, text, is_bytes, cast_spec, k) in (a, b):
        pat = rx_src.encode("ascii") if is_bytes else rx_src
        data = text.encode("utf8") if is_bytes else text
        cast, pure = mk_cast(cast_spec)
        kw = {} if cast is None else {"cast": cast}
        gens.append(parse_fn()(io.BytesIO(data) if is_bytes else io.StringIO(data), pat, chunk=k, **kw))
        exps.append(expected_for(re.compile(pat), data, pure))
        reps.append({"pattern": rx_src, "bytes": is_bytes, "text": text, "chunk": k, "cast": cast_spec})
    outs, alive = [[], []], [True, True]
    bursts = []
    err = None
    try:
        while any(alive):
            i = rng.below(2)
            if not alive[i]:
                i = 1 - i
            n = rng.range(1, 3)
            bursts.append([i, n])
            for _ in range(n):
                try:
                    outs[i].append(next(gens[i]))
                except StopIteration:
                    alive[i] = False
                    break
    except Exception as e:  # noqa
        err = core.err_kind(e) + ": " + str(e)[:80]
    ctx.stat("interleaved_pairs")
    for i in range(2):
        if err is not None or outs[i] != exps[i]:
            ctx.violation("two parse() generators consumed alternately: generator %d (%r on %r, chunk=%d) yielded %r…, "
                          "re.finditer + cast give %r…%s" % (i, reps[i]["pattern"], reps[i]["text"], reps[i]["chunk"],
                                                           canon(outs[i])[:3], canon(exps[i])[:3], " [%s]" % err if err else ""),
                          {"stream": "interleaved", "a": reps[0], "b": reps[1], "bursts": bursts})
            return 1
    return 0


def replay_interleaved(r):
    class FixedRng:
        def __init__(self, bursts):
            self.b, self.i, self.phase = bursts, 0, 0

        def below(self, n):
            return self.b[self.i][0] if self.i < len(self.b) else 0

        def range(self, lo, hi):
            v = self.b[self.i][1] if self.i < len(self.b) else 1
            self.i += 1
            return v

    class C:
        bad = False

        def stat(self, *a):
            pass

        def violation(self, what, rp, **kw):
            print(what)
            self.bad = True
    c = C()
    a, b = r["a"], r["b"]
    interleaved_case(c, FixedRng(r["bursts"]), (a["pattern"], a["text"], a["bytes"], a["cast"], a["chunk"]),
                     (b["pattern"], b["text"], b["bytes"], b["cast"], b["chunk"]), None)
    print("REPRODUCED" if c.bad else "not reproduced")
    return 1 if c.bad else 0


# ----------------------------------------------------------------------------- large inputs, default chunk
def _big(r, small):
    """mostly short, now and then longer than the default chunk of 2**16"""
    return r.range(66000, 70000) if r.below(1000) < 2 else r.range(0, small)


LARGE_FORMATS = [
    (LINE_RX, lambda r, i: "rec %d %s" % (i, "x" * _big(r, 200))),
    # (no line longer than a chunk here: an unterminated tail makes `[^\n]*\n` quadratic in the `re` engine)
    (CONT_RX, lambda r, i: "rec %d" % i + "".join("\n cont %s" % ("y" * r.range(0, 200)) for _ in range(r.below(4)))),
    (r"(?P<n>\d+) (?P<lvl>[A-Z]+) (?P<msg>[^\n]*(?:\n\t[^\n]*)*)\n",
     lambda r, i: "%d %s %s" % (i, r.choice(["INFO", "ERROR"]), "m" * r.range(0, 50)
                                + "".join("\n\t" + "t" * _big(r, 300) for _ in range(r.below(3))))),
]


def large_text(sub):
    """the generated input of one large case, a function of its sub-seed alone (so that a replay can rebuild it)"""
    r = core.Rng(sub)
    fi = r.below(len(LARGE_FORMATS))
    rx_src, rec = LARGE_FORMATS[fi]
    nrec = r.choice([300, 1500, 4000])
    text = "\n".join(rec(r, j) for j in range(nrec)) + ("\n" if r.chance(80) else "")
    is_bytes = r.chance(30)
    kind = r.choice(["bytesio", "binfile"] if is_bytes else ["stringio", "path", "pathlib"])
    return rx_src, text, is_bytes, kind, r.range(1000, 70000)


def large_run(rx_src, text, is_bytes, kind, k, wd):
    data = text.encode("utf8") if is_bytes else text
    pat = rx_src.encode("ascii") if is_bytes else rx_src
    exp = [m.groupdict() for m in re.compile(pat).finditer(data)]
    content, fac, path = build_source(kind, data, wd, 0)
    src = fac()
    try:
        kw = {} if k is None else {"chunk": k}
        got = ("ok", list(parse_fn()(src, pat, **kw)))
    except Exception as e:  # noqa
        got = ("err", core.err_kind(e) + ": " + str(e)[:80])
    finally:
        close_if_file(src)
    return data, exp, got


def large_stream(ctx, rng, wd, boost):
    """inputs beyond the default chunk size (2**16): 30 KiB - 1 MiB, now and then a record longer than one chunk,
    parsed with the DEFAULT chunk (argument omitted) and a few explicit sizes around it; regexes that are proved /
    known Local (the quadratic domain decision is not run on these)"""
    n = ctx.n(3, 40) * boost
    t0 = time.time()
    for i in range(n):
        if time.time() - t0 > (15 if ctx.quick else 240):        # a time box, not a verdict
            ctx.note("large-input stream stopped after %d of %d cases (time box)" % (i, n))
            break
        sub = rng.below(1 << 62)
        rx_src, text, is_bytes, kind, krand = large_text(sub)
        ctx.case(("large", sub), nontrivial=True)
        ctx.stat("large_inputs")
        for k in [None, 65536, 65535, krand, len(text) + 1]:
            data, exp, got = large_run(rx_src, text, is_bytes, kind, k, wd)
            ctx.stat("large_parse_calls")
            if k is None:
                ctx.stat("default_chunk_calls")
            if got != ("ok", exp):
                nbad = next((j for j, (x, y) in enumerate(zip(got[1], exp)) if x != y), min(len(got[1]), len(exp))) \
                    if got[0] == "ok" else -1
                ctx.violation("parse(%s, %r%s) on a generated text of %d items (%d records; sub-seed %d): %s"
                              % (kind, rx_src, "" if k is None else ", chunk=%d" % k, len(data), len(exp), sub,
                                 got[1] if got[0] == "err" else "yields %d dicts, first difference at record %d" % (len(got[1]), nbad)),
                              {"stream": "large", "sub": sub, "chunk": k, "pattern": rx_src, "source": kind, "bytes": is_bytes,
                               "text_len": len(data)})
                return
        if wd.n > 50:
            shutil.rmtree(wd.d, ignore_errors=True)
            os.makedirs(wd.d, exist_ok=True)
            wd.n = 0


# ----------------------------------------------------------------------------- model stream
def latin(b):
    return b.decode("latin-1")


def model_vals(tok, scanner):
    """decode one findIter result of the driver into the list of dicts parse should yield"""
    err = None
    if "!" in tok:
        tok, err = tok.split("!", 1)
    vals = []
    if tok != "_":
        for v in tok.split(","):
            if scanner != "block":
                vals.append({"l": core.dec(v)})
            else:
                a, b = v.split(";")
                vals.append({"a": core.dec(a), "b": core.dec(b)})
    return vals, err


def gen_model_text(rng):
    n = rng.choice([0, 1, 2, 3, 5, 8, 12, 16, 22])
    alpha = ["\n", "\n", "a", "b", " ", "é", "😀", "\r", "\t", "日"]
    t = "".join(rng.choice(alpha) for _ in range(n))
    if rng.chance(30) and t.endswith("\n"):
        t = t[:-1] + "x"
    return t


def model_stream(ctx, drv, rng, boost):
    n = ctx.n(300, 6000) * boost
    lines, meta = [], []
    for i in range(n):
        t = gen_model_text(rng)
        if rng.chance(40):
            t = t.replace("\na", "\n ").replace("\nb", "\n  ")      # indented continuation lines
        is_bytes = rng.chance(25)
        if is_bytes:
            data = t.encode("utf8")
            wire = latin(data)
        else:
            data = wire = t
        for sc in ("line", "block", "linem", "cont"):
            lines.append("fi %s %s" % (sc, enc(wire)))
            meta.append(("fi", sc, data, is_bytes, None))
            lines.append("scan %s %s" % (sc, enc(wire)))
            meta.append(("scan", sc, data, is_bytes, None))
        if rng.chance(50):
            sc = rng.choice(["line", "block", "linem", "cont", "cont"])
            seed = rng.below(1 << 30)
            k = rng.range(1, max(1, len(data)) + 1)
            rd = ShortReader(data, seed)
            rx = SCANNER_RX[sc]
            got = run_parse(rd, rx.encode() if is_bytes else rx, k, None)
            reads = [latin(p) if is_bytes else p for p in rd.reads]
            lines.append(("reads %s " % sc) + " ".join(enc(p) for p in reads + [""]))
            meta.append(("reads", sc, data, is_bytes, (k, seed, got)))
    out = yield lines
    if out is None:
        return
    for (op, sc, data, is_bytes, aux), o in zip(meta, out):
        rx = SCANNER_RX[sc]
        pat = rx.encode() if is_bytes else rx
        rx_c = re.compile(pat)

        def conv(d):
            return {k: (v.encode("latin-1") if is_bytes else v) for k, v in d.items()}
        whole = [m.groupdict() for m in rx_c.finditer(data)]
        text_repr = latin(data) if is_bytes else data
        if op == "scan":
            ctx.case(("scan", sc, data))
            exp = "_" if not whole else ",".join(
                "%d:%d:%s" % (m.start(), m.end(),
                              enc(latin(m.group("l")) if is_bytes else m.group("l")) if sc != "block" else
                              enc(latin(m.group("a")) if is_bytes else m.group("a")) + ";" +
                              enc(latin(m.group("b")) if is_bytes else m.group("b")))
                for m in rx_c.finditer(data))
            ctx.traces_validated += 1
            if o != exp:
                ctx.stat("scanner_disagreements")
                ctx.broke("correspondence Parse.%sScanner vs re.finditer(%s)" % (sc, rx),
                          "text=%r model=%s re=%s" % (text_repr, o, exp))
            continue
        if op == "fi":
            toks = o.split(" ")
            for k, tok in enumerate(toks, 1):
                vals, err = model_vals(tok, sc)
                vals = [conv(d) for d in vals]
                src = io.BytesIO(data) if is_bytes else io.StringIO(data)
                got = run_parse(src, pat, k, None)
                ctx.case(("fi", sc, data, k), nontrivial=(len(whole) >= 2))
                ctx.stat("model_fi_cases")
                ctx.traces_validated += 1
                m = ("ok", vals) if err is None else ("err", err)
                if got != m:
                    report_model_disagreement(ctx, sc, rx, data, is_bytes, k, "stringio" if not is_bytes else "bytesio",
                                              got, m, whole, 0)
                    break
        else:
            k, seed, got = aux
            vals, err = model_vals(o, sc)
            vals = [conv(d) for d in vals]
            ctx.case(("reads", sc, data, k, seed), nontrivial=(len(whole) >= 2))
            ctx.stat("model_short_read_cases")
            ctx.traces_validated += 1
            m = ("ok", vals) if err is None else ("err", err)
            if got != m:
                report_model_disagreement(ctx, sc, rx, data, is_bytes, k, "short", got, m, whole, seed)


def report_model_disagreement(ctx, sc, rx, data, is_bytes, k, kind, got, m, whole, seed):
    ctx.stat("model_disagreements")
    text = data.decode("utf8") if is_bytes else data
    detail = "scanner=%s text=%r chunk=%d source=%s impl=%r model=%r" % (sc, text, k, kind, canon(got), canon(m))
    ctx.broke("correspondence Parse.findIter (tie C)", detail)
    # theorem line_scanner_any_chunk / block_scanner_any_chunking: model = whole-text scan.  The
    # disagreement is a failing input of the property iff the implementation differs from re.finditer.
    if got != ("ok", whole):
        ctx.violation("parse(%s, %r, chunk=%d) on %r differs from re.finditer (and from the Lean model): observed %r"
                      % (kind, rx, k, text, canon(got[1]) if got[0] == "err" else canon(got[1])[:5]),
                      {"stream": "oracle", "pattern": rx, "bytes": is_bytes, "text": text, "chunk": k, "source": kind,
                       "cast": ["none"], "seed": seed, "expected": canon(whole), "observed": canon(got[1])},
                      kind="correspondence")


# ----------------------------------------------------------------------------- args stream
def args_stream(ctx, drv, wd):
    p = wd.file(b"a\nb\n")
    cases = []
    class ReadNotCallable:
        read = 5
    for fname, fobj in [("other", object()), ("other", 123), ("other", dict), ("other", None),
                        ("other", ReadNotCallable()),
                        ("pathStr", p), ("pathLike", pathlib.Path(p)), ("textFile", "open-text"),
                        ("binaryFile", "open-bin")]:
        for cname, cobj in [("dict", {}), ("fn", (lambda g: None)), ("invalid", 123), ("invalid", object())]:
            for pok, pobj in [(1, LINE_RX), (0, 123), (0, object())]:
                cases.append((fname, fobj, cname, cobj, pok, pobj))
    lines = ["parse %s %s %d %s -" % (f, c, pk, " ".join(enc(x) for x in ["a\nb\n"])) for f, _, c, _, pk, _ in cases]
    out = yield lines
    if out is None:                    # the model does not build against this tree: the oracle part still runs
        out = [None] * len(lines)
    for (fname, fobj, cname, cobj, pok, pobj), o in zip(cases, out):
        binary = fname == "binaryFile"
        if fobj == "open-text":
            fobj = open(p)
        elif fobj == "open-bin":
            fobj = open(p, "rb")
            if pok:
                pobj = pobj.encode()
        with OpenTracker() as trk:
            try:
                res = list(parse_fn()(fobj, pobj, cast=cobj, chunk=2))
                got = ("ok", len(res))
            except Exception as e:  # noqa
                got = ("err", core.err_kind(e))
            opened = len(trk.files)
            closed = all(f.closed for f in trk.files)
        caller_closed = getattr(fobj, "closed", None)
        close_if_file(fobj)
        ctx.case(("args", fname, cname, pok, repr(type(fobj)), repr(type(cobj))))
        ctx.stat("args_cases")
        ctx.traces_validated += 1
        should_fail = fname == "other" or cname == "invalid" or not pok
        rep = {"stream": "args", "file": fname, "cast_kind": cname, "pattern_ok": pok}
        if should_fail:
            if got != ("err", "TypeError") or opened:
                ctx.violation("parse(file=%s, cast=%s, pattern ok=%d) should raise TypeError before opening anything; "
                              "observed %r, files opened %d" % (fname, cname, pok, got, opened), rep)
        else:
            if got != ("ok", 2):
                ctx.violation("parse(file=%s, cast=%s) on 'a\\nb\\n' with the line regex: observed %r" % (fname, cname, got), rep)
            elif fname in ("pathStr", "pathLike") and opened and not closed:
                ctx.violation("file opened by parse(%s) not closed after exhaustion" % fname, rep)
            if fname in ("textFile", "binaryFile") and caller_closed:
                ctx.stat("caller_file_closed_by_parse")
        if o is None:
            continue
        ev, n, err = o.split(" ")
        m_err = "ok" if err == "ok" else err
        i_err = "ok" if got[0] == "ok" else got[1]
        m_open = ev.count("O")
        if (m_err, m_open) != (i_err, opened) and not (opened == 0 and m_open == 1):
            ctx.broke("correspondence Parse.parse (argument checks / opener events)",
                      "file=%s cast=%s pattern_ok=%d impl=(%s, opened %d) model=(%s, %s)" % (fname, cname, pok, i_err, opened, m_err, ev))
        if not should_fail and fname in ("textFile", "binaryFile") and bool(caller_closed) != ("C" in ev):
            ctx.broke("correspondence Parse.parse (caller's file object left open)",
                      "file=%s: implementation closed=%r, model events %s" % (fname, caller_closed, ev))


# ----------------------------------------------------------------------------- round trip
def mk_logger():
    from loguru._logger import Core, Logger
    return Logger(core=Core(), exception=None, depth=0, record=False, lazy=False, colors=False, raw=False,
                  capture=True, patchers=[], extra={})


RT_FORMATS = [
    ("{time:YYYY-MM-DD HH:mm:ss.SSS} | {level: <8} | {name}:{function}:{line} - {message}",
     r"(?P<time>[0-9\-: .]+) \| (?P<level>[A-Z]+) *\| (?P<name>[^:\n]+):(?P<function>[^:\n]+):(?P<line>\d+) - (?P<message>[^\n]*)\n",
     {"line": 0}, False),
    ("{level.no}: {message}", r"(?P<lvl>[0-9]+): (?P<msg>.*)", {"lvl": 0}, False),
    ("[{level}] {message}", r"\[(?P<level>\w+)\] (?P<message>[^\n]*(?:\n [^\n]*)*)\n", {}, True),
    ("{time:HH:mm:ss} {extra[i]} {message}", r"(?P<time>\d\d:\d\d:\d\d) (?P<i>\d+) (?P<message>.*)", {"i": 0}, False),
    ("{time:YYYY-MM-DD HH:mm:ss.SSS} {level} {message}",
     r"(?P<time>\d{4}-\d\d-\d\d \d\d:\d\d:\d\d\.\d{3}) (?P<level>\w+) (?P<message>.*(?:\n(?!\d{4}-|\Z).*)*)", {}, True),
]


def rt_expected(fi, rec):
    if fi == 0:
        return {"time": format(rec["time"], "YYYY-MM-DD HH:mm:ss.SSS"), "level": rec["level"].name,
                "name": rec["name"], "function": rec["function"], "line": int(rec["line"]), "message": rec["message"]}
    if fi == 1:
        return {"lvl": rec["level"].no, "msg": rec["message"]}
    if fi == 2:
        return {"level": rec["level"].name, "message": rec["message"]}
    if fi == 3:
        return {"time": format(rec["time"], "HH:mm:ss"), "i": rec["extra"]["i"], "message": rec["message"]}
    return {"time": format(rec["time"], "YYYY-MM-DD HH:mm:ss.SSS"), "level": rec["level"].name, "message": rec["message"]}


def roundtrip_once(ctx, rng, wd, fi, msgs, levels, ks_mode):
    fmt, rx, intkeys, multi = RT_FORMATS[fi]
    lg = mk_logger()
    path = os.path.join(wd.d, "rt%d.log" % rng.below(1 << 30))
    records = []
    h1 = lg.add(path, format=fmt, encoding="utf8", level=0)
    h2 = lg.add(lambda m: records.append(m.record), format="{message}", level=0)
    for i, (msg, lv) in enumerate(zip(msgs, levels)):
        lg.bind(i=i).log(lv, msg)
    lg.remove(h1)
    lg.remove(h2)
    with open(path) as f:
        content = f.read()
    exp = [rt_expected(fi, r) for r in records]
    cast = {k: int for k in intkeys}
    rx_c = re.compile(rx)
    ok, why = in_domain(rx_c, content) if len(content) <= 400 else (True, "")
    if not ok:
        ctx.stat("roundtrip_outside_domain:" + why)
        return 0
    whole = [dict(m.groupdict(), **{k: int(m.group(k)) for k in intkeys}) for m in rx_c.finditer(content)]
    if whole != exp:
        # the harness's regex does not mirror what the handler wrote: not a statement about parse()
        ctx.stat("roundtrip_regex_not_mirroring")
        ctx.note("round-trip regex %d does not mirror the written file for messages %r" % (fi, msgs))
        return 0
    n = len(content)
    if ks_mode == "all":
        ks = list(range(1, n + 2))
    else:
        ks = sorted({1, 2, 3, 7, 64, n, n + 1, 2 ** 16} | {rng.range(1, n + 1) for _ in range(6)})
    for k in ks + [None]:
        src = path if rng.chance(50) else pathlib.Path(path)
        if k is None:               # the default chunk (argument omitted)
            try:
                got = ("ok", list(parse_fn()(src, rx, cast=cast)))
            except Exception as e:  # noqa
                got = ("err", core.err_kind(e) + ": " + str(e)[:80])
            k = 2 ** 16
            ctx.stat("default_chunk_calls")
        else:
            got = run_parse(src, rx, k, cast)
        ctx.stat("roundtrip_parse_calls")
        if got != ("ok", exp):
            ctx.violation("round trip: %d records written with format %r, parsed back with chunk=%d: expected %r…, observed %r…"
                          % (len(exp), fmt, k, exp[:2], got[1] if got[0] == "err" else got[1][:2]),
                          {"stream": "roundtrip", "format": fi, "messages": msgs, "levels": levels, "chunk": k,
                           "expected_n": len(exp)})
            return 1
    return 0


def gen_rt(rng, fi):
    multi = RT_FORMATS[fi][3]
    n = rng.choice([0, 1, 2, 3, 5, 8])
    msgs = []
    for _ in range(n):
        m = gen_msg(rng, 0, 12)
        if multi and rng.chance(50):
            if fi == 2:
                m = m + "".join("\n " + gen_msg(rng, 0, 6) for _ in range(rng.range(1, 2)))
            else:
                m = m + "".join("\n  at " + gen_msg(rng, 0, 6) for _ in range(rng.range(1, 2)))
        msgs.append(m)
    levels = [rng.choice(["DEBUG", "INFO", "WARNING", "ERROR", "SUCCESS", "TRACE", "CRITICAL"]) for _ in msgs]
    return msgs, levels


# ----------------------------------------------------------------------------- corpus
def corpus_cases():
    d = os.path.join(core.VERIF, "corpus", PROP)
    out = []
    if os.path.isdir(d):
        for f in sorted(os.listdir(d)):
            if f.endswith(".json"):
                out.append((f, json.load(open(os.path.join(d, f), encoding="utf8"))))
    return out


def run_corpus(ctx, wd):
    for name, c in corpus_cases():
        text = c["text"] * c.get("repeat", 1)
        is_bytes = c.get("bytes", False)
        rx_c = re.compile(c["pattern"].encode() if is_bytes else c["pattern"])
        data = text.encode("utf8") if is_bytes else text
        ok, why = in_domain(rx_c, data) if len(data) <= 300 else (True, "assumed")
        ctx.stat("corpus_cases")
        if not ok:
            ctx.stat("corpus_outside_domain")
            continue
        ks = c.get("chunks") or list(range(1, len(data) + 2))
        ctx.case(("corpus", name), nontrivial=True, n=len(ks))
        for kind in c.get("sources", ["bytesio" if is_bytes else "stringio"]):
            judge_case(ctx, c["pattern"], text, is_bytes, kind, c.get("cast", ["none"]), ks, wd, 1, extra={"corpus": name})


# ----------------------------------------------------------------------------- run
def drive_streams(ctx, drv, gens):
    pending = []
    for g in gens:
        try:
            pending.append((g, next(g)))
        except StopIteration:
            pass
    lines = [l for _, ls in pending for l in ls]
    try:
        out = drv.run(lines) if lines else []
    except core.DriverError as e:
        ctx.broke("driver:" + DRIVER, str(e))
        out = None
    pos = 0
    for g, ls in pending:
        part = None if out is None else out[pos:pos + len(ls)]
        pos += len(ls)
        try:
            g.send(part)
        except StopIteration:
            pass


def run(ctx):
    rng = ctx.rng
    drv = core.Driver(DRIVER)
    boost = 4 if getattr(ctx, "search_boost", False) else 1
    wd = Workdir()
    try:
        run_corpus(ctx, wd)
        # the three streams that need the Lean model are generators: they hand over their driver lines, the driver
        # is started ONCE for all of them, and they go on with its answers (None: the model does not build against
        # this tree - a broken tie, reported; the direct oracles decide)
        drive_streams(ctx, drv, [args_stream(ctx, drv, wd), model_stream(ctx, drv, rng.fork("model"), boost),
                                 trace_stream(ctx, drv, rng.fork("trace"), wd, boost)])
        oracle_stream(ctx, rng.fork("oracle"), wd, boost)
        rt_stream(ctx, rng.fork("roundtrip"), wd, boost)
        large_stream(ctx, rng.fork("large"), wd, boost)
    finally:
        wd.close()
    seen, uniq = set(), []
    for b in ctx.broken:
        if b["name"] not in seen:
            seen.add(b["name"])
            uniq.append(b)
    ctx.broken[:] = uniq


def oracle_stream(ctx, rng, wd, boost):
    n = ctx.n(5000, 100000) * boost
    fails = 0
    prev = None
    for i in range(n):
        rx_src, text, feats = gen_case(rng)
        is_bytes = rng.chance(25)
        try:
            pat = rx_src.encode("ascii") if is_bytes else rx_src
            rx_c = re.compile(pat)
        except (re.error, UnicodeEncodeError):
            ctx.stat("generator_bad_regex")
            continue
        data = text.encode("utf8") if is_bytes else text
        ok, why = in_domain(rx_c, data)
        nm = sum(1 for _ in rx_c.finditer(data))
        for f in feats:
            ctx.stat("feature:" + f)
        ctx.stat("bytes" if is_bytes else "str")
        if not ok:
            ctx.stat("outside_domain:" + why)
            ctx.case(("out", rx_src, text, is_bytes))
            continue
        ctx.stat("inside_domain")
        ctx.stat("matches:%s" % (nm if nm < 4 else "4+"))
        if text == "":
            ctx.stat("empty_text")
        if text and not text.endswith("\n"):
            ctx.stat("no_trailing_newline")
        if any(ord(c) > 127 for c in text):
            ctx.stat("multibyte")
        cast_spec = gen_cast_spec(rng, rx_c)
        ctx.stat("cast:" + cast_spec[0])
        ks = list(range(1, len(data) + 2))
        base = "bytesio" if is_bytes else "stringio"
        longest = max([m.end() - m.start() for m in rx_c.finditer(data)] or [0])
        ctx.case((rx_src, text, is_bytes), nontrivial=(nm >= 2 and longest >= 2), n=len(ks))
        if i < 4:
            ctx.sample({"stream": "oracle", "pattern": rx_src, "text": text, "bytes": is_bytes, "matches": nm,
                        "chunks": "1..%d" % (len(data) + 1), "cast": cast_spec})
        seed = rng.below(1 << 30)
        fails += judge_case(ctx, rx_src, text, is_bytes, base, cast_spec, ks, wd, seed)
        this = (rx_src, text, is_bytes, cast_spec, rng.choice(ks))
        if prev is not None and rng.chance(20):
            fails += interleaved_case(ctx, rng, prev, this, wd)
        prev = this
        # a second kind of source on a few chunk sizes
        kind = rng.choice(SOURCES_BYTES[1:] if is_bytes else SOURCES_STR[1:])
        if kind != "short" and "\r" in text:
            kind = "short"
        ctx.stat("source:" + kind)
        ks2 = sorted({1, len(data) + 1, rng.range(1, len(data) + 1), rng.range(1, len(data) + 1)})
        fails += judge_case(ctx, rx_src, text, is_bytes, kind, cast_spec, ks2, wd, seed)
        if kind in ("path", "pathlib", "pathlike", "pathlike_str") and rng.chance(50):
            fails += early_close_case(ctx, rx_src, text, kind, rng.choice(ks2), wd)
        if rng.chance(35):
            # the iteration ends some other way than plain exhaustion: consumer closes, converter / read raises
            fc = gen_fault(rng, nm, len(data), sorted(x if isinstance(x, str) else x.decode() for x in rx_c.groupindex))
            fkind = rng.choice(FAULT_SOURCES_BYTES if is_bytes else FAULT_SOURCES_STR)
            if "\r" in text and fkind not in ("stringio", "bytesio", "binfile"):
                fkind = "bytesio" if is_bytes else "stringio"
            fc.update(pattern=rx_src, bytes=is_bytes, text=text, source=fkind, chunk=rng.choice(ks), seed=0)
            ctx.stat("fault_cases")
            ctx.stat("fault_source:" + fkind)
            fails += judge_fault(ctx, fc, run_fault(fc, wd), "oracle")
        if wd.n > 200:
            shutil.rmtree(wd.d, ignore_errors=True)
            os.makedirs(wd.d, exist_ok=True)
            wd.n = 0
        if fails > 25:
            break


def rt_stream(ctx, rng, wd, boost):
    n = ctx.n(60, 1200) * boost
    for i in range(n):
        fi = rng.below(len(RT_FORMATS))
        msgs, levels = gen_rt(rng, fi)
        ctx.case(("rt", fi, tuple(msgs), tuple(levels)), nontrivial=(len(msgs) >= 2))
        ctx.stat("roundtrip_files")
        ctx.stat("roundtrip_format:%d" % fi)
        if roundtrip_once(ctx, rng, wd, fi, msgs, levels, "all" if (i % 5 == 0 and sum(map(len, msgs)) < 60) else "sample"):
            break


# ----------------------------------------------------------------------------- replay
def replay(ctx, rep):
    r = rep["replay"]
    wd = Workdir()
    try:
        if r.get("stream") == "roundtrip":
            class C:  # minimal ctx
                def stat(self, *a): pass
                def violation(self, what, rp, **kw):
                    print(what)
                    self.bad = True
            c = C()
            c.bad = False
            rr = core.Rng(0)
            fi = r["format"]
            fmt, rx, intkeys, _ = RT_FORMATS[fi]
            lg = mk_logger()
            path = os.path.join(wd.d, "rt.log")
            records = []
            h1 = lg.add(path, format=fmt, encoding="utf8", level=0)
            h2 = lg.add(lambda m: records.append(m.record), format="{message}", level=0)
            for i, (msg, lv) in enumerate(zip(r["messages"], r["levels"])):
                lg.bind(i=i).log(lv, msg)
            lg.remove(h1)
            lg.remove(h2)
            exp = [rt_expected(fi, x) for x in records]
            got = run_parse(path, rx, r["chunk"], {k: int for k in intkeys})
            print("format:", fmt)
            print("regex: ", rx)
            print("chunk: ", r["chunk"])
            print("expected:", exp)
            print("observed:", got)
            bad = got != ("ok", exp)
            print("REPRODUCED" if bad else "not reproduced")
            return 1 if bad else 0
        if r.get("stream") == "interleaved":
            return replay_interleaved(r)
        if r.get("stream") == "large":
            rx_src, text, is_bytes, kind, _ = large_text(r["sub"])
            data, exp, got = large_run(rx_src, text, is_bytes, kind, r["chunk"], wd)
            print("pattern=%r chunk=%r (None = the default) source=%s, generated text of %d items (sub-seed %d): expected %d dicts, observed %s"
                  % (rx_src, r["chunk"], kind, len(data), r["sub"], len(exp), len(got[1]) if got[0] == "ok" else got))
            if got[0] == "ok":
                nbad = next((j for j, (x, y) in enumerate(zip(got[1], exp)) if x != y), None)
                if nbad is not None:
                    print("first difference at record %d: expected %r… observed %r…" % (nbad, str(canon(exp[nbad]))[:200], str(canon(got[1][nbad]))[:200]))
            bad = got != ("ok", exp)
            print("REPRODUCED" if bad else "not reproduced")
            return 1 if bad else 0
        if r.get("stream") == "fault":
            class C:  # minimal ctx
                bad = False

                def stat(self, *a):
                    pass

                def violation(self, what, rp, **kw):
                    print(what)
                    self.bad = True
            c = C()
            case = {k: v for k, v in r.items() if k not in ("stream", "what", "expected", "observed")}
            res = run_fault(case, wd)
            print("case:", case)
            print("events:", [x if isinstance(x, str) else ("Y", canon(x[1])) for x in res["log"]])
            judge_fault(c, case, res, "replay")
            print("REPRODUCED" if c.bad else "not reproduced")
            return 1 if c.bad else 0
        if r.get("stream") == "args":
            p = wd.file(b"a\nb\n")
            fobj = {"other": object(), "pathStr": p, "pathLike": pathlib.Path(p)}.get(r["file"])
            if r["file"] == "textFile":
                fobj = open(p)
            if r["file"] == "binaryFile":
                fobj = open(p, "rb")
            cobj = {"dict": {}, "fn": (lambda g: None), "invalid": 123}[r["cast_kind"]]
            pobj = (LINE_RX.encode() if r["file"] == "binaryFile" else LINE_RX) if r["pattern_ok"] else 123
            with OpenTracker() as trk:
                try:
                    got = ("ok", len(list(parse_fn()(fobj, pobj, cast=cobj, chunk=2))))
                except Exception as e:  # noqa
                    got = ("err", core.err_kind(e))
                opened, closed = len(trk.files), all(f.closed for f in trk.files)
            close_if_file(fobj)
            should_fail = r["file"] == "other" or r["cast_kind"] == "invalid" or not r["pattern_ok"]
            print("arguments:", r, "observed:", got, "opened:", opened, "closed:", closed)
            bad = (got != ("err", "TypeError") or opened > 0) if should_fail else (got != ("ok", 2) or not closed)
            print("REPRODUCED" if bad else "not reproduced")
            return 1 if bad else 0
        rx_src, text, is_bytes, k = r["pattern"], r["text"], r.get("bytes", False), r["chunk"]
        pat = rx_src.encode("ascii") if is_bytes else rx_src
        data = text.encode("utf8") if is_bytes else text
        cast, pure = mk_cast(r.get("cast", ["none"]))
        if r.get("stream") == "closed":
            seen, fac, path = content_for(r["source"], data, wd)
            with OpenTracker() as trk:
                gen = parse_fn()(fac(), pat, chunk=k)
                if r.get("mode") == "early":
                    try:
                        next(gen)
                    except StopIteration:
                        pass
                    gen.close()
                else:
                    for _ in gen:
                        pass
                states = [f.closed for f in trk.files]
            print("pattern=%r text=%r chunk=%d source=%s mode=%s" % (rx_src, text, k, r["source"], r.get("mode")))
            print("files opened by parse:", len(states), "closed:", states)
            bad = bool(states) and not all(states)
            print("REPRODUCED" if bad else "not reproduced")
            return 1 if bad else 0
        content, fac, path = build_source(r["source"], data, wd, r.get("seed", 0))
        exp = expected_for(re.compile(pat), content, pure)
        src = fac()
        got = run_parse(src, pat, k, cast, bool(r.get("compiled")))
        close_if_file(src)
        print("pattern=%r%s bytes=%s chunk=%d source=%s cast=%s" % (rx_src, " (passed as a compiled pattern)" if r.get("compiled") else "",
                                                                    is_bytes, k, r["source"], r.get("cast")))
        print("text=%r" % (text,))
        print("in property domain ((R),(P) on this text):", in_domain(re.compile(pat), content)[0])
        print("expected (re.finditer):", canon(exp))
        print("implementation:        ", canon(got[1]) if got[0] == "ok" else got)
        if rx_src in (LINE_RX, BLOCK_RX, CONT_RX) and r["source"] in ("stringio", "bytesio"):
            sc = {LINE_RX: "line", BLOCK_RX: "block", CONT_RX: "cont"}[rx_src]
            wire = latin(data) if is_bytes else data
            try:
                o = core.Driver(DRIVER).run(["fi %s %s" % (sc, enc(wire))])[0].split(" ")
                if k <= len(o):
                    print("model:                 ", model_vals(o[k - 1], sc))
            except Exception as e:  # the model may not build against a changed tree; the oracle decides
                print("model:                  (driver not available: %s)" % type(e).__name__)
        bad = got != ("ok", exp)
        print("REPRODUCED" if bad else "not reproduced")
        return 1 if bad else 0
    finally:
        wd.close()
